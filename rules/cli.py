import importlib
import json
import os
import re
import sys
import time

from . import extract, facts, framework


def load_crates(configs, root=None):
    root = root or extract.repo_root()
    res = extract.extract_many(root, configs)
    crates = {}
    for c in configs:
        crates[c] = facts.Crate(res[c][0], c)
    return crates, res


def main(argv):
    if not argv:
        print(__doc__ or "usage: check <ID> [--tier quick|thorough]")
        return 2
    if argv[0] == "dump":
        cfg, pat = argv[1], argv[2]
        crates, _ = load_crates([cfg])
        for b in crates[cfg].find(pat):
            print(b.pretty())
            print()
        return 0
    if argv[0] == "list":
        cfg = argv[1]
        crates, _ = load_crates([cfg])
        for n, b in sorted(crates[cfg].bodies.items()):
            print("%-90s %s:%d" % (n, b.file, b.line))
        return 0
    tier = os.environ.get("VERIF_TIER", "quick")
    replay = None
    prop = None
    i = 0
    while i < len(argv):
        a = argv[i]
        if a == "--tier":
            tier = argv[i + 1]
            i += 2
        elif a == "--replay":
            replay = argv[i + 1]
            i += 2
        else:
            prop = a
            i += 1
    if replay:
        with open(replay) as fh:
            w = json.load(fh)
        print(json.dumps(w, indent=1))
        prop = prop or w.get("property")
    if not prop or not re.fullmatch(r"C\d\d", prop):
        print("unknown property", prop)
        return 2
    try:
        seed = int(os.environ.get("VERIF_SEED", "0"))
    except ValueError:
        seed = 0
    mod = importlib.import_module("rules.props.%s" % prop.lower())
    configs = extract.QUICK_CONFIGS if tier == "quick" else extract.THOROUGH_CONFIGS
    t0 = time.time()
    crates, res = load_crates(configs)
    ctx = framework.Ctx(prop, tier, crates)
    ctx.t0 = t0
    ctx.extra["extraction"] = {c: {"seconds": round(res[c][1], 2), "cached": res[c][2]} for c in configs}
    ctx.extra["tree_hash"] = extract.tree_hash(extract.repo_root())
    inl = sorted({n for c in configs for n in crates[c].inlined})
    if inl:
        print("note: private helper(s) not present in the pinned tree were inlined at their call sites before the rules ran: %s" % ", ".join(inl))
        ctx.extra["inlined_helpers"] = inl
    for c in configs:
        mod.run(ctx, crates[c])
    if tier == "thorough":
        from . import mutants
        mutants.run_corpus(ctx, prop)
        from . import equiv
        equiv.run_all(ctx, prop)
        try:
            extract.prune_cache([extract.tree_hash(extract.repo_root())], max_keep=1500)
        except Exception:
            pass
    return framework.finish(ctx, mod.EXPLANATION, mod.UNDECIDED, seed)
