"""Engine B core: fact loading, CFG utilities, reachability/dominance, data slices, call graph."""
import json
import re
from collections import defaultdict, deque


# ------------------------------------------------------------------------------------------------
# Places / operands helpers

def place_local(p):
    return p["l"]


def place_fields(p):
    """Field projections of a place as (adt, variant, name) tuples, in order."""
    out = []
    for e in p["p"]:
        if isinstance(e, dict) and "f" in e:
            out.append((e.get("adt", "?"), e.get("v", ""), e.get("n", str(e["f"]))))
    return out


def place_has_deref(p):
    return any(e == "*" for e in p["p"])


def place_str(p, body=None):
    s = "_%d" % p["l"]
    if body is not None:
        n = body.locals[p["l"]].get("name")
        if n:
            s = "%s{_%d}" % (n, p["l"])
    for e in p["p"]:
        if e == "*":
            s = "(*%s)" % s
        elif isinstance(e, dict):
            if "f" in e:
                s += "." + str(e.get("n", e["f"]))
            elif "ix" in e:
                s += "[_%d]" % e["ix"]
            elif "cix" in e:
                s += "[%s%d]" % ("-" if e.get("from_end") else "", e["cix"])
            elif "dc" in e:
                s = "(%s as %s)" % (s, e["dc"])
            elif "sub" in e:
                s += "[%s..%s]" % tuple(e["sub"])
        else:
            s += "." + str(e)
    return s


def op_str(o, body=None):
    if o is None:
        return "?"
    k = o["k"]
    if k in ("copy", "move"):
        return ("move " if k == "move" else "") + place_str(o["place"], body)
    if k == "const":
        if "fn" in o:
            return "fn:" + o.get("fn_full", o["fn"])
        if "v" in o:
            return "const %r" % (o["v"],)
        if "closure" in o:
            return "closure:" + o["closure"]
        return "const<%s>" % o["ty"]
    return "?" + k


def rv_str(rv, body=None):
    k = rv["k"]
    if k == "use":
        return op_str(rv["op"], body)
    if k == "ref":
        return ("&mut " if rv["mut"] else "&") + place_str(rv["place"], body)
    if k == "rawptr":
        return "&raw " + place_str(rv["place"], body)
    if k == "cast":
        return "%s as %s (%s)" % (op_str(rv["op"], body), rv["ty"], rv["ck"])
    if k == "bin":
        return "%s(%s, %s)" % (rv["op"], op_str(rv["a"], body), op_str(rv["b"], body))
    if k == "un":
        return "%s(%s)" % (rv["op"], op_str(rv["a"], body))
    if k == "discr":
        return "discriminant(%s)" % place_str(rv["place"], body)
    if k == "copyderef":
        return "deref_copy " + place_str(rv["place"], body)
    if k == "agg":
        ak = rv["ak"]
        ops = ", ".join(op_str(x, body) for x in rv["ops"])
        if ak == "adt":
            return "%s::%s{%s}" % (rv["adt"], rv["variant"], ops)
        if ak == "closure":
            return "closure[%s](%s)" % (rv["def"], ops)
        return "%s(%s)" % (ak, ops)
    if k == "repeat":
        return "[%s; %s]" % (op_str(rv["op"], body), rv["n"])
    return rv.get("dbg", k)


def operand_local(o):
    """Local read by an operand (None for constants)."""
    if isinstance(o, dict) and o.get("k") in ("copy", "move"):
        return o["place"]["l"]
    return None


def operand_place(o):
    if o and o["k"] in ("copy", "move"):
        return o["place"]
    return None


def const_val(o):
    if isinstance(o, dict) and o.get("k") == "const" and "v" in o:
        return o["v"]
    return None


def is_const(o, v=None):
    if not isinstance(o, dict) or o.get("k") != "const":
        return False
    return v is None or o.get("v") == v


# ------------------------------------------------------------------------------------------------

def meth_name(path):
    return path.rsplit("::", 1)[-1]


class Call:
    """A call terminator at block bb of a body."""
    __slots__ = ("body", "bb", "t")

    def __init__(self, body, bb, t):
        self.body, self.bb, self.t = body, bb, t

    @property
    def path(self):
        return self.t["callee"]["path"]

    @property
    def generic(self):
        return self.t["callee"].get("generic", self.t["callee"]["path"])

    @property
    def callee(self):
        return self.t["callee"]

    @property
    def args(self):
        return self.t["args"]

    @property
    def dest(self):
        return self.t["dest"]

    @property
    def target(self):
        return self.t["t"]

    @property
    def line(self):
        return self.t.get("line", 0)

    def names(self):
        c = self.t["callee"]
        return {c["path"], c.get("generic", c["path"])}

    def matches(self, *pats):
        """True if the resolved or generic callee path matches one of the regexes (full match)."""
        for n in self.names():
            for p in pats:
                if re.fullmatch(p, n):
                    return True
        return False

    def loc(self):
        return "%s:%d" % (self.body.file, self.line)

    def __repr__(self):
        return "<call %s in %s bb%d line %d>" % (self.path, self.body.name, self.bb, self.line)


class Body:
    def __init__(self, d, crate):
        self.d = d
        self.crate = crate
        self.name = d["def"]
        self.kind = d["kind"]
        self.vis = d["vis"]
        self.api = d.get("api", False)
        self.file = d["file"]
        self.line = d["line"]
        self.arg_count = d["arg_count"]
        self.locals = d["locals"]
        self.blocks = d["blocks"]
        self.impl = d.get("impl")
        self.parent = d.get("parent")
        self.root_parent = d.get("root_parent")
        self.n = len(self.blocks)
        self._succ = None
        self._pred = None
        self._defs = None
        self._calls = None

    # ---- CFG (normal edges only: no unwind edges, no cleanup blocks) -------------------------
    def term(self, bb):
        return self.blocks[bb]["term"]

    def stmts(self, bb):
        return self.blocks[bb]["stmts"]

    def succ(self, bb):
        if self._succ is None:
            dead = {i for i in range(self.n) if self.blocks[i]["term"] and self.blocks[i]["term"]["k"] == "unreachable"
                    and not self.blocks[i]["stmts"]}
            self._raw_succ = [[x for x in self._compute_succ(i) if x not in dead] for i in range(self.n)]
            self._succ = [list(x) for x in self._raw_succ]
            self._thread_jumps()
        return self._succ[bb]

    def raw_succ(self, bb):
        self.succ(0)
        return self._raw_succ[bb]

    def _thread_jumps(self):
        """Jump threading over boolean temporaries: a statement-free block `switch _x` whose
        predecessor P ends `_x = const c; goto B` is bypassed (P -> target(c)). This removes the
        infeasible paths rustc creates for `matches!`, `a || b`, `a && b`, `!a`."""
        self.threaded = {}
        changed = True
        rounds = 0
        while changed and rounds < 8:
            changed = False
            rounds += 1
            for b in range(self.n):
                blk = self.blocks[b]
                t = blk["term"]
                if not t or t["k"] != "switch":
                    continue
                if blk["stmts"]:
                    # constant folding: `_x = const c; switch _x` inside one block
                    op = t["op"]
                    if rounds == 1 and op["k"] in ("copy", "move") and not op["place"]["p"]:
                        x = op["place"]["l"]
                        for s in reversed(blk["stmts"]):
                            if s["k"] == "assign" and s["lhs"]["l"] == x:
                                if not s["lhs"]["p"] and s["rv"]["k"] == "use" and s["rv"]["op"]["k"] == "const" \
                                        and isinstance(s["rv"]["op"].get("v"), (bool, int)):
                                    val = int(s["rv"]["op"]["v"])
                                    tgt = t["otherwise"]
                                    for v, bb2 in t["targets"]:
                                        if v == val:
                                            tgt = bb2
                                            break
                                    self._succ[b] = [tgt]
                                    self.threaded[b] = (b, val, tgt)
                                    changed = True
                                break
                    continue
                op = t["op"]
                if op["k"] not in ("copy", "move") or op["place"]["p"]:
                    continue
                x = op["place"]["l"]
                for p in range(self.n):
                    if b not in self._succ[p] or p == b:
                        continue
                    pt = self.blocks[p]["term"]
                    if not pt or pt["k"] != "goto":
                        continue
                    val = None
                    for s in reversed(self.blocks[p]["stmts"]):
                        if s["k"] == "assign" and s["lhs"]["l"] == x:
                            if not s["lhs"]["p"] and s["rv"]["k"] == "use" and s["rv"]["op"]["k"] == "const" \
                                    and isinstance(s["rv"]["op"].get("v"), (bool, int)):
                                val = int(s["rv"]["op"]["v"])
                            break
                    if val is None:
                        continue
                    tgt = t["otherwise"]
                    for v, bb2 in t["targets"]:
                        if v == val:
                            tgt = bb2
                            break
                    self._succ[p] = [tgt]
                    self.threaded[p] = (b, val, tgt)
                    changed = True

    def _compute_succ(self, bb):
        t = self.blocks[bb]["term"]
        if t is None:
            return []
        k = t["k"]
        if k == "goto":
            return [t["t"]]
        if k == "switch":
            s = [x[1] for x in t["targets"]] + [t["otherwise"]]
            out = []
            for x in s:
                if x not in out:
                    out.append(x)
            return out
        if k in ("drop", "assert"):
            return [t["t"]]
        if k == "call":
            return [t["t"]] if t["t"] is not None else []
        return []

    def pred(self, bb):
        if self._pred is None:
            self._pred = [[] for _ in range(self.n)]
            for i in range(self.n):
                if self.blocks[i].get("cleanup", False):
                    continue
                for s in self.succ(i):
                    self._pred[s].append(i)
        return self._pred[bb]

    def is_cleanup(self, bb):
        return self.blocks[bb].get("cleanup", False)

    def reach(self, starts, avoid=(), avoid_edges=()):
        """Blocks reachable from `starts` (inclusive) along normal edges without entering `avoid`
        blocks or taking `avoid_edges`."""
        avoid = set(avoid)
        avoid_edges = set(avoid_edges)
        seen = set()
        dq = deque(s for s in starts if s not in avoid)
        seen.update(dq)
        while dq:
            b = dq.popleft()
            for s in self.succ(b):
                if s in seen or s in avoid or (b, s) in avoid_edges:
                    continue
                seen.add(s)
                dq.append(s)
        return seen

    def reachable(self):
        return self.reach([0])

    def return_blocks(self):
        r = self.reachable()
        return [b for b in r if self.term(b) and self.term(b)["k"] == "return"]

    def dominates(self, a, b):
        """Block a dominates block b (every normal path entry→b passes a). a==b ⇒ True."""
        if a == b:
            return True
        return b not in self.reach([0], avoid=[a])

    def edge_dominates(self, edge, b):
        """Every normal path entry→b takes edge (s,t)."""
        return b not in self.reach([0], avoid_edges=[edge])

    def dominated_region(self, a):
        r = self.reachable()
        blocked = self.reach([0], avoid=[a])
        return {b for b in r if b not in blocked}

    def edge_region(self, edge):
        """Blocks reachable only through the edge."""
        r = self.reachable()
        blocked = self.reach([0], avoid_edges=[edge])
        return {b for b in r if b not in blocked}

    def must_pass(self, start_blocks, through, to=None):
        """Every normal path from any of start_blocks to a return (or to blocks `to`) passes a
        block in `through`. start blocks themselves count if they are in `through`."""
        through = set(through)
        starts = [s for s in start_blocks if s not in through]
        seen = self.reach(starts, avoid=through)
        goals = set(to) if to is not None else set(self.return_blocks())
        return not (seen & goals)

    def in_loop(self, bb):
        """bb can reach itself."""
        return any(bb in self.reach([s]) for s in self.succ(bb))

    # ---- calls ---------------------------------------------------------------------------------
    def calls(self, *pats, reachable_only=True):
        if self._calls is None:
            self._calls = []
            r = self.reachable()
            for i in range(self.n):
                t = self.blocks[i]["term"]
                if t and t["k"] == "call":
                    self._calls.append((Call(self, i, t), i in r))
        out = []
        for c, isr in self._calls:
            if reachable_only and not isr:
                continue
            if not pats or c.matches(*pats):
                out.append(c)
        return out

    def drops(self):
        r = self.reachable()
        return [(i, self.blocks[i]["term"]) for i in sorted(r)
                if self.blocks[i]["term"] and self.blocks[i]["term"]["k"] == "drop"]

    def asserts(self):
        r = self.reachable()
        return [(i, self.blocks[i]["term"]) for i in sorted(r)
                if self.blocks[i]["term"] and self.blocks[i]["term"]["k"] == "assert"]

    def switches(self):
        r = self.reachable()
        return [(i, self.blocks[i]["term"]) for i in sorted(r)
                if self.blocks[i]["term"] and self.blocks[i]["term"]["k"] == "switch"]

    def assigns(self, reachable_only=True):
        """Yield (bb, idx, stmt) for assignment statements."""
        r = self.reachable() if reachable_only else range(self.n)
        for i in sorted(r):
            for j, s in enumerate(self.blocks[i]["stmts"]):
                if s["k"] == "assign":
                    yield i, j, s

    # ---- definitions / slices --------------------------------------------------------------------
    REF_FORWARD = (
        r"std::ops::Deref::deref", r"std::ops::DerefMut::deref_mut", r"std::ops::Index::index",
        r"std::ops::IndexMut::index_mut", r"std::option::Option::<T>::as_ref", r"std::option::Option::<T>::as_mut",
        r"std::option::Option::<T>::unwrap", r"std::option::Option::<T>::expect", r"std::vec::Vec::<T, A>::as_slice",
        r"std::vec::Vec::<T, A>::as_mut_slice", r"core::slice::<impl \[T\]>::get", r"core::slice::<impl \[T\]>::get_mut",
        r"core::slice::<impl \[T\]>::first", r"core::slice::<impl \[T\]>::last", r"core::slice::<impl \[T\]>::last_mut",
        r"std::pin::Pin::<Ptr>::new", r"std::pin::Pin::<&'a mut T>::get_mut", r"std::pin::Pin::<Ptr>::as_mut",
        r"std::pin::Pin::<Ptr>::get_mut", r"std::convert::AsRef::as_ref", r"std::convert::AsMut::as_mut",
        r"std::borrow::Borrow::borrow", r"std::borrow::BorrowMut::borrow_mut", r"std::option::Option::<T>::get_or_insert",
        r"std::option::Option::<T>::get_or_insert_with", r"std::sync::Arc::<T, A>::as_ref",
    )
    ELEM_FORWARD = ("index", "index_mut", "get", "get_mut", "first", "last", "last_mut")

    def is_ptr_local(self, l):
        ty = self.locals[l]["ty"]
        return "&" in ty or "*const" in ty or "*mut" in ty

    @staticmethod
    def place_path(p):
        out = []
        for e in p["p"]:
            if isinstance(e, dict):
                if "f" in e:
                    out.append(str(e.get("n", e["f"])))
                elif "ix" in e or "cix" in e or "sub" in e:
                    out.append("[]")
        return tuple(out)

    def defs(self):
        """local -> list of def records:
        dict(kind='assign'|'call'|'callmut'|'param'|'setdiscr', bb, path, lhs, rv | call)."""
        if self._defs is not None:
            return self._defs
        D = defaultdict(list)
        for l in range(1, self.arg_count + 1):
            D[l].append({"kind": "param", "param": l, "bb": -1, "path": ()})
        r = self.reachable()
        for i in sorted(r):
            for j, s in enumerate(self.blocks[i]["stmts"]):
                if s["k"] == "assign":
                    D[s["lhs"]["l"]].append({"kind": "assign", "bb": i, "idx": j, "lhs": s["lhs"], "rv": s["rv"],
                                             "line": s.get("line", 0), "path": self.place_path(s["lhs"]),
                                             "deref": "*" in s["lhs"]["p"]})
                elif s["k"] == "setdiscr":
                    D[s["lhs"]["l"]].append({"kind": "setdiscr", "bb": i, "idx": j, "lhs": s["lhs"], "variant": s["variant"],
                                             "path": self.place_path(s["lhs"]) + ("#discr",)})
            t = self.blocks[i]["term"]
            if t and t["k"] == "call":
                D[t["dest"]["l"]].append({"kind": "call", "bb": i, "lhs": t["dest"], "call": Call(self, i, t),
                                          "line": t.get("line", 0), "path": self.place_path(t["dest"])})
        self._defs = D
        refs = self.ref_origins()
        # stores through pointers: `(*_a).f = v` also defines every location _a may point to
        for l in list(D):
            for d in list(D[l]):
                if d["kind"] == "assign" and d.get("deref"):
                    for (tl, tp) in refs.get(l, ()):
                        D[tl].append(dict(d, path=tp + d["path"], via_ref=l))
        # calls receiving `&mut` to a location may write it
        for i in sorted(r):
            t = self.blocks[i]["term"]
            if t and t["k"] == "call":
                c = Call(self, i, t)
                if c.matches(*self.REF_FORWARD):
                    continue
                for a in t["args"]:
                    l = operand_local(a)
                    if l is None:
                        continue
                    ty = self.locals[l]["ty"]
                    if "&mut" in ty or "Pin<&mut" in ty:
                        for (tl, tp) in refs.get(l, ()):
                            D[tl].append({"kind": "callmut", "bb": i, "lhs": None, "call": c,
                                          "line": t.get("line", 0), "path": tp})
        return D

    def ref_origins(self):
        """pointer local -> list of (local, path) locations it may point to (transitively through
        copies, reborrows and reference-forwarding calls such as deref/index/as_mut)."""
        if getattr(self, "_refs", None) is not None:
            return self._refs
        direct = defaultdict(list)
        for i, j, s in self.assigns():
            rv = s["rv"]
            l = s["lhs"]["l"]
            if s["lhs"]["p"] or not self.is_ptr_local(l):
                continue
            if rv["k"] in ("ref", "rawptr"):
                direct[l].append(("place", rv["place"]))
            elif rv["k"] in ("use", "cast") and operand_local(rv["op"]) is not None:
                pl = rv["op"]["place"]
                if not pl["p"]:
                    direct[l].append(("alias", pl["l"], ()))
                elif "&" in self.locals[l]["ty"] or "*" in self.locals[l]["ty"]:
                    # copying a pointer out of a place: `_5 = _1._ref__now`, `_7 = (_6 as Some).0`
                    direct[l].append(("loadptr", pl))
            elif rv["k"] == "copyderef":
                direct[l].append(("loadptr", rv["place"]))
        for c in self.calls():
            if c.matches(*self.REF_FORWARD) and c.args and not c.dest["p"] and self.is_ptr_local(c.dest["l"]):
                al = operand_local(c.args[0])
                if al is not None and not c.args[0]["place"]["p"]:
                    extra = ("[]",) if meth_name(c.path) in self.ELEM_FORWARD or meth_name(c.generic) in self.ELEM_FORWARD else ()
                    direct[c.dest["l"]].append(("alias", al, extra))
        out = {}

        def resolve(l, seen):
            if l in seen:
                return []
            seen = seen | {l}
            res = []
            for ent in direct.get(l, ()):
                if ent[0] == "alias":
                    tg = resolve(ent[1], seen)
                    if tg:
                        res.extend((tl, tp + ent[2]) for tl, tp in tg)
                    else:
                        # alias of a non-pointer local (e.g. by-value deref target): the local itself
                        res.append((ent[1], ent[2]))
                elif ent[0] == "place":
                    pl = ent[1]
                    path = self.place_path(pl)
                    if "*" in pl["p"]:
                        tg = resolve(pl["l"], seen)
                        if tg:
                            res.extend((tl, tp + path) for tl, tp in tg)
                        else:
                            res.append((pl["l"], path))
                    else:
                        res.append((pl["l"], path))
                elif ent[0] == "loadptr":
                    # pointer stored inside a place: find what was stored there (aggregate fields / params)
                    pl = ent[1]
                    path = self.place_path(pl) + ("*",)
                    tg = resolve(pl["l"], seen) if "*" in pl["p"] else []
                    if tg:
                        res.extend((tl, tp + path) for tl, tp in tg)
                    else:
                        res.append((pl["l"], path))
            # dedupe
            dd = []
            for x in res:
                if x not in dd:
                    dd.append(x)
            return dd

        for l in list(direct):
            out[l] = resolve(l, frozenset())
        self._refs = out
        return out

    @staticmethod
    def _compat(a, b):
        n = min(len(a), len(b))
        return a[:n] == b[:n]

    @staticmethod
    def rv_operands(rv):
        op = rv.get("op")
        return [op if isinstance(op, dict) else None, rv.get("place"), rv.get("ops", []), rv.get("a"), rv.get("b")]

    def slice_rv(self, bb, stmt, **kw):
        """Slice of the right-hand side of an assignment statement located in block bb."""
        return self.slice(self.rv_operands(stmt["rv"]), at=bb, **kw)

    def slice_args(self, call, idxs=None, **kw):
        args = call.args if idxs is None else [call.args[i] for i in idxs]
        return self.slice(list(args), at=call.bb, **kw)

    def slice_switch(self, sb, **kw):
        return self.slice(self.term(sb)["op"], at=sb, **kw)

    def reach_after(self, bb):
        """Blocks reachable strictly after leaving bb."""
        c = getattr(self, "_ra", None)
        if c is None:
            c = self._ra = {}
        if bb not in c:
            c[bb] = self.reach(self.succ(bb))
        return c[bb]

    def restricted(self, blocks):
        """Context manager: while active, only definitions located in `blocks` are considered by def_reaches (and so
        by slices, linear forms, reaching-definition walks). Used to evaluate values on a CFG specialised to one enum
        variant / one value of a flag (common.variant_reach / bool_reach)."""
        body = self

        class _R:
            def __enter__(self_inner):
                self_inner.old = getattr(body, "_within", None)
                body._within = set(blocks) if blocks is not None else None

            def __exit__(self_inner, *a):
                body._within = self_inner.old
        return _R()

    def def_reaches(self, d, use_bb):
        """Def record d may influence a use located in block use_bb (CFG reachability)."""
        w = getattr(self, "_within", None)
        if w is not None and d.get("bb", -1) >= 0 and d["bb"] not in w:
            return False
        if use_bb is None:
            return True
        db = d.get("bb", -1)
        if db < 0:
            return True
        if db == use_bb:
            if d["kind"] in ("call", "callmut"):
                return use_bb in self.reach_after(db)
            return True
        return use_bb in self.reach_after(db)

    def slice(self, start, through_calls=True, stop_at_calls=None, max_nodes=20000, at=None):
        """Backward, flow-insensitive, field-sensitive data slice.
        start: operand | place | local index | list of those.
        Atoms: ('param', i), ('const', v), ('call', path, bb), ('field', adt, name), ('fn', path),
               ('agg', adt, variant), ('binop', op), ('unop', op), ('discr',), ('upvar', name), ('closure', def)"""
        D = self.defs()
        refs = self.ref_origins()
        sl = Slice(self)
        work = []

        cur_at = [at]

        def add_loc(l, path):
            work.append((l, tuple(path), cur_at[0]))

        def add_place(p, extra=(), discr=False):
            for (adt, v, n) in place_fields(p):
                sl.atoms.add(("field", adt, n))
                if adt == "closure":
                    sl.atoms.add(("upvar", n))
            for e in p["p"]:
                if isinstance(e, dict) and "ix" in e:
                    add_loc(e["ix"], ())
            path = self.place_path(p) + tuple(extra)
            if discr:
                path = path + ("#discr",)
            if "*" in p["p"]:
                # reading through a pointer: convention (pointer local, path) = pointee contents at
                # path; plus every known location the pointer may point to
                add_loc(p["l"], path)
                for (tl, tp) in refs.get(p["l"], ()):
                    add_loc(tl, tp + path)
            else:
                add_loc(p["l"], path)

        def add_op(o, extra=()):
            if not isinstance(o, dict):
                return
            if o["k"] in ("copy", "move"):
                add_place(o["place"], extra)
            elif o["k"] == "const":
                if "fn" in o:
                    sl.atoms.add(("fn", o["fn"]))
                elif "closure" in o:
                    sl.atoms.add(("closure", o["closure"]))
                elif "v" in o:
                    sl.atoms.add(("const", o["v"] if not isinstance(o["v"], (list, dict)) else str(o["v"])))
                else:
                    sl.atoms.add(("const", "<%s>" % o["ty"]))

        def add_any(x):
            if isinstance(x, int):
                add_loc(x, ())
            elif isinstance(x, (list, tuple)):
                for y in x:
                    add_any(y)
            elif isinstance(x, dict):
                if "k" in x:
                    add_op(x)
                elif "l" in x:
                    add_place(x)

        add_any(start)
        n = 0
        while work and n < max_nodes:
            l, rp, ub = work.pop()
            if (l, rp, ub) in sl.visited:
                continue
            sl.visited.add((l, rp, ub))
            sl.locals.add(l)
            n += 1
            for d in D.get(l, ()):
                lp = d["path"]
                if not self._compat(lp, rp):
                    continue
                if not self.def_reaches(d, ub):
                    continue
                cur_at[0] = d.get("bb", -1) if d.get("bb", -1) >= 0 else None
                rem = rp[len(lp):] if len(rp) >= len(lp) else ()
                k = d["kind"]
                if k == "param":
                    sl.atoms.add(("param", d["param"]))
                    sl.param_paths.add((d["param"], rp))
                elif k == "assign":
                    rv = d["rv"]
                    rk = rv["k"]
                    sl.defs.append(d)
                    if rk in ("use", "cast"):
                        add_op(rv["op"], rem)
                        if rk == "cast":
                            sl.atoms.add(("cast", rv["ty"]))
                    elif rk == "repeat":
                        add_op(rv["op"])
                    elif rk == "un":
                        add_op(rv["a"])
                        sl.atoms.add(("unop", rv["op"]))
                    elif rk in ("ref", "rawptr", "copyderef"):
                        add_place(rv["place"], rem)
                    elif rk == "discr":
                        add_place(rv["place"], (), discr=True)
                        sl.atoms.add(("discr",))
                    elif rk == "bin":
                        sl.atoms.add(("binop", rv["op"]))
                        add_op(rv["a"])
                        add_op(rv["b"])
                    elif rk == "agg":
                        if rv["ak"] == "adt":
                            sl.atoms.add(("agg", rv["adt"], rv["variant"]))
                        elif rv["ak"] == "closure":
                            sl.atoms.add(("closure", rv["def"]))
                        names = rv.get("fields")
                        if rv["ak"] == "tuple":
                            names = [str(i) for i in range(len(rv["ops"]))]
                        if rem and names and rem[0] in names and rem[0] != "#discr":
                            add_op(rv["ops"][names.index(rem[0])], rem[1:])
                        elif rem and rem[0] == "#discr":
                            pass
                        else:
                            for o in rv["ops"]:
                                add_op(o)
                elif k in ("call", "callmut"):
                    c = d["call"]
                    sl.atoms.add(("call", c.path, c.bb))
                    if c not in sl.calls:
                        sl.calls.append(c)
                    stop = stop_at_calls and c.matches(*stop_at_calls)
                    if through_calls and not stop:
                        for a in c.args:
                            add_op(a)
                        fp = c.t.get("func_place")
                        if fp:
                            add_place(fp)
                elif k == "setdiscr":
                    sl.atoms.add(("setdiscr", d["variant"]))
        return sl

    # ---- pretty printer ------------------------------------------------------------------------
    def pretty(self):
        out = ["fn %s  [%s:%d] args=%d vis=%s" % (self.name, self.file, self.line, self.arg_count, self.vis)]
        for i, l in enumerate(self.locals):
            extra = ""
            if l.get("guards"):
                extra += " GUARD" + str(l["guards"])
            if l.get("drops"):
                extra += " DROP" + str([d[1] for d in l["drops"]])
            out.append("  let _%d: %s%s%s" % (i, l["ty"], "  // " + l["name"] if l.get("name") else "", extra))
        r = self.reachable()
        for i, b in enumerate(self.blocks):
            out.append("  bb%d%s%s:" % (i, " (cleanup)" if b.get("cleanup", False) else "", "" if i in r or b.get("cleanup", False) else " (unreachable)"))
            for s in b["stmts"]:
                if s["k"] == "assign":
                    out.append("    %s = %s   // L%d" % (place_str(s["lhs"]), rv_str(s["rv"]), s.get("line", 0)))
                else:
                    out.append("    discriminant(%s) = %s" % (place_str(s["lhs"]), s["variant"]))
            t = b["term"]
            if t is None:
                continue
            k = t["k"]
            if k == "call":
                c = t["callee"]
                nm = c["path"] if c["path"] == c.get("generic") else "%s [%s]" % (c["path"], c.get("generic"))
                out.append("    %s = %s(%s) -> %s unwind %s   // L%d %s" % (
                    place_str(t["dest"]), nm, ", ".join(op_str(a) for a in t["args"]),
                    "bb%s" % t["t"] if t["t"] is not None else "!", t["unwind"], t["line"], c.get("rk")))
            elif k == "switch":
                out.append("    switch %s -> %s otherwise bb%d" % (op_str(t["op"]), ", ".join("%s:bb%d" % (v, bb) for v, bb in t["targets"]), t["otherwise"]))
            elif k == "drop":
                out.append("    drop(%s) -> bb%d   // %s" % (place_str(t["place"]), t["t"], t["tyf"]["ty"]))
            elif k == "assert":
                out.append("    assert(%s == %s, %s %s) -> bb%d  // L%d" % (op_str(t["cond"]), t["expected"], t["msg"], [op_str(o) for o in t["ops"]], t["t"], t["line"]))
            elif k == "goto":
                out.append("    goto bb%d" % t["t"])
            else:
                out.append("    %s" % k)
        return "\n".join(out)


class Slice:
    def __init__(self, body):
        self.body = body
        self.locals = set()
        self.visited = set()
        self.param_paths = set()
        self.atoms = set()
        self.calls = []
        self.defs = []

    def has_call(self, *pats):
        return any(c.matches(*pats) for c in self.calls)

    def calls_matching(self, *pats):
        return [c for c in self.calls if c.matches(*pats)]

    def has_field(self, name, adt=None):
        return any(a[0] == "field" and a[2] == name and (adt is None or a[1] == adt) for a in self.atoms)

    def has_param(self, i=None):
        return any(a[0] == "param" and (i is None or a[1] == i) for a in self.atoms)

    def params(self):
        return {a[1] for a in self.atoms if a[0] == "param"}

    def consts(self):
        return {a[1] for a in self.atoms if a[0] == "const"}

    def fields(self):
        return {(a[1], a[2]) for a in self.atoms if a[0] == "field"}


def canonicalise_renames(d):
    """A function of the pinned tree that is missing today, while exactly one unknown function with the same owner
    and the same parameter/return types exists, has been renamed: rewrite the new name back to the recorded one
    (definitions, closures below it, callee paths). Returns the rename map {new: old}."""
    import os
    p = os.path.join(os.path.dirname(os.path.abspath(__file__)), "anchor_sigs.json")
    if not os.path.isfile(p):
        return {}
    with open(p) as fh:
        sigs = json.load(fh)
    cur = {f["def"]: f for f in d.get("fns", []) if f.get("has_body")}
    missing = [n for n in sigs if n not in cur]
    if not missing:
        return {}
    unknown = [n for n in cur if n not in sigs]

    def key(f):
        return (f.get("impl_self_head") or f["def"].rsplit("::", 1)[0], f.get("impl_trait"), tuple(i["ty"] for i in f["inputs"]), f["ret"]["ty"])
    ren = {}
    for old in missing:
        s = sigs[old]
        k = (s["owner"], s.get("trait"), tuple(s["inputs"]), s["ret"])
        cands = [n for n in unknown if key(cur[n]) == k and n not in ren]
        old_cands = [o for o in missing if (sigs[o]["owner"], sigs[o].get("trait"), tuple(sigs[o]["inputs"]), sigs[o]["ret"]) == k]
        if len(cands) == 1 and len(old_cands) == 1:
            ren[cands[0]] = old
            continue
        # method <-> free/associated function with the same name and the same parameter/return types (the owner changed)
        if not s.get("trait"):
            last = old.rsplit("::", 1)[-1]
            k2 = (last, tuple(s["inputs"]), s["ret"])
            cands2 = [n for n in unknown if n not in ren and not cur[n].get("impl_trait") and
                      (n.rsplit("::", 1)[-1], tuple(i["ty"] for i in cur[n]["inputs"]), cur[n]["ret"]["ty"]) == k2]
            old2 = [o for o in missing if not sigs[o].get("trait") and (o.rsplit("::", 1)[-1], tuple(sigs[o]["inputs"]), sigs[o]["ret"]) == k2]
            if len(cands2) == 1 and len(old2) == 1:
                ren[cands2[0]] = old
    if not ren:
        return {}

    def fix(name):
        if not isinstance(name, str):
            return name
        if name in ren:
            return ren[name]
        for new, old in ren.items():
            if name.startswith(new + "::{"):
                return old + name[len(new):]
        return name
    for f in d.get("fns", []):
        f["def"] = fix(f["def"])
    for b in d.get("bodies", []):
        b["def"] = fix(b["def"])
        for k in ("parent", "root_parent"):
            if k in b:
                b[k] = fix(b[k])
        for l in b.get("locals", []):
            if "closure" in l:
                l["closure"] = fix(l["closure"])
        for blk in b.get("blocks", []):
            for st in blk.get("stmts", []):
                rv = st.get("rv") or {}
                if rv.get("k") == "agg" and rv.get("ak") == "closure":
                    rv["def"] = fix(rv["def"])
                for o in [rv.get("op")] + list(rv.get("ops", [])):
                    if isinstance(o, dict) and o.get("k") == "const":
                        for kk in ("fn", "closure"):
                            if kk in o:
                                o[kk] = fix(o[kk])
            t = blk.get("term")
            if t and t.get("k") in ("call", "tailcall"):
                c = t["callee"]
                for kk in ("path", "generic", "calls_closure", "self_closure"):
                    if kk in c:
                        c[kk] = fix(c[kk])
                for o in t.get("args", []):
                    if isinstance(o, dict) and o.get("k") == "const":
                        for kk in ("fn", "closure"):
                            if kk in o:
                                o[kk] = fix(o[kk])
            if t and t.get("k") == "drop":
                t["tyf"]["drops"] = [[a, fix(bb)] for a, bb in t["tyf"].get("drops", [])]
    return ren


def _shift(x, lmap, off_b):
    """Deep copy of a MIR JSON fragment of the callee with locals (through lmap) and block numbers renumbered."""
    if isinstance(x, list):
        return [_shift(v, lmap, off_b) for v in x]
    if not isinstance(x, dict):
        return x
    out = {}
    is_place = "l" in x and "p" in x and isinstance(x.get("l"), int)
    is_term = x.get("k") in ("goto", "switch", "drop", "call", "assert") and ("t" in x or "targets" in x or "otherwise" in x)
    for k, v in x.items():
        if is_place and k == "l":
            out[k] = lmap(v)
        elif k == "ix" and isinstance(v, int):
            out[k] = lmap(v)
        elif is_term and k in ("t", "unwind", "otherwise") and isinstance(v, int):
            out[k] = v + off_b
        elif is_term and k == "targets":
            out[k] = [[a, bb + off_b] for a, bb in v]
        else:
            out[k] = _shift(v, lmap, off_b)
    return out


def _reborrow_source(b, blk_index, arg):
    """If `arg` is `move _x` where _x's only definition (in the calling block) is a plain reborrow `&[mut] (*_y)` of a
    reference local _y, return y: the callee's parameter can then simply *be* _y (no extra level of indirection)."""
    if not isinstance(arg, dict) or arg.get("k") not in ("move", "copy") or arg["place"]["p"]:
        return None
    x = arg["place"]["l"]
    defs = []
    for bi, blk in enumerate(b["blocks"]):
        for st in blk.get("stmts", []):
            if st.get("k") == "assign" and st["lhs"]["l"] == x and not st["lhs"]["p"]:
                defs.append((bi, st))
        t = blk.get("term") or {}
        if t.get("k") == "call" and t["dest"]["l"] == x:
            defs.append((bi, None))
    if len(defs) != 1 or defs[0][1] is None or defs[0][0] != blk_index:
        return None
    rv = defs[0][1]["rv"]
    if rv.get("k") == "ref" and rv["place"]["p"] == ["*"] and b["locals"][rv["place"]["l"]]["ty"].startswith("&"):
        return rv["place"]["l"]
    if rv.get("k") == "use" and rv["op"].get("k") in ("copy", "move") and not rv["op"]["place"]["p"] and b["locals"][rv["op"]["place"]["l"]]["ty"].startswith("&") \
            and b["locals"][rv["op"]["place"]["l"]]["ty"] == b["locals"][x]["ty"] and not b["locals"][x]["ty"].startswith("&mut"):
        return rv["op"]["place"]["l"]
    return None


def inline_new_helpers(d, max_blocks=250, rounds=4):
    """Functions that do not exist in the pinned tree (rules/anchor_sigs.json) and are private, non-trait, non-recursive
    and small are *helpers extracted by a later edit*. Their bodies are inlined at every direct call site (locals and
    blocks renumbered, parameters assigned from the arguments, `return` replaced by a jump to the call's continuation),
    so that every rule sees the shape the code had before the extraction. On the pinned tree nothing is inlined.
    Returns the list of inlined helper names."""
    import os
    import copy
    p = os.path.join(os.path.dirname(os.path.abspath(__file__)), "anchor_sigs.json")
    if not os.path.isfile(p):
        return []
    with open(p) as fh:
        sigs = json.load(fh)
    bodies = {b["def"]: b for b in d.get("bodies", [])}

    def is_helper(name):
        b = bodies.get(name)
        if b is None or name in sigs or b.get("kind") not in ("Fn", "AssocFn") or b.get("api"):
            return False
        tr = (b.get("impl") or {}).get("trait")
        if len(b.get("blocks", [])) > max_blocks:
            return False
        if tr and not tr.startswith(("std::convert::From", "std::convert::Into", "std::default::Default")):
            return False        # conversions of a new private type are helpers; other trait impls are dispatch targets
        if b.get("file") in ("src/in_memory.rs",):
            return False
        for blk in b["blocks"]:
            t = blk.get("term") or {}
            if t.get("k") in ("call", "tailcall") and (t["callee"].get("path") == name or t["callee"].get("generic") == name):
                return False
            if t.get("k") == "tailcall":
                return False
        return True
    helpers = {n for n in bodies if is_helper(n)}
    if not helpers:
        return []
    done = set()
    first_caller = {}
    for _ in range(rounds):
        changed = False
        for b in d["bodies"]:
            i = 0
            while i < len(b["blocks"]):
                t = b["blocks"][i].get("term")
                if not t or t.get("k") != "call" or t.get("t") is None or not t["callee"].get("local"):
                    i += 1
                    continue
                cn = t["callee"].get("path") if t["callee"].get("path") in helpers else t["callee"].get("generic")
                if cn not in helpers or cn == b["def"] or len(b["blocks"]) > 600:
                    i += 1
                    continue
                h = bodies[cn]
                if len(t["args"]) != h["arg_count"]:
                    i += 1
                    continue
                off_l, off_b = len(b["locals"]), len(b["blocks"])
                for l in h["locals"]:
                    b["locals"].append(copy.deepcopy(l))
                alias = {}
                for k, a in enumerate(t["args"]):
                    y = _reborrow_source(b, i, a)
                    if y is not None and h["locals"][1 + k]["ty"].startswith("&"):
                        alias[1 + k] = y

                def lmap(v, alias=alias, off_l=off_l):
                    return alias.get(v, v + off_l)
                for blk in h["blocks"]:
                    nb = _shift(blk, lmap, off_b)
                    tt = nb.get("term")
                    if tt and tt.get("k") == "return":
                        # store the callee's return slot into the destination, then continue after the call
                        nb["stmts"].append({"k": "assign", "lhs": copy.deepcopy(t["dest"]),
                                            "rv": {"k": "use", "op": {"k": "move", "place": {"l": off_l, "p": [], "ty": h["locals"][0]["ty"]}}},
                                            "line": tt.get("line", t.get("line", 0)), "inlined": cn})
                        nb["term"] = {"k": "goto", "t": t["t"], "line": tt.get("line", 0)}
                    elif tt and tt.get("k") in ("resume", "terminate"):
                        pass
                    b["blocks"].append(nb)
                # parameters := arguments
                for k, a in enumerate(t["args"]):
                    if (1 + k) in alias:
                        continue
                    b["blocks"][i]["stmts"].append({"k": "assign", "lhs": {"l": off_l + 1 + k, "p": [], "ty": h["locals"][1 + k]["ty"]},
                                                    "rv": {"k": "use", "op": copy.deepcopy(a)}, "line": t.get("line", 0), "inlined": cn})
                b["blocks"][i]["term"] = {"k": "goto", "t": off_b, "line": t.get("line", 0), "inlined_call": cn}
                done.add(cn)
                first_caller.setdefault(cn, b["def"] if b.get("kind") != "Closure" else (b.get("root_parent") or b["def"]))
                changed = True
                i += 1
        if not changed:
            break
    # drop helper bodies that are no longer referenced (closures of a removed helper keep their parent name)
    still = set()
    for b in d["bodies"]:
        if b["def"] in helpers:
            continue
        for blk in b["blocks"]:
            t = blk.get("term") or {}
            if t.get("k") in ("call", "tailcall"):
                for kk in ("path", "generic"):
                    if t["callee"].get(kk) in helpers:
                        still.add(t["callee"][kk])
            for st in blk.get("stmts", []):
                rv = st.get("rv") or {}
                for o in [rv.get("op")] + list(rv.get("ops", []) or []):
                    if isinstance(o, dict) and o.get("k") == "const" and o.get("fn") in helpers:
                        still.add(o["fn"])
            for o in (t.get("args") or []):
                if isinstance(o, dict) and o.get("k") == "const" and o.get("fn") in helpers:
                    still.add(o["fn"])
    gone = {n for n in done if n not in still}
    if gone:
        d["bodies"] = [b for b in d["bodies"] if b["def"] not in gone]
        # closures defined inside an inlined helper now belong to nobody by name: re-parent them to the (first) caller
        for b in d["bodies"]:
            for kk in ("parent", "root_parent"):
                if b.get(kk) in gone:
                    b[kk] = first_caller.get(b[kk], b[kk])
    return sorted(done)


def desugar_iter_closures(d):
    """`iter.for_each(|x| body)` and `iter.try_for_each(|x| body)` with a closure built in the calling function are rewritten
    into the loop they stand for (`while let Some(x) = iter.next() { body }`, with `?` on the body's result for the try
    form): the closure's blocks are copied into the caller, its captured variables replaced by the captured places, its
    parameter assigned from `next()`. Every rule then sees a loop whichever way it is spelled. The pinned tree has no such
    call, so nothing is rewritten there. Returns the names of the closures that were expanded."""
    import copy
    bodies = {b["def"]: b for b in d.get("bodies", [])}
    done = []
    for b in d["bodies"]:
        i = 0
        while i < len(b["blocks"]):
            t = b["blocks"][i].get("term")
            i += 1
            if not t or t.get("k") != "call" or t.get("t") is None or len(b["blocks"]) > 900:
                continue
            g = t["callee"].get("generic") or ""
            # kind -> (index of the closure argument, number of arguments)
            kind = {"std::iter::Iterator::for_each": ("for_each", 1, 2), "std::iter::Iterator::try_for_each": ("try_for_each", 1, 2),
                    "std::option::Option::<T>::filter": ("filter", 1, 2), "std::option::Option::<T>::map": ("map", 1, 2),
                    "std::option::Option::<T>::map_or": ("map_or", 2, 3),
                    "std::option::Option::<T>::unwrap_or_else": ("unwrap_or_else", 1, 2),
                    "std::ops::Fn::call": ("call", 0, 2), "std::ops::FnMut::call_mut": ("call", 0, 2), "std::ops::FnOnce::call_once": ("call", 0, 2)}.get(g)
            if kind is None or len(t.get("args", [])) != kind[2]:
                continue
            kind, ci_arg, _n = kind
            if kind == "call" and not t["callee"].get("calls_closure"):
                continue
            is_filter = kind == "filter"
            is_try = kind == "try_for_each"
            ca = t["args"][ci_arg]
            if ca.get("k") not in ("move", "copy") or ca["place"]["p"]:
                continue
            cl = ca["place"]["l"]

            def sole_def(l_):
                ds_ = [st for blk in b["blocks"] for st in blk.get("stmts", []) if st.get("k") == "assign" and st["lhs"]["l"] == l_ and not st["lhs"]["p"]]
                return ds_[0] if len(ds_) == 1 else None
            if kind == "call":
                # `f(x)` on a closure bound to a local: the callee operand is `&f` / `&mut f` (Fn / FnMut) or `f` itself (FnOnce)
                for _ in range(3):
                    d0 = sole_def(cl)
                    if d0 is not None and d0["rv"].get("k") == "ref" and not d0["rv"]["place"]["p"]:
                        cl = d0["rv"]["place"]["l"]
                    elif d0 is not None and d0["rv"].get("k") == "use" and d0["rv"]["op"].get("k") in ("move", "copy") and not d0["rv"]["op"]["place"]["p"]:
                        cl = d0["rv"]["op"]["place"]["l"]
                    else:
                        break
            aggs = [st for blk in b["blocks"] for st in blk.get("stmts", []) if st.get("k") == "assign" and st["lhs"]["l"] == cl and not st["lhs"]["p"]]
            if len(aggs) != 1 or aggs[0]["rv"].get("k") != "agg" or aggs[0]["rv"].get("ak") != "closure" or aggs[0]["rv"].get("def") not in bodies:
                continue
            h = bodies[aggs[0]["rv"]["def"]]
            if (kind not in ("call", "unwrap_or_else") and h.get("arg_count") != 2) or (kind == "unwrap_or_else" and h.get("arg_count") != 1) or len(h["blocks"]) > 250:
                continue
            if kind == "call" and h["def"] == b["def"]:
                continue
            ups = aggs[0]["rv"]["ops"]
            by_ref_env = h["locals"][1]["ty"].startswith("&")
            line = t.get("line", 0)
            ci = i - 1
            off_l, off_b = len(b["locals"]), len(b["blocks"])
            for l in h["locals"]:
                b["locals"].append(copy.deepcopy(l))

            def new_local(ty, name=None):
                b["locals"].append({"ty": ty, "name": name} if name else {"ty": ty})
                return len(b["locals"]) - 1
            # captured variables: the place each upvar stands for
            up_place = {}
            up_deref = {}      # upvar k is a reference made just for the capture (`_r = &mut P`): `*upvar` is the place P itself
            for k, o in enumerate(ups):
                if o.get("k") in ("move", "copy"):
                    up_place[k] = copy.deepcopy(o["place"])
                    if not o["place"]["p"]:
                        rd = [st for blk in b["blocks"] for st in blk.get("stmts", []) if st.get("k") == "assign" and st["lhs"]["l"] == o["place"]["l"] and not st["lhs"]["p"]]
                        if len(rd) == 1 and rd[0]["rv"].get("k") == "ref":
                            up_deref[k] = copy.deepcopy(rd[0]["rv"]["place"])
                else:
                    nl = new_local(o.get("ty", "?"))
                    b["blocks"][ci]["stmts"].append({"k": "assign", "lhs": {"l": nl, "p": [], "ty": o.get("ty", "?")}, "rv": {"k": "use", "op": copy.deepcopy(o)}, "line": line})
                    up_place[k] = {"l": nl, "p": [], "ty": o.get("ty", "?")}

            def lmap(v, off_l=off_l):
                return v + off_l

            def fix_places(x):
                """Replace `(*env).k ...` by the captured place (on the already shifted fragment)."""
                if isinstance(x, list):
                    return [fix_places(v) for v in x]
                if not isinstance(x, dict):
                    return x
                if "l" in x and "p" in x and isinstance(x.get("l"), int) and x["l"] == off_l + 1:
                    pr = x["p"]
                    k0 = 1 if (by_ref_env and pr and pr[0] == "*") else 0
                    if len(pr) > k0 and isinstance(pr[k0], dict) and isinstance(pr[k0].get("f"), int) and pr[k0]["f"] in up_place and (k0 == 1 or not by_ref_env):
                        base = up_place[pr[k0]["f"]]
                        rest = pr[k0 + 1:]
                        if rest and rest[0] == "*" and pr[k0]["f"] in up_deref:
                            base, rest = up_deref[pr[k0]["f"]], rest[1:]
                        out = dict(x)
                        out["l"] = base["l"]
                        out["p"] = list(base["p"]) + [fix_places(e) for e in rest]
                        return out
                return {k: fix_places(v) for k, v in x.items()}
            item_ty = h["locals"][2]["ty"] if len(h["locals"]) > 2 else "?"
            ret_ty = h["locals"][0]["ty"]
            it = t["args"][0]
            if kind == "call":
                # `f(a, b)`  ==>  the closure's blocks in place, its parameters assigned from the argument tuple
                n_blocks = len(h["blocks"])
                PRE, RET = off_b + n_blocks, off_b + n_blocks + 1
                for hb, blk in enumerate(h["blocks"]):
                    nb = fix_places(_shift(blk, lmap, off_b))
                    tt = nb.get("term")
                    if tt and tt.get("k") == "return":
                        nb["term"] = {"k": "goto", "t": RET, "line": tt.get("line", line)}
                    b["blocks"].append(nb)
                tup = t["args"][1]
                n_par = h.get("arg_count", 1) - 1
                pre = []
                tdef = sole_def(tup["place"]["l"]) if tup.get("k") in ("move", "copy") and not tup["place"]["p"] else None
                for k_ in range(n_par):
                    pty = h["locals"][2 + k_]["ty"]
                    if tdef is not None and tdef["rv"].get("k") == "agg" and tdef["rv"].get("ak") == "tuple" and len(tdef["rv"]["ops"]) == n_par:
                        src = copy.deepcopy(tdef["rv"]["ops"][k_])
                    elif tup.get("k") in ("move", "copy"):
                        src = {"k": "move", "place": {"l": tup["place"]["l"], "p": list(tup["place"]["p"]) + [{"f": k_, "n": str(k_), "fty": pty}], "ty": pty}}
                    else:
                        src = copy.deepcopy(tup)
                    pre.append({"k": "assign", "lhs": {"l": off_l + 2 + k_, "p": [], "ty": pty}, "rv": {"k": "use", "op": src}, "line": line})
                b["blocks"].append({"stmts": pre, "term": {"k": "goto", "t": off_b, "line": line}})   # PRE
                b["blocks"].append({"stmts": [{"k": "assign", "lhs": copy.deepcopy(t["dest"]), "rv": {"k": "use", "op": {"k": "move", "place": {"l": off_l, "p": [], "ty": ret_ty}}}, "line": line}],
                                    "term": {"k": "goto", "t": t["t"], "line": line}})   # RET
                b["blocks"][ci]["term"] = {"k": "goto", "t": PRE, "line": line, "desugared": g}
                done.append(h["def"])
                continue
            if kind == "unwrap_or_else":
                # `opt.unwrap_or_else(|| e)`  ==>  match opt { Some(v) => v, None => e }
                if it.get("k") not in ("move", "copy"):
                    del b["locals"][off_l:]
                    continue
                n_blocks = len(h["blocks"])
                SW0, SOME, RET, UNREACH = [off_b + n_blocks + k for k in range(4)]
                for hb, blk in enumerate(h["blocks"]):
                    nb = fix_places(_shift(blk, lmap, off_b))
                    tt = nb.get("term")
                    if tt and tt.get("k") == "return":
                        nb["term"] = {"k": "goto", "t": RET, "line": tt.get("line", line)}
                    b["blocks"].append(nb)
                opt_pl = copy.deepcopy(it["place"])
                disc_l = new_local("isize")
                b["blocks"].append({"stmts": [{"k": "assign", "lhs": {"l": disc_l, "p": [], "ty": "isize"}, "rv": {"k": "discr", "place": copy.deepcopy(opt_pl)}, "line": line}],
                                    "term": {"k": "switch", "op": {"k": "move", "place": {"l": disc_l, "p": [], "ty": "isize"}}, "targets": [[0, off_b], [1, SOME]], "otherwise": UNREACH, "line": line}})   # SW0
                some_pl = {"l": opt_pl["l"], "p": list(opt_pl["p"]) + [{"dc": "Some", "v": 1}, {"f": 0, "n": "0", "adt": "std::option::Option", "v": "Some", "fty": ret_ty}], "ty": ret_ty}
                b["blocks"].append({"stmts": [{"k": "assign", "lhs": copy.deepcopy(t["dest"]), "rv": {"k": "use", "op": {"k": "move", "place": some_pl}}, "line": line}],
                                    "term": {"k": "goto", "t": t["t"], "line": line}})   # SOME
                b["blocks"].append({"stmts": [{"k": "assign", "lhs": copy.deepcopy(t["dest"]), "rv": {"k": "use", "op": {"k": "move", "place": {"l": off_l, "p": [], "ty": ret_ty}}}, "line": line}],
                                    "term": {"k": "goto", "t": t["t"], "line": line}})   # RET
                b["blocks"].append({"stmts": [], "term": {"k": "unreachable", "line": line}})   # UNREACH
                b["blocks"][ci]["term"] = {"k": "goto", "t": SW0, "line": line, "desugared": g}
                done.append(h["def"])
                continue
            if kind in ("map", "map_or"):
                # `opt.map(|v| e)` ==> match opt { Some(v) => Some(e), None => None };  `opt.map_or(d, |v| e)` ==> match opt { Some(v) => e, None => d }
                if it.get("k") not in ("move", "copy"):
                    del b["locals"][off_l:]
                    continue
                n_blocks = len(h["blocks"])
                SW0, PRE, RET, NONE, UNREACH = [off_b + n_blocks + k for k in range(5)]
                for hb, blk in enumerate(h["blocks"]):
                    nb = fix_places(_shift(blk, lmap, off_b))
                    tt = nb.get("term")
                    if tt and tt.get("k") == "return":
                        nb["term"] = {"k": "goto", "t": RET, "line": tt.get("line", line)}
                    b["blocks"].append(nb)
                opt_pl = copy.deepcopy(it["place"])
                disc_l = new_local("isize")
                b["blocks"].append({"stmts": [{"k": "assign", "lhs": {"l": disc_l, "p": [], "ty": "isize"}, "rv": {"k": "discr", "place": copy.deepcopy(opt_pl)}, "line": line}],
                                    "term": {"k": "switch", "op": {"k": "move", "place": {"l": disc_l, "p": [], "ty": "isize"}}, "targets": [[0, NONE], [1, PRE]], "otherwise": UNREACH, "line": line}})   # SW0
                some_pl = {"l": opt_pl["l"], "p": list(opt_pl["p"]) + [{"dc": "Some", "v": 1}, {"f": 0, "n": "0", "adt": "std::option::Option", "v": "Some", "fty": item_ty}], "ty": item_ty}
                b["blocks"].append({"stmts": [{"k": "assign", "lhs": {"l": off_l + 2, "p": [], "ty": item_ty}, "rv": {"k": "use", "op": {"k": "move", "place": some_pl}}, "line": line}],
                                    "term": {"k": "goto", "t": off_b, "line": line}})   # PRE
                ret_op = {"k": "move", "place": {"l": off_l, "p": [], "ty": ret_ty}}
                if kind == "map":
                    ret_rv = {"k": "agg", "ak": "adt", "adt": "std::option::Option", "variant": "Some", "fields": ["0"], "targs": [ret_ty], "ops": [ret_op]}
                    none_rv = {"k": "agg", "ak": "adt", "adt": "std::option::Option", "variant": "None", "fields": [], "targs": [ret_ty], "ops": []}
                else:
                    ret_rv = {"k": "use", "op": ret_op}
                    none_rv = {"k": "use", "op": copy.deepcopy(t["args"][1])}
                b["blocks"].append({"stmts": [{"k": "assign", "lhs": copy.deepcopy(t["dest"]), "rv": ret_rv, "line": line}], "term": {"k": "goto", "t": t["t"], "line": line}})   # RET
                b["blocks"].append({"stmts": [{"k": "assign", "lhs": copy.deepcopy(t["dest"]), "rv": none_rv, "line": line}], "term": {"k": "goto", "t": t["t"], "line": line}})   # NONE
                b["blocks"].append({"stmts": [], "term": {"k": "unreachable", "line": line}})   # UNREACH
                b["blocks"][ci]["term"] = {"k": "goto", "t": SW0, "line": line, "desugared": g}
                done.append(h["def"])
                continue
            if is_filter:
                # `opt.filter(|x| pred)`  ==>  match opt { Some(v) if pred(&v) => Some(v), _ => None }
                if it.get("k") not in ("move", "copy") or ret_ty != "bool":
                    del b["locals"][off_l:]
                    continue
                n_blocks = len(h["blocks"])
                SW0, PRE, CHK, KEEP, NONE, UNREACH = [off_b + n_blocks + k for k in range(6)]
                for hb, blk in enumerate(h["blocks"]):
                    nb = fix_places(_shift(blk, lmap, off_b))
                    tt = nb.get("term")
                    if tt and tt.get("k") == "return":
                        nb["term"] = {"k": "goto", "t": CHK, "line": tt.get("line", line)}
                    b["blocks"].append(nb)
                opt_pl = copy.deepcopy(it["place"])
                opt_ty = opt_pl.get("ty") or (b["locals"][opt_pl["l"]]["ty"] if not opt_pl["p"] else "?")
                inner_ty = item_ty[1:].lstrip() if item_ty.startswith("&") else item_ty
                disc_l = new_local("isize")
                b["blocks"].append({"stmts": [{"k": "assign", "lhs": {"l": disc_l, "p": [], "ty": "isize"}, "rv": {"k": "discr", "place": copy.deepcopy(opt_pl)}, "line": line}],
                                    "term": {"k": "switch", "op": {"k": "move", "place": {"l": disc_l, "p": [], "ty": "isize"}}, "targets": [[0, NONE], [1, PRE]], "otherwise": UNREACH, "line": line}})   # SW0
                some_pl = {"l": opt_pl["l"], "p": list(opt_pl["p"]) + [{"dc": "Some", "v": 1}, {"f": 0, "n": "0", "adt": "std::option::Option", "v": "Some", "fty": inner_ty}], "ty": inner_ty}
                b["blocks"].append({"stmts": [{"k": "assign", "lhs": {"l": off_l + 2, "p": [], "ty": item_ty}, "rv": {"k": "ref", "mut": False, "place": some_pl}, "line": line}],
                                    "term": {"k": "goto", "t": off_b, "line": line}})   # PRE
                b["blocks"].append({"stmts": [], "term": {"k": "switch", "op": {"k": "copy", "place": {"l": off_l, "p": [], "ty": "bool"}}, "targets": [[0, NONE]], "otherwise": KEEP, "line": line}})   # CHK
                b["blocks"].append({"stmts": [{"k": "assign", "lhs": copy.deepcopy(t["dest"]), "rv": {"k": "use", "op": {"k": it["k"], "place": copy.deepcopy(opt_pl)}}, "line": line}],
                                    "term": {"k": "goto", "t": t["t"], "line": line}})   # KEEP
                b["blocks"].append({"stmts": [{"k": "assign", "lhs": copy.deepcopy(t["dest"]), "rv": {"k": "agg", "ak": "adt", "adt": "std::option::Option", "variant": "None", "fields": [],
                                               "targs": [inner_ty], "ops": []}, "line": line}],
                                    "term": {"k": "goto", "t": t["t"], "line": line}})   # NONE
                b["blocks"].append({"stmts": [], "term": {"k": "unreachable", "line": line}})   # UNREACH
                b["blocks"][ci]["term"] = {"k": "goto", "t": SW0, "line": line, "desugared": g}
                done.append(h["def"])
                continue
            it_ty = it["place"].get("ty") or b["locals"][it["place"]["l"]]["ty"] if it.get("k") in ("move", "copy") else "?"
            n_blocks = len(h["blocks"])
            HEAD, SW, BODY, EXIT, UNREACH, CHK, CHK2, BRK, ERRX = [off_b + n_blocks + k for k in range(9)]
            # closure blocks

            def only_returns(hb, seen=()):
                """from block hb of the closure nothing happens any more but the return"""
                blk_ = h["blocks"][hb]
                tt_ = blk_.get("term") or {}
                if [st for st in blk_.get("stmts", []) if st.get("k") == "assign" and st["rv"].get("k") != "discr"]:
                    return False
                if tt_.get("k") == "return":
                    return True
                return tt_.get("k") == "goto" and tt_["t"] not in seen and len(seen) < 8 and only_returns(tt_["t"], tuple(seen) + (hb,))
            for hb, blk in enumerate(h["blocks"]):
                nb = fix_places(_shift(blk, lmap, off_b))
                tt = nb.get("term")
                if tt and tt.get("k") == "return":
                    nb["term"] = {"k": "goto", "t": CHK if is_try else HEAD, "line": tt.get("line", line)}
                elif is_try and tt and tt.get("k") == "call" and (tt["callee"].get("generic") or "") == "std::ops::FromResidual::from_residual" \
                        and tt["dest"]["l"] == off_l and not tt["dest"]["p"] and blk["term"].get("t") is not None and only_returns(blk["term"]["t"]):
                    # the closure's own `?`: its result is the error itself - the loop ends with it (no second branch on a known Err)
                    tt["t"] = ERRX
                b["blocks"].append(nb)
            opt_l = new_local("std::option::Option<%s>" % item_ty)
            disc_l = new_local("isize")
            if it_ty.startswith("&mut"):
                ref_stmt, ref_l = [], None
                next_arg = {"k": "copy", "place": copy.deepcopy(it["place"])}
                self_ty = it_ty[len("&mut "):]
            else:
                ref_l = new_local("&mut " + it_ty)
                ref_stmt = [{"k": "assign", "lhs": {"l": ref_l, "p": [], "ty": "&mut " + it_ty}, "rv": {"k": "ref", "mut": True, "place": copy.deepcopy(it["place"])}, "line": line}]
                next_arg = {"k": "move", "place": {"l": ref_l, "p": [], "ty": "&mut " + it_ty}}
                self_ty = it_ty
            opt_pl = {"l": opt_l, "p": [], "ty": "std::option::Option<%s>" % item_ty}
            b["blocks"].append({"stmts": ref_stmt, "term": {"k": "call", "callee": {"generic": "std::iter::Iterator::next", "generic_full": "<%s as std::iter::Iterator>::next" % self_ty,
                               "targs": [self_ty], "trait": "std::iter::Iterator", "self_ty": self_ty, "self_head": self_ty.split("<")[0], "path": "std::iter::Iterator::next", "rk": "item", "local": False},
                               "args": [next_arg], "dest": copy.deepcopy(opt_pl), "t": SW, "unwind": None, "exp": True, "macro": "Desugaring(ForLoop)", "line": line, "synthetic": g}})   # HEAD
            b["blocks"].append({"stmts": [{"k": "assign", "lhs": {"l": disc_l, "p": [], "ty": "isize"}, "rv": {"k": "discr", "place": copy.deepcopy(opt_pl)}, "line": line}],
                                "term": {"k": "switch", "op": {"k": "move", "place": {"l": disc_l, "p": [], "ty": "isize"}}, "targets": [[0, EXIT], [1, BODY]], "otherwise": UNREACH, "line": line}})   # SW
            some_pl = {"l": opt_l, "p": [{"dc": "Some", "v": 1}, {"f": 0, "n": "0", "adt": "std::option::Option", "v": "Some", "fty": item_ty}], "ty": item_ty}
            b["blocks"].append({"stmts": [{"k": "assign", "lhs": {"l": off_l + 2, "p": [], "ty": item_ty}, "rv": {"k": "use", "op": {"k": "move", "place": some_pl}}, "line": line}],
                                "term": {"k": "goto", "t": off_b, "line": line}})   # BODY
            if not is_try:
                b["blocks"].append({"stmts": [{"k": "assign", "lhs": copy.deepcopy(t["dest"]), "rv": {"k": "use", "op": {"k": "const", "ty": "()", "zst": True}}, "line": line}],
                                    "term": {"k": "goto", "t": t["t"], "line": line}})   # EXIT
            elif ret_ty.startswith("std::result::Result<"):
                unit_l = new_local("()")
                inner = ret_ty[len("std::result::Result<"):-1]
                b["blocks"].append({"stmts": [{"k": "assign", "lhs": {"l": unit_l, "p": [], "ty": "()"}, "rv": {"k": "agg", "ak": "tuple", "ops": []}, "line": line},
                                              {"k": "assign", "lhs": copy.deepcopy(t["dest"]), "rv": {"k": "agg", "ak": "adt", "adt": "std::result::Result", "variant": "Ok", "fields": ["0"],
                                               "targs": [x.strip() for x in inner.split(",", 1)], "ops": [{"k": "move", "place": {"l": unit_l, "p": [], "ty": "()"}}]}, "line": line}],
                                    "term": {"k": "goto", "t": t["t"], "line": line}})   # EXIT
            else:
                unit_l = new_local("()")
                b["blocks"].append({"stmts": [{"k": "assign", "lhs": {"l": unit_l, "p": [], "ty": "()"}, "rv": {"k": "agg", "ak": "tuple", "ops": []}, "line": line}],
                                    "term": {"k": "call", "callee": {"generic": "std::ops::Try::from_output", "generic_full": "<%s as std::ops::Try>::from_output" % ret_ty, "targs": [ret_ty],
                                             "trait": "std::ops::Try", "self_ty": ret_ty, "self_head": ret_ty.split("<")[0], "path": "std::ops::Try::from_output", "rk": "item", "local": False},
                                             "args": [{"k": "move", "place": {"l": unit_l, "p": [], "ty": "()"}}], "dest": copy.deepcopy(t["dest"]), "t": t["t"], "unwind": None, "exp": True, "line": line, "synthetic": g}})   # EXIT
            b["blocks"].append({"stmts": [], "term": {"k": "unreachable", "line": line}})   # UNREACH
            if is_try:
                m_ = re.match(r"std::result::Result<(.*), ([^,]+)>$", ret_ty)
                res_ty = "std::result::Result<std::convert::Infallible, %s>" % (m_.group(2) if m_ else "?")
                cf_ty = "std::ops::ControlFlow<%s>" % res_ty
                cf_l, d2_l, rs_l = new_local(cf_ty), new_local("isize"), new_local(res_ty)
                ret_pl = {"l": off_l, "p": [], "ty": ret_ty}
                b["blocks"].append({"stmts": [], "term": {"k": "call", "callee": {"generic": "std::ops::Try::branch", "generic_full": "<%s as std::ops::Try>::branch" % ret_ty, "targs": [ret_ty],
                                    "trait": "std::ops::Try", "self_ty": ret_ty, "self_head": ret_ty.split("<")[0], "path": "<std::result::Result<T, E> as std::ops::Try>::branch", "rk": "item", "local": False},
                                    "args": [{"k": "move", "place": ret_pl}], "dest": {"l": cf_l, "p": [], "ty": cf_ty}, "t": CHK2, "unwind": None, "exp": True, "macro": "Desugaring(QuestionMark)", "line": line, "synthetic": g}})   # CHK
                b["blocks"].append({"stmts": [{"k": "assign", "lhs": {"l": d2_l, "p": [], "ty": "isize"}, "rv": {"k": "discr", "place": {"l": cf_l, "p": [], "ty": cf_ty}}, "line": line}],
                                    "term": {"k": "switch", "op": {"k": "move", "place": {"l": d2_l, "p": [], "ty": "isize"}}, "targets": [[0, HEAD], [1, BRK]], "otherwise": UNREACH, "line": line}})   # CHK2
                brk_pl = {"l": cf_l, "p": [{"dc": "Break", "v": 1}, {"f": 0, "n": "0", "adt": "std::ops::ControlFlow", "v": "Break", "fty": res_ty}], "ty": res_ty}
                b["blocks"].append({"stmts": [{"k": "assign", "lhs": {"l": rs_l, "p": [], "ty": res_ty}, "rv": {"k": "use", "op": {"k": "move", "place": brk_pl}}, "line": line}],
                                    "term": {"k": "call", "callee": {"generic": "std::ops::FromResidual::from_residual", "generic_full": "<%s as std::ops::FromResidual<%s>>::from_residual" % (ret_ty, res_ty),
                                             "targs": [ret_ty, res_ty], "trait": "std::ops::FromResidual", "self_ty": ret_ty, "self_head": ret_ty.split("<")[0],
                                             "path": "<std::result::Result<T, F> as std::ops::FromResidual<std::result::Result<std::convert::Infallible, E>>>::from_residual", "rk": "item", "local": False},
                                             "args": [{"k": "move", "place": {"l": rs_l, "p": [], "ty": res_ty}}], "dest": copy.deepcopy(t["dest"]), "t": t["t"], "unwind": None, "exp": True,
                                             "macro": "Desugaring(QuestionMark)", "line": line, "synthetic": g}})   # BRK
                b["blocks"].append({"stmts": [{"k": "assign", "lhs": copy.deepcopy(t["dest"]), "rv": {"k": "use", "op": {"k": "move", "place": {"l": off_l, "p": [], "ty": ret_ty}}}, "line": line}],
                                    "term": {"k": "goto", "t": t["t"], "line": line}})   # ERRX
            else:
                for _ in range(4):
                    b["blocks"].append({"stmts": [], "term": {"k": "unreachable", "line": line}})
            b["blocks"][ci]["term"] = {"k": "goto", "t": HEAD, "line": line, "desugared": g}
            done.append(h["def"])
    if done:
        # expanded closures that nothing calls or builds any more are dropped (their code now lives in the caller)
        still = set()
        for b in d["bodies"]:
            for blk in b["blocks"]:
                tt = blk.get("term") or {}
                if tt.get("k") == "call":
                    for a in tt.get("args", []):
                        if isinstance(a, dict) and a.get("k") in ("move", "copy") and not a["place"]["p"]:
                            for blk2 in b["blocks"]:
                                for st in blk2.get("stmts", []):
                                    if st.get("k") == "assign" and st["lhs"]["l"] == a["place"]["l"] and st["rv"].get("k") == "agg" and st["rv"].get("ak") == "closure":
                                        still.add(st["rv"]["def"])
        gone = {n for n in done if n not in still}
        d["bodies"] = [b for b in d["bodies"] if b["def"] not in gone]
    return sorted(set(done))


SROA_SKIP = ("style::Template::from_str_with_tab_width",)     # rules on the parser are written against its `(state, c)` scrutinee


def split_local_tuples(d):
    """Scalar replacement of match-scrutinee tuples: a local of tuple type that is built once by a tuple aggregate and only ever
    read component-wise (`match (self.is_finished(), self.len) { (false, Some(len)) => .. }`, `match (width, &self.status)`) is
    replaced by one local per component, assigned where the tuple was built. Tests on `_t.0` / `*(_t.1)` then are tests on the
    values themselves, as in the nested `if`/`match` the tuple form abbreviates. Returns the number of tuples split."""
    import copy
    n_split = 0
    for b in d["bodies"]:
        if b["def"] in SROA_SKIP or len(b["blocks"]) > 900:
            continue
        nloc = len(b["locals"])
        defs = {}
        whole = set()

        def scan(x, is_def_lhs=False):
            if isinstance(x, list):
                for v in x:
                    scan(v)
            elif isinstance(x, dict):
                if "l" in x and "p" in x and isinstance(x["l"], int) and isinstance(x["p"], list):
                    if not is_def_lhs:
                        pr = x["p"]
                        if not pr or not (isinstance(pr[0], dict) and "f" in pr[0] and "dc" not in pr[0]):
                            whole.add(x["l"])
                    for e in x["p"]:
                        scan(e)
                    return
                for v in x.values():
                    scan(v)
        for bi, blk in enumerate(b["blocks"]):
            for si, st in enumerate(blk.get("stmts", [])):
                if st.get("k") == "assign":
                    lhs = st["lhs"]
                    if not lhs["p"] and st["rv"].get("k") == "agg" and st["rv"].get("ak") == "tuple" and (b["locals"][lhs["l"]].get("ty") or "").startswith("("):
                        defs.setdefault(lhs["l"], []).append((bi, si))
                        scan(st["rv"])
                        continue
                    if not lhs["p"]:
                        defs.setdefault(lhs["l"], []).append(None)       # another kind of definition
                    else:
                        scan(lhs)                                        # a partial store counts as a use of the projection
                        if not (isinstance(lhs["p"][0], dict) and "f" in lhs["p"][0]):
                            whole.add(lhs["l"])
                        else:
                            defs.setdefault(lhs["l"], []).append(None)   # component stores: leave such tuples alone
                    scan(st["rv"])
                else:
                    scan(st)
            t = blk.get("term")
            if t:
                if t.get("k") == "call" and isinstance(t.get("dest"), dict):
                    dl = t["dest"]
                    defs.setdefault(dl["l"], []).append(None)
                scan(t)
        cands = [l for l, ds in defs.items() if len(ds) == 1 and ds[0] is not None and l not in whole and l > b.get("arg_count", 0) and l != 0]
        if not cands:
            continue
        new_of = {}
        for l in cands:
            bi, si = defs[l][0]
            st = b["blocks"][bi]["stmts"][si]
            ops = st["rv"]["ops"]
            tys = []
            for o in ops:
                ty = (o.get("place") or {}).get("ty") if o.get("k") in ("move", "copy") else o.get("ty")
                tys.append(ty or "?")
            if "?" in tys:
                continue
            ids = []
            for ty in tys:
                b["locals"].append({"ty": ty, "head": ty.split("<")[0].lstrip("&").replace("mut ", "") if ty else None})
                ids.append(len(b["locals"]) - 1)
            new_of[l] = ids
            repl = [{"k": "assign", "lhs": {"l": ids[k], "p": [], "ty": tys[k]}, "rv": {"k": "use", "op": copy.deepcopy(ops[k])}, "line": st.get("line", 0)} for k in range(len(ops))]
            b["blocks"][bi]["stmts"][si:si + 1] = repl
            # later (bi, si) indices in the same block shift: recompute lazily by re-reading defs is not needed (one def per local)
            for l2, ds2 in defs.items():
                if l2 != l and ds2 and ds2[0] is not None and ds2[0][0] == bi and ds2[0][1] > si:
                    ds2[0] = (bi, ds2[0][1] + len(repl) - 1)
            n_split += 1

        def rewrite(x):
            if isinstance(x, list):
                return [rewrite(v) for v in x]
            if isinstance(x, dict):
                if "l" in x and "p" in x and isinstance(x["l"], int) and x["l"] in new_of and x["p"] and isinstance(x["p"][0], dict) and "f" in x["p"][0] \
                        and isinstance(x["p"][0]["f"], int) and x["p"][0]["f"] < len(new_of[x["l"]]):
                    out = dict(x)
                    out["l"] = new_of[x["l"]][x["p"][0]["f"]]
                    out["p"] = [rewrite(e) for e in x["p"][1:]]
                    return out
                return {k: rewrite(v) for k, v in x.items()}
            return x
        if new_of:
            b["blocks"] = rewrite(b["blocks"])
    return n_split


class Crate:
    def __init__(self, path, config):
        with open(path) as fh:
            d = json.load(fh)
        self.renames = canonicalise_renames(d)
        self.inlined = inline_new_helpers(d)
        self.desugared = desugar_iter_closures(d)
        self.split_tuples = split_local_tuples(d)
        if self.desugared:
            self.inlined = self.inlined + ["(loop form of) " + x for x in self.desugared]
        self.config = config
        self.path = path
        self.features = d.get("cfg", [])
        self.bodies = {}
        for b in d["bodies"]:
            bo = Body(b, self)
            self.bodies[bo.name] = bo
        self.adts = {a["path"]: a for a in d["adts"]}
        self.fns = {f["def"]: f for f in d["fns"]}
        self.impls = d.get("impls", [])
        self.unsafe_blocks = d["unsafe_blocks"]
        self._callers = None
        self._closure_parent = None

    def body(self, name):
        return self.bodies.get(name)

    def find(self, pat):
        return [b for n, b in sorted(self.bodies.items()) if re.fullmatch(pat, n)]

    def lib_bodies(self, exclude_files=("src/in_memory.rs",)):
        return [b for n, b in sorted(self.bodies.items()) if b.file not in exclude_files]

    def closures_of(self, name):
        return [b for n, b in sorted(self.bodies.items()) if b.root_parent == name or b.parent == name]

    def all_calls(self, *pats, bodies=None):
        out = []
        for b in (bodies if bodies is not None else [self.bodies[n] for n in sorted(self.bodies)]):
            out.extend(b.calls(*pats))
        return out

    def callers(self):
        """callee body name -> list of Call (direct, resolved)."""
        if self._callers is None:
            m = defaultdict(list)
            for n in sorted(self.bodies):
                b = self.bodies[n]
                for c in b.calls():
                    m[c.path].append(c)
                    g = c.generic
                    if g != c.path:
                        m[g].append(c)
            self._callers = m
        return self._callers

    def callees_of(self, body, include_closures=True, include_drops=True):
        """Names of crate bodies that `body` may invoke: direct calls, closures it constructs or
        receives as constants, drop glue of locals (user Drop impls), trait fan-out to crate impls."""
        out = set()
        for c in body.calls():
            for t in self.resolve_targets(c):
                out.add(t)
        if include_closures:
            for i, j, s in body.assigns():
                rv = s["rv"]
                if rv["k"] == "agg" and rv["ak"] == "closure" and rv["def"] in self.bodies:
                    out.add(rv["def"])
            for c in body.calls():
                for a in c.args:
                    if a["k"] == "const" and a.get("closure") in self.bodies:
                        out.add(a["closure"])
                    if a["k"] == "const" and a.get("fn") in self.bodies:
                        out.add(a["fn"])
        if include_drops:
            for bb, t in body.drops():
                for (_ty, fn) in t["tyf"].get("drops", []):
                    if fn in self.bodies:
                        out.add(fn)
        return out

    def resolve_targets(self, call):
        """Crate bodies a call may reach. Unresolved trait calls fan out to all crate impls of that
        trait method (dyn/param receivers)."""
        c = call.callee
        out = []
        p = c["path"]
        if p in self.bodies:
            out.append(p)
        cc = c.get("calls_closure")
        if cc and cc in self.bodies and cc not in out:
            out.append(cc)
        # format_args!: `Argument::new_display::<T>(&x)` dispatches to <T as Display>::fmt at run time
        m = re.match(r"core::fmt::rt::Argument::<'_>::new_(display|debug|lower_hex|upper_hex|lower_exp|upper_exp|octal|binary|pointer)", p)
        if m and c.get("targs"):
            tr = {"display": "std::fmt::Display", "debug": "std::fmt::Debug"}.get(m.group(1), "std::fmt::" + m.group(1).title().replace("_", ""))
            t0 = c["targs"][0]
            while t0.startswith("&"):
                t0 = t0[1:].lstrip()
                if t0.startswith("mut "):
                    t0 = t0[4:]
            base = re.sub(r"<.*$", "", t0)
            for n, b in self.bodies.items():
                if b.impl and b.impl.get("trait") == tr and n.endswith("::fmt"):
                    st = b.impl.get("self_head") or re.sub(r"<.*$", "", b.impl.get("self_ty", ""))
                    if st == base and n not in out:
                        out.append(n)
        if c.get("rk") in ("unresolved", "virtual"):
            g = c.get("generic", p)
            tr = c.get("trait")
            if tr:
                meth = g.rsplit("::", 1)[-1]
                for n, b in self.bodies.items():
                    if b.impl and b.impl.get("trait") == tr and n.rsplit("::", 1)[-1] == meth and n not in out:
                        out.append(n)
        return out

    def reachable_bodies(self, roots, stop=()):
        """Transitive closure over callees_of."""
        seen = set()
        work = [r for r in roots if r in self.bodies]
        while work:
            n = work.pop()
            if n in seen or n in stop:
                continue
            seen.add(n)
            for m in self.callees_of(self.bodies[n]):
                if m not in seen:
                    work.append(m)
        return seen
