import json
"""Shared helpers and rules used by several properties."""
import re

from .facts import (Call, const_val, is_const, op_str, operand_local, operand_place, place_fields,
                    place_str)

TEST_DOUBLE_FILES = ("src/in_memory.rs",)

TERMLIKE = "term_like::TermLike"
EFFECT_METHODS = {"move_cursor_up", "move_cursor_down", "move_cursor_right", "move_cursor_left",
                  "write_line", "write_str", "clear_line", "flush"}
TERM_OUTPUT_METHODS = EFFECT_METHODS | {"clear_last_lines", "clear_screen", "clear_to_end_of_screen",
                                        "clear_chars", "show_cursor", "hide_cursor", "move_cursor_to",
                                        "write", "write_all", "write_fmt", "set_title"}
STD_PRINT = (r"std::io::_print", r"std::io::_eprint", r"std::io::stdout", r"std::io::stderr",
             r"std::io::Stdout::.*", r"std::io::Stderr::.*")


def meth(path):
    return path.rsplit("::", 1)[-1]


def is_termlike_effect(call):
    c = call.callee
    return c.get("trait") == TERMLIKE and meth(c.get("generic", "")) in EFFECT_METHODS


def is_term_output(call):
    p = call.path
    return p.startswith("console::Term::") and meth(p) in TERM_OUTPUT_METHODS


def lib_bodies(crate):
    return [b for b in crate.lib_bodies(TEST_DOUBLE_FILES)]


def io_result_ty(tyd):
    """Type facts dict describes Result<_, io::Error> (possibly inside Poll<>)."""
    ty = tyd["ty"]
    return "std::io::Error>" in ty and (ty.startswith("std::result::Result<") or ty.startswith("std::task::Poll<std::result::Result<"))


def is_plain_io_result(tyd):
    return tyd.get("head") == "std::result::Result" and tyd.get("refs", 0) == 0 and \
        len(tyd.get("targs", [])) >= 2 and tyd["targs"][1] == "std::io::Error"


def try_edges(body, call):
    """For a `Try::branch` call: (switch_bb, continue_bb, break_bb) or None."""
    t = call.target
    if t is None:
        return None
    # the switch may be in the target block or after trivial gotos
    cur = t
    for _ in range(4):
        tt = body.term(cur)
        if tt and tt["k"] == "switch":
            cont = brk = None
            for v, bb in tt["targets"]:
                if v == 0:
                    cont = bb
                elif v == 1:
                    brk = bb
            if cont is None:
                cont = tt["otherwise"]
            if brk is None:
                brk = tt["otherwise"]
            return cur, cont, brk
        if tt and tt["k"] == "goto":
            cur = tt["t"]
            continue
        break
    return None


TRY_BRANCH = r"std::ops::Try::branch"
FROM_RESIDUAL = r"std::ops::FromResidual::from_residual"

PANIC_CALLS = (
    r"std::rt::begin_panic.*", r"core::panicking::.*", r"std::rt::panic_fmt", r"std::panicking::.*",
    r"core::panic::.*", r"std::option::expect_failed", r"std::result::unwrap_failed",
    r"core::option::.*failed", r"core::result::.*failed", r"core::slice::index::.*fail.*",
    r"core::str::slice_error_fail.*", r"std::process::abort", r"std::process::exit",
)

UNWRAPS = (
    r"std::result::Result::<T, E>::unwrap", r"std::result::Result::<T, E>::expect",
    r"std::result::Result::<T, E>::unwrap_err", r"std::result::Result::<T, E>::expect_err",
    r"std::result::Result::<T, E>::unwrap_unchecked", r"std::result::Result::<T, E>::into_ok",
    r"std::option::Option::<T>::unwrap", r"std::option::Option::<T>::expect",
    r"std::option::Option::<T>::unwrap_unchecked",
)


def is_panic_call(call):
    return call.matches(*PANIC_CALLS) or call.target is None and not call.matches(r".*::call_once|.*::call")


def block_panics(body, bb):
    """Block ends in a diverging call to a panic entry point or an assert terminator's fail edge."""
    t = body.term(bb)
    if not t:
        return False
    if t["k"] == "call" and t["t"] is None:
        return True
    return False


def diverging_blocks(body):
    return {bb for bb in body.reachable() if block_panics(body, bb)}


def region_reaches_panic(body, blocks):
    for bb in blocks:
        t = body.term(bb)
        if not t:
            continue
        if t["k"] == "call" and (t["t"] is None or Call(body, bb, t).matches(*UNWRAPS)):
            return bb
        if t["k"] == "assert":
            return bb
    return None


def fn_loc(body):
    return "%s:%d" % (body.file, body.line)


def arg_locals_slice(body, call, idx, **kw):
    return body.slice(call.args[idx], at=call.bb, **kw)


def emitters(crate):
    """Bodies (outside test doubles and outside `impl TermLike for _`) that call a TermLike
    effect method, with their effect call sites."""
    out = {}
    for b in lib_bodies(crate):
        if b.impl and b.impl.get("trait") == TERMLIKE:
            continue
        sites = [c for c in b.calls() if is_termlike_effect(c)]
        if sites:
            out[b.name] = sites
    return out


def owner_fn(crate, body):
    """The named function a closure body belongs to."""
    return body.root_parent or body.name


def api_roots(crate):
    return [n for n, b in crate.bodies.items() if b.api and b.kind != "Closure"]


def callgraph(crate):
    g = {}
    for n, b in crate.bodies.items():
        g[n] = crate.callees_of(b)
    return g


def cg_reach(g, roots, avoid=()):
    seen = set()
    work = [r for r in roots if r not in avoid]
    while work:
        n = work.pop()
        if n in seen:
            continue
        seen.add(n)
        for m in g.get(n, ()):
            if m not in seen and m not in avoid:
                work.append(m)
    return seen


# ------------------------------------------------------------------------------------------------
# Shared rules

DRAWABLE = "draw_target::Drawable"
DRAWABLE_DRAW = "draw_target::Drawable::<'_>::draw"
DRAWABLE_CLEAR = "draw_target::Drawable::<'_>::clear"
PDT_DRAWABLE = "draw_target::ProgressDrawTarget::drawable"


ROLE_FINDERS = {}


def _role_format_state(crate):
    """The renderer of a bar line, whatever it is called today: the one non-closure method of ProgressStyle that dispatches on
    `TemplatePart` and hands lines to `push_line` (a renamed / re-parameterised `format_state`)."""
    out = []
    for n, b in sorted(crate.bodies.items()):
        if b.kind == "Closure" or not b.impl or (b.impl.get("self_head") or "") != "style::ProgressStyle":
            continue
        if any(head_of_type(pl.get("ty", "")) == "style::TemplatePart" for sb, t, pl, d in discr_switches(b)) and b.calls(r"style::ProgressStyle::push_line"):
            out.append(b)
    return out


ROLE_FINDERS[r"style::ProgressStyle::format_state"] = _role_format_state


def find_one(ctx, crate, rule, pat, what=None):
    bs = crate.find(pat)
    if not bs and pat in ROLE_FINDERS:
        bs = ROLE_FINDERS[pat](crate)
    if len(bs) != 1:
        ctx.lost(rule, crate.config, "expected exactly one body matching %s (%s), found %d" % (pat, what or "anchor", len(bs)))
        return None
    return bs[0]


def rule_no_unsafe(ctx, crate):
    n = len(crate.unsafe_blocks)
    unsafe_fns = [f for f in crate.fns.values() if f.get("unsafe")]
    ctx.check(n == 0 and not unsafe_fns, "NO-UNSAFE", "crate", "<crate>", "src/lib.rs",
              "HIR scan: 0 user unsafe blocks, 0 unsafe fns (%d fns scanned)" % len(crate.fns),
              "crate contains unsafe code: %s %s" % (crate.unsafe_blocks, [f["def"] for f in unsafe_fns]), crate.config)


def rule_emit_single(ctx, crate):
    """R-EMIT-SINGLE: TermLike effects are reachable from the public API only through
    Drawable::draw; console::Term output methods only inside `impl TermLike for Term`; no std
    print/stdout/stderr anywhere in the library."""
    rule = "R-EMIT-SINGLE"
    em = emitters(crate)
    n_sites = sum(len(v) for v in em.values())
    ctx.floor(rule, n_sites, 11, crate.config, "TermLike effect call sites")
    ctx.floor(rule, len(em), 1, crate.config, "emitter bodies")
    g = callgraph(crate)
    roots = api_roots(crate)
    draw = [n for n in crate.bodies if re.fullmatch(r"draw_target::Drawable::<'_>::draw", n)]
    if len(draw) != 1:
        ctx.lost(rule, crate.config, "Drawable::draw not found")
        return em
    # every emitter is unreachable from the API once Drawable::draw is removed from the call graph
    without = cg_reach(g, roots, avoid=set(draw))
    with_ = cg_reach(g, roots)
    for name, sites in sorted(em.items()):
        b = crate.bodies[name]
        for c in sites:
            key = "%s#%s" % (meth(c.generic), sum(1 for x in sites if x.bb < c.bb and meth(x.generic) == meth(c.generic)))
            ctx.check(name not in without and name in with_ | {name}, rule, key, name, c.loc(),
                      "effect site reachable from the API only through Drawable::draw (call-graph dominance; %d API roots)" % len(roots),
                      "TermLike effect %s reachable from the public API without passing Drawable::draw" % meth(c.generic),
                      crate.config)
    # console::Term output methods
    n_term = 0
    for b in lib_bodies(crate):
        for c in b.calls():
            if is_term_output(c):
                n_term += 1
                inside = bool(b.impl and b.impl.get("trait") == TERMLIKE and "console::Term" in b.impl.get("self_ty", ""))
                ctx.check(inside, rule, "Term::" + meth(c.path), b.name, c.loc(),
                          "console::Term output method called inside impl TermLike for Term",
                          "console::Term::%s called outside impl TermLike for Term (bypasses the draw target)" % meth(c.path),
                          crate.config)
            if c.matches(*STD_PRINT):
                ctx.bad(rule, "std-print:" + c.path, b.name, c.loc(),
                        "direct use of %s in library code (output bypasses the draw target)" % c.path, crate.config)
    ctx.floor(rule, n_term, 8, crate.config, "console::Term output forwards in impl TermLike for Term")
    return em


def rule_emitter_callers(ctx, crate, rule="R-EMITTER-CALLERS"):
    """The emitter is called only from Drawable::draw, in the Term/TermLike arms; Drawable::Term and
    Drawable::TermLike are constructed only in ProgressDrawTarget::drawable."""
    em = emitters(crate)
    callers = crate.callers()
    n = 0
    for name in sorted(em):
        for c in callers.get(name, []):
            n += 1
            ok = re.fullmatch(r"draw_target::Drawable::<'_>::draw", c.body.name) is not None or c.body.name in em
            ctx.check(ok, rule, "caller:" + c.body.name, name, c.loc(),
                      "emitter called from Drawable::draw", "emitter %s called from %s" % (name, c.body.name), crate.config)
    ctx.floor(rule, n, 2, crate.config, "emitter call sites")
    return em


def constructions(crate, adt, variant=None, bodies=None):
    """(body, bb, idx, stmt) of aggregate constructions of adt[::variant]."""
    out = []
    for b in (bodies if bodies is not None else lib_bodies(crate)):
        for i, j, s in b.assigns():
            rv = s["rv"]
            if rv["k"] == "agg" and rv["ak"] == "adt" and rv["adt"] == adt and (variant is None or rv["variant"] == variant):
                out.append((b, i, j, s))
    return out


def switch_on_local(body, bb):
    """If block bb ends in a switch on a plain local, return (local, term)."""
    t = body.term(bb)
    if t and t["k"] == "switch" and t["op"]["k"] in ("copy", "move") and not t["op"]["place"]["p"]:
        return t["op"]["place"]["l"], t
    return None


def guarded_by_true_of(body, bb, pred):
    """Block bb is reachable only through a non-zero edge of a switch whose operand satisfies
    pred(slice). Returns the (switch_bb, target) edge or None. Handles threaded bool temporaries."""
    for sb, t in body.switches():
        if t["op"]["k"] not in ("copy", "move"):
            continue
        zero = [tb for v, tb in t["targets"] if v == 0]
        nonzero = [tb for v, tb in t["targets"] if v != 0] + ([t["otherwise"]] if zero else [])
        for tgt in set(nonzero):
            if tgt in zero:
                continue
            if body.edge_dominates((sb, tgt), bb) or (body.dominates(tgt, bb) and len([p for p in body.pred(tgt)]) == 1):
                sl = body.slice(t["op"], at=sb)
                if pred(sl):
                    return (sb, tgt)
    return None


def guarded_by_false_of(body, bb, pred):
    """Block bb is reachable only through the zero edge of a bool switch whose operand satisfies pred(slice)."""
    for sb, t in body.switches():
        if t["op"]["k"] not in ("copy", "move"):
            continue
        zero = [tb for v, tb in t["targets"] if v == 0]
        if not zero or zero[0] == t["otherwise"]:
            continue
        tgt = zero[0]
        if body.edge_dominates((sb, tgt), bb) or (body.dominates(tgt, bb) and len([p for p in body.pred(tgt)]) == 1):
            if pred(body.slice(t["op"], at=sb)):
                return (sb, tgt)
    return None


# ------------------------------------------------------------------------------------------------
# enum discriminant switches

def variant_names(crate, adt):
    a = crate.adts.get(adt)
    if a:
        return [v["name"] for v in a["variants"]]
    STD = {"std::option::Option": ["None", "Some"], "std::result::Result": ["Ok", "Err"],
           "std::ops::ControlFlow": ["Continue", "Break"], "std::task::Poll": ["Ready", "Pending"]}
    return STD.get(adt)


def discr_switches(body):
    """Yield (switch_bb, term, place, tyfacts) for switches whose operand is `discriminant(place)`."""
    D = body.defs()
    for sb, t in body.switches():
        l = operand_local(t["op"])
        if l is None or t["op"]["place"]["p"]:
            continue
        for d in D.get(l, ()):
            if d["kind"] == "assign" and d["rv"]["k"] == "discr":
                yield sb, t, d["rv"]["place"], d
                break


def head_of_type(ty):
    """`&mut a::B<'_, X>` -> `a::B`."""
    t = ty
    while t.startswith("&"):
        t = t[1:]
        if t.startswith("mut "):
            t = t[4:]
        t = t.lstrip()
        if t.startswith("'"):
            t = t.split(" ", 1)[1] if " " in t else t
    m = re.match(r"[A-Za-z0-9_:]+", t)
    return m.group(0) if m else t


def edge_variants(crate, t, adt):
    """For a switch term on discriminant of `adt`: {target_bb: set(variant names)}."""
    names = variant_names(crate, adt)
    if not names:
        return {}
    out = {}
    listed = set()
    for v, bb in t["targets"]:
        if isinstance(v, int) and 0 <= v < len(names):
            out.setdefault(bb, set()).add(names[v])
            listed.add(names[v])
    rest = set(names) - listed
    if rest:
        out.setdefault(t["otherwise"], set()).update(rest)
    return out


def variant_regions(body, crate, adt, place_pred=None):
    """List of (variants:set, region:set(blocks), switch_bb, place) for every discriminant switch on
    a place whose type head is `adt`."""
    out = []
    for sb, t, pl, d in discr_switches(body):
        if head_of_type(pl.get("ty", "")) != adt:
            continue
        if place_pred and not place_pred(pl):
            continue
        for tgt, vs in edge_variants(crate, t, adt).items():
            out.append((vs, body.edge_region((sb, tgt)), sb, pl))
    return out


def variant_only_regions(body, crate, adt, place_pred=None):
    """[(set({V}), blocks that can run only when the inspected value is V)] on the flag-folded CFG: works for `match x { V => ..}`,
    `if matches!(x, V) && c {..}` and `let is_v = matches!(x, V); .. if is_v {..}` alike."""
    names = variant_names(crate, adt) or []
    reach = {v: variant_reach(body, crate, adt, v, place_pred) for v in names}
    out = []
    for v in names:
        others = set()
        for w in names:
            if w != v:
                others |= reach[w]
        only = reach[v] - others
        if only:
            out.append(({v}, only))
    return out


def in_variant_region(body, crate, bb, adt, allowed, place_pred=None):
    """bb lies in a region reachable only through edges of a discriminant switch on `adt` whose
    variant set is a subset of `allowed`."""
    for vs, reg, sb, pl in variant_regions(body, crate, adt, place_pred):
        if vs <= set(allowed) and bb in reg:
            return True
    return False


def cond_slices(b, sb, depth=2):
    """Slices that decide the switch at block sb: its own operand's slice, plus - when the operand is a flag whose definitions are
    constants chosen by earlier tests (`let m = matches!(x, P if g)`, `let mut f = false; if c { f = true }`) - the slices of the
    switches those constant stores are control-dependent on."""
    t = b.term(sb)
    out = [b.slice_switch(sb)]
    l = operand_local(t["op"]) if t and t.get("k") == "switch" else None
    if l is None or t["op"]["place"]["p"] or depth <= 0:
        return out
    seen = set()
    locs, work = set(), [l]
    while work:                      # the flag through plain copies (`_20 = copy _4; switchInt(_20)`)
        x_ = work.pop()
        if x_ in locs or len(locs) > 8:
            continue
        locs.add(x_)
        for d in b.defs().get(x_, ()):
            if d["kind"] == "assign" and not d["lhs"]["p"] and d["rv"]["k"] == "use" and d["rv"]["op"].get("k") in ("copy", "move") and not d["rv"]["op"]["place"]["p"]:
                work.append(d["rv"]["op"]["place"]["l"])
            elif d["kind"] == "assign" and not d["lhs"]["p"] and d["rv"]["k"] == "discr" and not d["rv"]["place"]["p"]:
                work.append(d["rv"]["place"]["l"])       # `match verdict { A => .., B => .. }` on a locally built verdict
    for d in [d_ for x_ in sorted(locs) for d_ in b.defs().get(x_, ())]:
        if d["kind"] == "assign" and not d["lhs"]["p"] and (
                (d["rv"]["k"] == "use" and d["rv"]["op"].get("k") == "const" and isinstance(d["rv"]["op"].get("v"), bool)) or
                (d["rv"]["k"] == "agg" and d["rv"].get("ak") == "adt" and not d["rv"].get("ops"))):
            for sb2, t2 in b.switches():
                if sb2 != sb and sb2 not in seen and any(b.edge_dominates((sb2, x), d["bb"]) for x in b.succ(sb2)):
                    seen.add(sb2)
                    out.extend(cond_slices(b, sb2, depth - 1))
    return out


def deep_has_call(crate, sl, *pats, depth=3):
    """Slice contains a call matching pats, directly or inside a closure / fn item that flows into it."""
    if sl.has_call(*pats):
        return True
    for a in sl.atoms:
        if a[0] in ("closure", "fn") and a[1] in crate.bodies:
            if _body_calls_deep(crate, crate.bodies[a[1]], pats, depth):
                return True
        if a[0] == "fn" and any(re.fullmatch(p, a[1]) for p in pats):
            return True
    # ... or inside a crate function the slice calls directly (`ticker.is_running()` instead of `.map_or(false, Ticker::is_running)`)
    for c in sl.calls:
        if c.callee.get("local"):
            for tn in crate.resolve_targets(c):
                if tn in crate.bodies and _body_calls_deep(crate, crate.bodies[tn], pats, depth - 1):
                    return True
    return False


def _body_calls_deep(crate, b, pats, depth):
    if b.calls(*pats):
        return True
    if depth <= 0:
        return False
    for c in b.calls():
        if c.callee.get("local") and not c.callee.get("trait"):
            for tn in crate.resolve_targets(c):
                if tn in crate.bodies and tn != b.name and _body_calls_deep(crate, crate.bodies[tn], pats, depth - 1):
                    return True
    for i, j, s in b.assigns():
        rv = s["rv"]
        if rv["k"] == "agg" and rv["ak"] == "closure" and rv["def"] in crate.bodies:
            if _body_calls_deep(crate, crate.bodies[rv["def"]], pats, depth - 1):
                return True
    return False


KNOWN_BOOLS = {}        # id(body) -> {local: bool}: call results whose value is fixed by the specialisation in progress


def _bool_vals(body, l, at, R, depth):
    """Possible constant values of bool local l at block `at`, considering only definitions inside R ('?' = unknown)."""
    vals = set()
    if depth > 4:
        return {"?"}
    kb = KNOWN_BOOLS.get(id(body), {})
    if l in kb:
        return {kb[l]}
    for d in body.defs().get(l, ()):
        if d["kind"] == "param":
            vals.add("?")
            continue
        if d.get("bb", -1) not in R or not body.def_reaches(d, at):
            continue
        if d["kind"] == "assign" and d["rv"]["k"] == "use" and not d["lhs"]["p"]:
            o = d["rv"]["op"]
            if o.get("k") == "const" and isinstance(o.get("v"), bool):
                vals.add(o["v"])
            elif o.get("k") in ("copy", "move") and not o["place"]["p"] and body.locals[o["place"]["l"]]["ty"] == "bool":
                vals |= _bool_vals(body, o["place"]["l"], d["bb"], R, depth + 1)
            else:
                vals.add("?")
        elif d["kind"] == "assign" and d["rv"]["k"] == "un" and d["rv"].get("op") == "Not" and not d["lhs"]["p"] \
                and operand_local(d["rv"].get("a")) is not None and not d["rv"]["a"]["place"]["p"] \
                and body.locals[operand_local(d["rv"]["a"])]["ty"] == "bool":
            vals |= {(not v) if isinstance(v, bool) else v for v in _bool_vals(body, operand_local(d["rv"]["a"]), d["bb"], R, depth + 1)}
        else:
            vals.add("?")
    return vals


def resolve_values(body, op, at, R, depth=0):
    """Possible values of an operand/place at block `at` when only blocks R execute, following copies and reads of
    fields of locally built aggregates (`let (a, b) = match x {..}`, `Plan { a, b }`): a set over ('const', v),
    ('variant', adt, name) and '?'."""
    if depth > 10 or not isinstance(op, dict):
        return {"?"}
    if op.get("k") == "const":
        return {("const", op.get("v"))} if "v" in op else {"?"}
    pl = op["place"] if "place" in op else op
    l, proj = pl["l"], [e for e in pl["p"] if not (isinstance(e, dict) and "dc" in e)]
    if "*" in proj:
        return {"?"}
    out = set()
    for d in body.defs().get(l, ()):
        if d["kind"] == "param":
            return {"?"}
        if d.get("bb", -1) not in R or not body.def_reaches(d, at) or d.get("via_ref") is not None:
            continue
        if d["kind"] != "assign":
            return {"?"}
        lp = [e for e in d["lhs"]["p"] if not (isinstance(e, dict) and "dc" in e)]
        if lp:
            # a store into a component of the local: relevant only if it is (a prefix of) the component read
            if lp != proj[:len(lp)]:
                continue
            rest = proj[len(lp):]
        else:
            rest = proj
        rv = d["rv"]
        if rv["k"] == "use":
            o = rv["op"]
            if o.get("k") == "const":
                out |= ({("const", o.get("v"))} if not rest and "v" in o else {"?"})
            else:
                out |= resolve_values(body, {"place": {"l": o["place"]["l"], "p": list(o["place"]["p"]) + rest}}, d["bb"], R, depth + 1)
        elif rv["k"] == "agg":
            if not rest:
                out.add(("variant", rv.get("adt") or rv.get("ak"), rv.get("variant")) if rv.get("ak") == "adt" else "?")
            else:
                e = rest[0]
                idx = e.get("f") if isinstance(e, dict) else None
                if idx is None or idx >= len(rv["ops"]):
                    return {"?"}
                o = rv["ops"][idx]
                if o.get("k") == "const":
                    out |= ({("const", o.get("v"))} if len(rest) == 1 and "v" in o else {"?"})
                else:
                    out |= resolve_values(body, {"place": {"l": o["place"]["l"], "p": list(o["place"]["p"]) + rest[1:]}}, d["bb"], R, depth + 1)
        else:
            return {"?"}
    return out or {"?"}


def specialise(body, avoid, crate=None):
    """Fold flags under a set of excluded edges: repeatedly, a switch on a bool (or, given the crate, on the discriminant
    of a locally built enum value) all of whose possible values inside the still-reachable part agree loses its other
    edges. Values are followed through copies and fields of locally built aggregates. Returns (reachable, avoid)."""
    avoid = set(avoid)
    R = body.reach([0], avoid_edges=avoid)
    for _ in range(8):
        changed = False
        if crate is not None:
            for sb, t, pl, d in discr_switches(body):
                if sb not in R:
                    continue
                vals = resolve_values(body, {"place": pl}, sb, R)
                names = {v[2] for v in vals if isinstance(v, tuple) and v[0] == "variant"}
                if "?" in vals or len(names) != 1 or any(not (isinstance(v, tuple) and v[0] == "variant") for v in vals):
                    continue
                adt = next(iter(vals))[1]
                for tgt, vs in edge_variants(crate, t, adt).items():
                    if not (names & vs) and (sb, tgt) not in avoid:
                        avoid.add((sb, tgt))
                        changed = True
        for sb, t in body.switches():
            if sb not in R or t["op"].get("k") not in ("copy", "move"):
                continue
            l = t["op"]["place"]["l"]
            if t["op"]["place"]["p"] or body.locals[l]["ty"] != "bool":
                if t["op"]["place"].get("ty") != "bool":
                    continue
            vals = _bool_vals(body, l, sb, R, 0) if not t["op"]["place"]["p"] else {"?"}
            if vals - {True, False}:
                rv_ = resolve_values(body, t["op"], sb, R)
                if rv_ and all(isinstance(v, tuple) and v[0] == "const" and isinstance(v[1], bool) for v in rv_):
                    vals = {v[1] for v in rv_}
            zero = [tb for v, tb in t["targets"] if v == 0]
            if vals == {True} and zero and (sb, zero[0]) not in avoid and zero[0] != t["otherwise"]:
                avoid.add((sb, zero[0]))
                changed = True
            elif vals == {False} and zero and (sb, t["otherwise"]) not in avoid and zero[0] != t["otherwise"]:
                avoid.add((sb, t["otherwise"]))
                changed = True
        # integer tests whose operand can only hold constants inside the still-reachable part
        # (`let n = match x { Some(v) => f(v), None => 0 }; if n == 0 {..}` under x = None)
        for sb, t in body.switches():
            if sb not in R or t["op"].get("k") not in ("copy", "move") or t["op"]["place"]["p"]:
                continue
            l = t["op"]["place"]["l"]
            ty = body.locals[l]["ty"]
            dead = set()
            if ty == "bool":
                ds = [d for d in body.defs().get(l, ()) if d["kind"] != "param"]
                if len(ds) != 1 or ds[0]["kind"] != "assign" or ds[0]["rv"]["k"] != "bin" or ds[0]["rv"]["op"] not in _INT_CMP:
                    continue
                rv = ds[0]["rv"]
                xs, ys = _int_consts(body, rv["a"], ds[0]["bb"], R), _int_consts(body, rv["b"], ds[0]["bb"], R)
                if xs is None or ys is None:
                    continue
                outs = {_INT_CMP[rv["op"]](x, y) for x in xs for y in ys}
                zero = [tb for v, tb in t["targets"] if v == 0]
                if len(outs) != 1 or not zero or zero[0] == t["otherwise"]:
                    continue
                dead.add((sb, zero[0]) if outs == {True} else (sb, t["otherwise"]))
            elif _is_int_ty(ty):
                xs = _int_consts(body, t["op"], sb, R)
                if xs is None:
                    continue
                tv = {v for v, tb in t["targets"]}
                for v, tb in t["targets"]:
                    if v not in xs and tb != t["otherwise"] and not any(v2 in xs and tb2 == tb for v2, tb2 in t["targets"]):
                        dead.add((sb, tb))
                if xs <= tv and not any(tb == t["otherwise"] and v in xs for v, tb in t["targets"]):
                    dead.add((sb, t["otherwise"]))
            for e in dead:
                if e not in avoid:
                    avoid.add(e)
                    changed = True
        if not changed:
            break
        R = body.reach([0], avoid_edges=avoid)
    return R, avoid


def reach_through_edge(body, edge, crate=None, want_avoid=False):
    """Blocks on the paths entry -> .. -> edge -> .., with the flags and locally built verdicts (`let st = if c { A } else { B }; ..
    match st {..}`) folded to what they are on those paths: every edge that leaves the set of blocks from which the edge's
    source is still reachable (other than the edge itself) is excluded, then `specialise` folds what the remaining definitions decide."""
    src, tgt = edge
    pre = {src}
    work = [src]
    while work:
        x = work.pop()
        for p_ in body.pred(x):
            if p_ not in pre:
                pre.add(p_)
                work.append(p_)
    avoid = set()
    for u in pre:
        for v in body.succ(u):
            if (u, v) != (src, tgt) and (v not in pre or u == src):
                avoid.add((u, v))
    R, avoid = specialise(body, avoid, crate)
    return (R, avoid) if want_avoid else R


_INT_CMP = {"Eq": lambda a, b: a == b, "Ne": lambda a, b: a != b, "Lt": lambda a, b: a < b, "Le": lambda a, b: a <= b,
            "Gt": lambda a, b: a > b, "Ge": lambda a, b: a >= b}


def _is_int_ty(ty):
    return ty in ("u8", "u16", "u32", "u64", "u128", "usize", "i8", "i16", "i32", "i64", "i128", "isize")


def _int_consts(body, op, at, R):
    """The set of integer constants an operand can hold at `at` inside R, or None when it is not a set of constants."""
    vals = resolve_values(body, op, at, R)
    out = set()
    for v in vals:
        if not (isinstance(v, tuple) and v[0] == "const") or isinstance(v[1], bool) or not isinstance(v[1], int):
            return None
        out.add(v[1])
    return out or None


def _deref_origins(body, pl):
    """For a place `*r` (r a reference local with one definition chain of plain copies ending in `&P`): [P]."""
    if pl.get("p") != ["*"]:
        return []
    l = pl["l"]
    for _ in range(6):
        ds = [d for d in body.defs().get(l, ()) if d["kind"] != "param"]
        kinds = {json.dumps(d["rv"], sort_keys=True) for d in ds if d["kind"] == "assign" and not d["lhs"]["p"]}
        if not ds or len(kinds) != 1 or any(d["kind"] != "assign" or d["lhs"]["p"] for d in ds):
            return []
        rv = ds[0]["rv"]
        if rv["k"] == "ref":
            return [rv["place"]]
        if rv["k"] == "use" and rv["op"].get("k") in ("copy", "move") and not rv["op"]["place"]["p"]:
            l = rv["op"]["place"]["l"]
            continue
        return []
    return []


def variant_reach(body, crate, adt, V, place_pred=None, want_avoid=False):
    """Blocks reachable when the inspected value of enum `adt` is the variant V: every discriminant switch on such a
    place keeps only the edges whose variant set contains V, and boolean flags whose reaching definitions (inside the
    specialised graph) are all the same constant are folded too (`let b = matches!(x, A | B); if b {..}`)."""
    avoid = set()
    for sb, t, pl, d in discr_switches(body):
        if head_of_type(pl.get("ty", "")) != adt:
            continue
        if place_pred and not place_pred(pl) and not any(place_pred(o) for o in _deref_origins(body, pl)):
            continue
        for tgt, vs in edge_variants(crate, t, adt).items():
            if V not in vs:
                avoid.add((sb, tgt))
    # `x.is_some()` / `x.is_none()` on such a place are variant tests too (Option only)
    if adt == "std::option::Option":
        for sb, t in body.switches():
            if t["op"].get("k") not in ("copy", "move") or t["op"]["place"]["p"]:
                continue
            l = t["op"]["place"]["l"]
            ds = [d for d in body.defs().get(l, ()) if d["kind"] == "call"]
            if len(ds) != 1 or not ds[0]["call"].matches(r"std::option::Option::<T>::is_(some|none)") or len(body.defs().get(l, ())) != 1:
                continue
            c = ds[0]["call"]
            al = operand_local(c.args[0]) if c.args else None
            srcs = {(tl, tuple(tp)) for tl, tp in body.ref_origins().get(al, ())} if al is not None else set()
            hit = any(place_pred({"l": tl, "p": [], "ty": body.locals[tl]["ty"]}) for tl, tp in srcs if not tp) if place_pred else bool(srcs)
            if not hit:
                continue
            zero = [tb for v, tb in t["targets"] if v == 0]
            if not zero or zero[0] == t["otherwise"]:
                continue
            truth = (V == "Some") == (meth(c.path) == "is_some")
            avoid.add((sb, zero[0]) if truth else (sb, t["otherwise"]))
        # ... also when the result is first stored in a flag (`let printing = x.is_some() || ..`)
        known = {}
        for c in body.calls(r"std::option::Option::<T>::is_(some|none)"):
            al = operand_local(c.args[0]) if c.args else None
            srcs = {(tl, tuple(tp)) for tl, tp in body.ref_origins().get(al, ())} if al is not None else set()
            hit = any(place_pred({"l": tl, "p": [], "ty": body.locals[tl]["ty"]}) for tl, tp in srcs if not tp) if place_pred else False
            if hit and not c.dest["p"]:
                known[c.dest["l"]] = (V == "Some") == (meth(c.path) == "is_some")
        KNOWN_BOOLS[id(body)] = known
    try:
        R, avoid = specialise(body, avoid, crate)
    finally:
        KNOWN_BOOLS.pop(id(body), None)
    return (R, avoid) if want_avoid else R


def bool_reach(body, local, value):
    """(reachable blocks, excluded edges) when the bool local/parameter `local` has the constant `value` wherever it is
    tested (directly or through a plain copy), with dependent flags folded."""
    avoid = set()
    for sb, t in body.switches():
        if t["op"].get("k") not in ("copy", "move") or t["op"]["place"]["p"]:
            continue
        l = t["op"]["place"]["l"]
        src = l
        for _ in range(3):
            ds = [d for d in body.defs().get(src, ()) if d["kind"] != "param"]
            if src != local and len(ds) == 1 and ds[0]["kind"] == "assign" and ds[0]["rv"]["k"] == "use" and operand_local(ds[0]["rv"]["op"]) is not None \
                    and not ds[0]["rv"]["op"]["place"]["p"]:
                src = operand_local(ds[0]["rv"]["op"])
        if src != local:
            continue
        zero = [tb for v, tb in t["targets"] if v == 0]
        if not zero or zero[0] == t["otherwise"]:
            continue
        avoid.add((sb, zero[0]) if value else (sb, t["otherwise"]))
    return specialise(body, avoid)


def closures_consumed(crate, b):
    """(closure body, consuming call, arg index) for closures constructed in b and passed to a call."""
    out = []
    for i, j, s in b.assigns():
        rv = s["rv"]
        if rv["k"] == "agg" and rv["ak"] == "closure" and rv["def"] in crate.bodies:
            l = s["lhs"]["l"]
            for c in b.calls():
                for k, a in enumerate(c.args):
                    if operand_local(a) == l and (i == c.bb or c.bb in b.reach_after(i)):
                        out.append((crate.bodies[rv["def"]], c, k))
    return out


WRITE_FNS = (r"std::fmt::Write::write_char", r"std::fmt::Formatter::<'a>::write_char", r"std::fmt::Write::write_str", r"std::fmt::Formatter::<'a>::write_str")


def repeated_writes(crate, b):
    """Formatter writes of body b that are executed a counted number of times. Each entry:
    dict(call, host, site, form, start, bound) — `host` is the body containing the write call (b, or a closure),
    `site` the block of b at which the repetition happens, start/bound operands of b (range 0..n) or None.
    Forms: 'loop' (for _ in a..b), 'closure' ((a..b).try_for_each(|_| write) / for_each)."""
    out = []
    ranges = [(i, s) for i, j, s in b.assigns() if s["rv"]["k"] == "agg" and str(s["rv"].get("adt", "")).endswith("::Range") and len(s["rv"]["ops"]) == 2]
    for c in b.calls(*WRITE_FNS):
        if b.in_loop(c.bb):
            # the range whose iterator drives this loop: the closest Range aggregate that reaches the loop
            cand = [(i, s) for i, s in ranges if c.bb in b.reach_after(i) or c.bb == i]
            cand = [(i, s) for i, s in cand if not any(i2 in b.reach_after(i) and (c.bb in b.reach_after(i2)) and not b.in_loop(i2) and i2 != i for i2, s2 in cand)]
            i, s = cand[-1] if cand else (None, None)
            out.append({"call": c, "host": b, "site": c.bb, "form": "loop", "start": s["rv"]["ops"][0] if s else None,
                        "bound": s["rv"]["ops"][1] if s else None, "range_bb": i})
    for cb, k, argi in closures_consumed(crate, b):
        if not k.matches(r"std::iter::Iterator::(try_for_each|for_each)"):
            continue
        rsl = b.slice_args(k, [0])
        rng = [(i, s) for i, s in ranges if any(d.get("bb") == i and d.get("kind") == "assign" and d["rv"] is s["rv"] for d in rsl.defs)] or \
              [(i, s) for i, s in ranges if i == k.bb or k.bb in b.reach_after(i)]
        i, s = rng[-1] if rng else (None, None)
        for c in cb.calls(*WRITE_FNS):
            if cb.in_loop(c.bb):
                continue
            out.append({"call": c, "host": cb, "site": k.bb, "form": "closure", "start": s["rv"]["ops"][0] if s else None,
                        "bound": s["rv"]["ops"][1] if s else None, "range_bb": i})
    return out


def bool_values_under(body, R, op, at, depth=0):
    """Possible constant values of a bool operand at block `at` when only the blocks R can execute: constants, copies and
    `Not` are followed through reaching definitions inside R. Returns a set over {True, False, '?'}."""
    if depth > 6 or not isinstance(op, dict):
        return {"?"}
    if op.get("k") == "const":
        return {op["v"]} if isinstance(op.get("v"), bool) else {"?"}
    if op["place"]["p"]:
        return {"?"}
    l = op["place"]["l"]
    vals = set()
    for d in body.defs().get(l, ()):
        if d["kind"] == "param":
            vals.add("?")
            continue
        if d.get("bb", -1) not in R or not body.def_reaches(d, at):
            continue
        if d["kind"] == "assign" and not d["lhs"]["p"]:
            rv = d["rv"]
            if rv["k"] == "use":
                vals |= bool_values_under(body, R, rv["op"], d["bb"], depth + 1)
            elif rv["k"] == "un" and rv.get("op") == "Not":
                inner = bool_values_under(body, R, rv["a"], d["bb"], depth + 1)
                vals |= {(not v) if isinstance(v, bool) else v for v in inner}
            else:
                vals.add("?")
        else:
            vals.add("?")
    return vals or {"?"}
