"""Engine C: lock-order + join graph over lock classes.

Lock classes are the guarded types found in the crate (Mutex<T>/RwLock<T> acquisitions): the class is
T's printed type. J(f) is the pseudo-class of JoinHandle::join on a thread whose body is f.
"""
import re
from collections import defaultdict

from . import common as K
from .facts import Call, operand_local

ACQUIRE = (r"std::sync::Mutex::<T>::lock", r"std::sync::RwLock::<T>::read", r"std::sync::RwLock::<T>::write")
TRY_ACQUIRE = (r"std::sync::Mutex::<T>::try_lock", r"std::sync::RwLock::<T>::try_read", r"std::sync::RwLock::<T>::try_write")
JOIN = (r"std::thread::JoinHandle::<T>::join",)
SPAWN = (r"std::thread::spawn", r"std::thread::Builder::spawn", r"std::thread::scope.*", r"std::thread::Scope::.*spawn.*")
CONDVAR_WAIT = (r"std::sync::Condvar::wait", r"std::sync::Condvar::wait_while", r"std::sync::Condvar::wait_timeout",
                r"std::sync::Condvar::wait_timeout_while", r"std::sync::Condvar::wait_timeout_ms")
OTHER_BLOCKING = (r"std::thread::sleep", r"std::thread::park", r"std::thread::park_timeout", r"std::thread::sleep_ms",
                  r"std::sync::mpsc::Receiver::<T>::recv.*", r"std::sync::Barrier::wait")

SHORT = {"state::BarState": "B", "std::option::Option<progress_bar::Ticker>": "T", "multi::MultiState": "M", "bool": "S",
         "in_memory::InMemoryTermState": "I"}


def cname(c):
    if c.startswith("J("):
        return c
    return "%s[%s]" % (SHORT.get(c, "?"), c)


def guard_classes(local):
    return {g[1] for g in local.get("guards", [])}


class HeldAnalysis:
    """Path-sensitive (in drop flags only) forward analysis of which guard-holding locals are live."""

    def __init__(self, body, track=None):
        self.b = body
        self.track = track or (lambda l: bool(body.locals[l].get("guards")))
        self.flags = self._flag_locals()
        self.at = defaultdict(set)   # bb -> set of frozenset(held locals) on entry
        self._run()

    def _flag_locals(self):
        b = self.b
        cand = {i for i, l in enumerate(b.locals) if l["ty"] == "bool" and i > b.arg_count}
        for bb in range(b.n):
            for s in b.blocks[bb]["stmts"]:
                if s["k"] == "assign" and s["lhs"]["l"] in cand:
                    rv = s["rv"]
                    if s["lhs"]["p"] or rv["k"] != "use" or rv["op"]["k"] != "const" or not isinstance(rv["op"].get("v"), bool):
                        cand.discard(s["lhs"]["l"])
            t = b.blocks[bb]["term"]
            if t and t["k"] == "call" and t["dest"]["l"] in cand:
                cand.discard(t["dest"]["l"])
        return cand

    def _moved(self, op):
        if op and op["k"] == "move":
            return op["place"]["l"]
        return None

    def _step_stmts(self, bb, held, flags):
        b = self.b
        held = set(held)
        flags = dict(flags)
        for s in b.blocks[bb]["stmts"]:
            if s["k"] != "assign":
                continue
            rv = s["rv"]
            lhs = s["lhs"]["l"]
            if lhs in self.flags and not s["lhs"]["p"]:
                flags[lhs] = rv["op"]["v"]
                continue
            ops = []
            if rv["k"] in ("use", "cast"):
                ops = [rv["op"]]
            elif rv["k"] == "agg":
                ops = rv["ops"]
            moved_tracked = False
            for o in ops:
                m = self._moved(o)
                if m is not None and m in held:
                    held.discard(m)
                    moved_tracked = True
            if moved_tracked and self.track(lhs) and not s["lhs"]["p"]:
                held.add(lhs)
            elif moved_tracked and s["lhs"]["p"] and self.track(lhs):
                held.add(lhs)
        return held, flags

    def _run(self):
        b = self.b
        init = (frozenset(l for l in range(1, b.arg_count + 1) if self.track(l)), frozenset())
        work = [(0, init)]
        seen = set()
        self.site_held = defaultdict(set)   # bb -> set of held-local frozensets at the terminator
        while work:
            bb, (held, flags) = work.pop()
            if (bb, held, flags) in seen:
                continue
            seen.add((bb, held, flags))
            self.at[bb].add(held)
            h, f = self._step_stmts(bb, held, dict(flags))
            self.site_held[bb].add(frozenset(h))
            t = b.blocks[bb]["term"]
            if not t:
                continue
            k = t["k"]
            nh = set(h)
            succs = list(b.succ(bb))
            if k == "call":
                for a in t["args"]:
                    m = self._moved(a)
                    if m is not None:
                        nh.discard(m)
                d = t["dest"]["l"]
                if self.track(d):
                    nh.add(d)
            elif k == "drop":
                if not t["place"]["p"]:
                    nh.discard(t["place"]["l"])
            elif k == "switch":
                l = operand_local(t["op"])
                if l in f and not t["op"]["place"]["p"]:
                    val = int(f[l])
                    tgt = t["otherwise"]
                    for v, x in t["targets"]:
                        if v == val:
                            tgt = x
                    succs = [tgt] if tgt in b.raw_succ(bb) or True else succs
            st = (frozenset(nh), frozenset(f.items()))
            for s in succs:
                work.append((s, st))

    def held_at_term(self, bb):
        """Union over paths of guard-holding locals live when the terminator of bb executes."""
        out = set()
        for h in self.site_held.get(bb, ()):
            out |= h
        return out


class LockGraph:
    def __init__(self, crate):
        self.crate = crate
        self.bodies = {b.name: b for b in K.lib_bodies(crate)}
        # in_memory.rs is a TermLike implementation reachable through dyn TermLike: include its bodies
        for n, b in crate.bodies.items():
            self.bodies.setdefault(n, b)
        self.held = {}
        self.thread_bodies = self._threads()
        self.direct = {}     # body -> set of (class, line, kind)
        self.acq = {}
        self.edges = defaultdict(list)   # (from, to) -> witnesses
        self.block_sites = []            # (body, bb, call, held classes)
        self._direct()
        self._fix()
        self._edges()

    def _threads(self):
        out = {}
        for n, b in self.bodies.items():
            for c in b.calls(*SPAWN):
                for a in c.args:
                    sl = b.slice([a], at=c.bb, through_calls=False)
                    for at in sl.atoms:
                        if at[0] == "closure" and at[1] in self.crate.bodies:
                            out[at[1]] = c
        return out

    def jclass(self):
        return ["J(%s)" % t for t in sorted(self.thread_bodies)]

    def _direct(self):
        for n, b in self.bodies.items():
            d = set()
            for c in b.calls(*ACQUIRE):
                ta = c.callee.get("targs", [])
                if ta:
                    d.add((ta[0], c.line, K.meth(c.path)))
            for c in b.calls(*JOIN):
                for j in self.jclass():
                    d.add((j, c.line, "join"))
            self.direct[n] = d

    def callees(self, b):
        """Crate bodies that run on the caller's stack: direct calls, closures handed to any call
        (std combinators invoke them), drop glue; not thread::spawn closures."""
        out = set()
        cr = self.crate
        for c in b.calls():
            if c.matches(*SPAWN):
                continue
            for t in cr.resolve_targets(c):
                out.add(t)
            for a in c.args:
                if a["k"] == "const" and a.get("fn") in cr.bodies:
                    out.add(a["fn"])
                if a["k"] == "const" and a.get("closure") in cr.bodies:
                    out.add(a["closure"])
                l = operand_local(a)
                if l is not None and b.locals[l].get("head") == "closure" and b.locals[l].get("closure") in cr.bodies:
                    out.add(b.locals[l]["closure"])
        for bb, t in b.drops():
            for (_ty, fn) in t["tyf"].get("drops", []):
                if fn in cr.bodies:
                    out.add(fn)
        return out

    def _fix(self):
        self.cg = {n: self.callees(b) for n, b in self.bodies.items()}
        acq = {n: {c for c, _, _ in d} for n, d in self.direct.items()}
        changed = True
        while changed:
            changed = False
            for n in self.bodies:
                for m in self.cg[n]:
                    extra = acq.get(m, set()) - acq[n]
                    if extra:
                        acq[n] |= extra
                        changed = True
        self.acq = acq

    def why(self, n, cls, depth=0, seen=None):
        """A call chain from body n to a direct acquisition of cls."""
        seen = seen or set()
        if n in seen or depth > 12:
            return None
        seen.add(n)
        for c, line, kind in self.direct.get(n, ()):
            if c == cls:
                return ["%s:%d %s %s()" % (self.bodies[n].file, line, n, kind)]
        for m in sorted(self.cg.get(n, ())):
            if cls in self.acq.get(m, ()):
                r = self.why(m, cls, depth + 1, seen)
                if r:
                    return ["%s -> %s" % (n, m)] + r
        return None

    def _edges(self):
        cr = self.crate
        for n, b in self.bodies.items():
            ha = HeldAnalysis(b)
            self.held[n] = ha
            for bb in sorted(b.reachable()):
                t = b.term(bb)
                if not t or t["k"] not in ("call", "drop"):
                    continue
                hl = ha.held_at_term(bb)
                classes = set()
                for l in hl:
                    classes |= guard_classes(b.locals[l])
                if t["k"] == "call":
                    c = Call(b, bb, t)
                    # a guard moved into the call is released/handled by the callee, but still held during the call
                    # (e.g. Condvar::wait releases it: handled below)
                    acquired = set()
                    if c.matches(*ACQUIRE):
                        ta = c.callee.get("targs", [])
                        if ta:
                            acquired.add(ta[0])
                    if c.matches(*JOIN):
                        acquired |= set(self.jclass())
                    if not c.matches(*SPAWN):
                        for tg in cr.resolve_targets(c):
                            acquired |= self.acq.get(tg, set())
                        for a in c.args:
                            for key in ("fn", "closure"):
                                if a["k"] == "const" and a.get(key) in cr.bodies:
                                    acquired |= self.acq.get(a[key], set())
                            l = operand_local(a)
                            if l is not None and b.locals[l].get("head") == "closure" and b.locals[l].get("closure") in cr.bodies:
                                acquired |= self.acq.get(b.locals[l]["closure"], set())
                    if c.matches(*CONDVAR_WAIT):
                        own = set()
                        for a in c.args:
                            l = operand_local(a)
                            if l is not None:
                                own |= guard_classes(b.locals[l])
                        self.block_sites.append((b, bb, c, classes - own, own))
                    elif c.matches(*OTHER_BLOCKING) or c.matches(*JOIN):
                        self.block_sites.append((b, bb, c, set(classes), set()))
                    what = c.path
                    line = c.line
                else:
                    acquired = set()
                    for (_ty, fn) in t["tyf"].get("drops", []):
                        if fn in cr.bodies:
                            acquired |= self.acq.get(fn, set())
                    # dropping the place itself releases it
                    if not t["place"]["p"]:
                        classes -= guard_classes(b.locals[t["place"]["l"]]) if len(hl) and t["place"]["l"] in hl else set()
                    what = "drop(%s)" % t["tyf"]["ty"]
                    line = t.get("line", 0)
                for h in classes:
                    for a in acquired:
                        self.edges[(h, a)].append({"fn": n, "file": b.file, "line": line, "what": what, "held": sorted(classes)})
        for tb in self.thread_bodies:
            for a in self.acq.get(tb, ()):
                self.edges[("J(%s)" % tb, a)].append({"fn": tb, "file": self.crate.bodies[tb].file, "line": self.crate.bodies[tb].line,
                                                     "what": "thread body may acquire", "held": []})

    def nodes(self):
        ns = set()
        for (a, b) in self.edges:
            ns.add(a)
            ns.add(b)
        return ns

    def cycles(self):
        """All elementary cycles (small graph): list of node lists."""
        adj = defaultdict(set)
        for (a, b) in self.edges:
            adj[a].add(b)
        out = []
        nodes = sorted(self.nodes())
        for i, s in enumerate(nodes):
            stack = [(s, [s])]
            while stack:
                n, path = stack.pop()
                for m in sorted(adj[n]):
                    if m == s:
                        out.append(list(path))
                    elif m not in path and m > s:
                        stack.append((m, path + [m]))
        return out
