"""Affine (linear-form) value analysis over MIR: the value of an integer operand as a linear combination of atoms.

An atom is something the analysis does not look into: the result of a call (keyed by callee and the forms of its
arguments, so `self.str.len()` evaluated in three arms is one atom), a field read, `x / k`, `min/max`, an unknown local.
`saturating_sub/add` are treated as plain `-`/`+` (the identities checked with this module are conservation laws that
hold on the non-saturated branch; a rule says so where it matters). Forms are dicts atom -> int coefficient; the
constant term has the atom `1`."""
import json

from .facts import operand_local, const_val

ADD = ("Add", "AddWithOverflow", "AddUnchecked")
SUB = ("Sub", "SubWithOverflow", "SubUnchecked")
SAT_SUB = r"core::num::<impl (usize|u64|u32|u16|u8)>::(saturating_sub|wrapping_sub|checked_sub)"
SAT_ADD = r"core::num::<impl (usize|u64|u32|u16|u8)>::(saturating_add|wrapping_add|checked_add)"
PASS = (r"std::convert::(From::from|Into::into)", r"std::option::Option::<T>::(unwrap|unwrap_or_default)", r"std::clone::Clone::clone")


def add(a, b, kb=1):
    out = dict(a)
    for k, v in b.items():
        out[k] = out.get(k, 0) + kb * v
        if out[k] == 0:
            del out[k]
    return out


def scale(a, k):
    return {x: v * k for x, v in a.items() if v * k != 0}


def freeze(f):
    for k in f:
        if k != 1:
            _ATOMS[str(k)] = k
    return tuple(sorted((str(k), v) for k, v in f.items()))


def place_atom(b, pl):
    """Atom of a place read: field names along the projection (base local dropped when it is a reference parameter)."""
    names = []
    for e in pl["p"]:
        if isinstance(e, dict) and "f" in e:
            names.append(str(e.get("n", e["f"])))
        elif isinstance(e, dict) and "dc" in e:
            names.append("as:" + str(e["dc"]))
    base = pl["l"]
    if 1 <= base <= b.arg_count:
        return ("place", "param%d" % base, tuple(names))
    return ("place", "_%d" % base, tuple(names))


def linform(b, op, at, depth=0):
    """Linear form of an operand evaluated at block `at`."""
    if not isinstance(op, dict):
        return {("?",): 1}
    if op.get("k") == "const":
        v = const_val(op)
        if isinstance(v, bool) or not isinstance(v, int):
            return {("const", str(v)): 1}
        return {1: v} if v else {}
    pl = op["place"]
    l = pl["l"]
    if depth > 60:
        return {("loc", l): 1}
    if pl["p"]:
        # tuple component of a checked arithmetic op: `_t = SubWithOverflow(a, b); x = move _t.0`
        if len(pl["p"]) == 1 and isinstance(pl["p"][0], dict) and pl["p"][0].get("f") == 0:
            ds = [d for d in b.defs().get(l, ()) if d["kind"] == "assign" and not d["lhs"]["p"] and b.def_reaches(d, at)]
            if len(ds) == 1 and ds[0]["rv"]["k"] == "bin" and ds[0]["rv"]["op"] in ADD + SUB:
                return _bin(b, ds[0]["rv"], ds[0]["bb"], depth)
            # component of a tuple built by an aggregate
            if len(ds) == 1 and ds[0]["rv"]["k"] == "agg" and ds[0]["rv"].get("ak") == "tuple":
                return linform(b, ds[0]["rv"]["ops"][0], ds[0]["bb"], depth + 1)
        if len(pl["p"]) == 1 and isinstance(pl["p"][0], dict) and isinstance(pl["p"][0].get("f"), int):
            ds = [d for d in b.defs().get(l, ()) if d["kind"] == "assign" and not d["lhs"]["p"] and b.def_reaches(d, at)]
            if len(ds) == 1 and ds[0]["rv"]["k"] == "agg" and ds[0]["rv"].get("ak") in ("tuple", "adt") and pl["p"][0]["f"] < len(ds[0]["rv"]["ops"]):
                return linform(b, ds[0]["rv"]["ops"][pl["p"][0]["f"]], ds[0]["bb"], depth + 1)
            if len(ds) == 1 and ds[0]["rv"]["k"] == "use" and ds[0]["rv"]["op"].get("k") in ("copy", "move"):
                o = ds[0]["rv"]["op"]
                return linform(b, {"k": "copy", "place": {"l": o["place"]["l"], "p": list(o["place"]["p"]) + list(pl["p"])}}, ds[0]["bb"], depth + 1)
        return {place_atom(b, pl): 1}
    if 1 <= l <= b.arg_count:
        return {("param", l): 1}
    ds = [d for d in b.defs().get(l, ()) if d["kind"] in ("assign", "call") and not d.get("via_ref") and not d["lhs"]["p"] and b.def_reaches(d, at)]
    if len(ds) != 1:
        return {("loc", l): 1}
    d = ds[0]
    if d["kind"] == "assign":
        rv = d["rv"]
        if rv["k"] in ("use", "cast"):
            return linform(b, rv["op"], d["bb"], depth + 1)
        if rv["k"] == "bin":
            return _bin(b, rv, d["bb"], depth)
        if rv["k"] in ("copyderef", "ref"):
            return {place_atom(b, rv["place"]): 1}
        return {("loc", l): 1}
    c = d["call"]
    import re
    if re.fullmatch(SAT_SUB, c.path) and len(c.args) == 2:
        return add(linform(b, c.args[0], c.bb, depth + 1), linform(b, c.args[1], c.bb, depth + 1), -1)
    if re.fullmatch(SAT_ADD, c.path) and len(c.args) == 2:
        return add(linform(b, c.args[0], c.bb, depth + 1), linform(b, c.args[1], c.bb, depth + 1))
    if c.matches(*PASS) and c.args:
        return linform(b, c.args[0], c.bb, depth + 1)
    if c.path.endswith("str::<impl str>::len") and c.args:
        cs = const_str_of(b, c.args[0], c.bb)
        if cs is not None:
            n = len(cs.encode("utf-8"))
            return {1: n} if n else {}
    # opaque call: keyed by the callee and what it is applied to
    args = tuple(freeze(_argform(b, a, c.bb, depth)) for a in c.args)
    return {("call", c.path, args): 1}


def const_str_of(b, op, at, depth=0):
    """The string constant an operand (a `&str`, possibly through reborrows and copies) denotes, or None."""
    if not isinstance(op, dict) or depth > 8:
        return None
    if op.get("k") == "const":
        v = const_val(op)
        return v if isinstance(v, str) and "str" in op.get("ty", "&str") else None
    pl = op["place"]
    if [e for e in pl["p"] if e != "*"]:
        return None
    ds = [d for d in b.defs().get(pl["l"], ()) if d["kind"] in ("assign", "call") and b.def_reaches(d, at)]
    if len(ds) != 1 or ds[0]["kind"] != "assign" or ds[0]["lhs"]["p"]:
        return None
    rv = ds[0]["rv"]
    if rv["k"] == "use":
        return const_str_of(b, rv["op"], ds[0]["bb"], depth + 1)
    if rv["k"] in ("ref", "copyderef") and not [e for e in rv["place"]["p"] if e != "*"]:
        return const_str_of(b, {"k": "copy", "place": {"l": rv["place"]["l"], "p": []}}, ds[0]["bb"], depth + 1)
    return None


def fold_divrem(f):
    """L*(x div L) + (x rem L) = x, for a constant L: rewrite such pairs in a form."""
    out = dict(f)
    for k, v in list(f.items()):
        if isinstance(k, tuple) and k[0] == "rem" and k in out:
            x, L = k[1], k[2]
            dk = ("div", x, L)
            Ld = dict(L)
            if set(Ld) == {"1"} and dk in out and out[dk] == Ld["1"] * out[k]:
                m = out[k]
                del out[k]
                del out[dk]
                out = add(out, _thaw(x), m)
    return out


def _thaw(fr):
    return {(1 if k == "1" else _unstr(k)): v for k, v in fr}


_ATOMS = {}


def _unstr(s):
    return _ATOMS.get(s, ("frozen", s))


def _argform(b, a, at, depth):
    """Form of a call argument; a reference argument stands for the place it borrows."""
    l = operand_local(a) if isinstance(a, dict) and a.get("k") != "const" else None
    if l is not None and not a["place"]["p"] and b.locals[l]["ty"].startswith("&"):
        ds = [d for d in b.defs().get(l, ()) if d["kind"] in ("assign", "call") and b.def_reaches(d, at)]
        if len(ds) == 1 and ds[0]["kind"] == "assign" and ds[0]["rv"]["k"] in ("ref", "copyderef"):
            pl = ds[0]["rv"]["place"]
            if pl["p"] == ["*"]:
                return _argform(b, {"k": "copy", "place": {"l": pl["l"], "p": []}}, ds[0]["bb"], depth + 1)
            return {place_atom(b, pl): 1}
        if len(ds) == 1 and ds[0]["kind"] == "assign" and ds[0]["rv"]["k"] == "use":
            return _argform(b, ds[0]["rv"]["op"], ds[0]["bb"], depth + 1)
        if len(ds) == 1 and ds[0]["kind"] == "call" and ds[0]["call"].matches(r"std::ops::Deref::deref", r"std::string::String::as_str") and ds[0]["call"].args:
            return _argform(b, ds[0]["call"].args[0], ds[0]["call"].bb, depth + 1)
        if 1 <= l <= b.arg_count:
            return {("param", l): 1}
        return {("ref", l): 1}
    return linform(b, a, at, depth + 1)


def _bin(b, rv, at, depth):
    x, y = linform(b, rv["a"], at, depth + 1), linform(b, rv["b"], at, depth + 1)
    op = rv["op"]
    if op in ADD:
        return add(x, y)
    if op in SUB:
        return add(x, y, -1)
    if op in ("Mul", "MulWithOverflow"):
        for p, q in ((x, y), (y, x)):
            if set(p) <= {1}:
                return scale(q, p.get(1, 0))
    if op in ("Div", "Rem", "Shr", "Shl", "BitAnd"):
        return {(op.lower(), freeze(x), freeze(y)): 1}
    return {("bin", op, freeze(x), freeze(y)): 1}


def show(f):
    if not f:
        return "0"
    parts = []
    for k, v in sorted(f.items(), key=lambda kv: str(kv[0])):
        name = "1" if k == 1 else (k[-1] if isinstance(k, tuple) and k[0] in ("place",) else k)
        parts.append("%+d*%s" % (v, json.dumps(name, default=str)[:60]))
    return " ".join(parts)
