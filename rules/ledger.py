"""Engine D: panic-edge ledger.

A panic edge is an Assert terminator, a call to a curated list of panicking std APIs, or a diverging
call. Each edge gets an abstract signature (kind + operand provenance) that does not mention crate
function names, local names or line numbers; per property the multiset of signatures in scope is
compared with the audited table rules/panic_audit.toml. More occurrences than audited, or a new
signature, is a violation; fewer is fine.
"""
import os
import json
import re
import tomllib
from collections import Counter, defaultdict

from . import common as K
from .facts import place_fields as K_place_fields
from .facts import Call, operand_local, is_const, const_val

HERE = os.path.dirname(os.path.abspath(__file__))

PANICKING = [
    (r"std::option::Option::<T>::(unwrap|expect)", "unwrap:Option"),
    (r"std::result::Result::<T, E>::(unwrap|expect|unwrap_err|expect_err)", "unwrap:Result"),
    (r"std::ops::Index::index|std::ops::IndexMut::index_mut", "index"),
    (r"std::ops::(Add|Sub|Mul|Div|Rem|AddAssign|SubAssign|MulAssign|DivAssign)::\w+", "op"),   # filtered to Duration/Instant below
    (r"std::time::Duration::(from_secs_f64|from_secs_f32|new|mul_f64|mul_f32|div_f64|div_f32)", "duration-ctor"),
    (r"std::vec::Vec::<T, A>::(insert|remove|swap_remove|drain|split_off|truncate)", "vec"),
    (r"core::slice::<impl \[T\]>::(copy_from_slice|clone_from_slice|split_at|split_at_mut|chunks|chunks_exact|windows|swap|rotate_left|rotate_right)", "slice"),
    (r"std::string::String::(insert|insert_str|remove|truncate|split_off|replace_range|drain)", "string"),
    (r"core::str::<impl str>::(split_at|split_at_mut)", "str"),
    (r"std::char::from_digit|core::char::methods::<impl char>::from_digit|core::char::methods::<impl char>::to_digit", "char-digit"),
    (r"std::cell::RefCell::<T>::(borrow|borrow_mut)", "refcell"),
    (r"std::iter::Iterator::step_by", "step_by"),
    (r"core::num::<impl \w+>::(pow|div_euclid|rem_euclid|next_power_of_two|abs|isqrt|ilog\w*)", "num"),
    (r"core::fmt::rt::Argument::<'_>::from_usize", "fmt-count"),     # runtime width / precision: core::fmt panics above u16::MAX
    (r"std::thread::spawn", "spawn"),
    (r"std::time::SystemTime::.*", "systime"),
]

SHORTEN = [
    (r"^std::vec::Vec::<T, A>::", "Vec::"), (r"^std::vec::Vec::<T>::", "Vec::"), (r"^core::slice::<impl \[T\]>::", "slice::"),
    (r"^std::str::<impl str>::", "str::"), (r"^core::str::<impl str>::", "str::"), (r"^std::string::String::", "String::"),
    (r"^std::option::Option::<T>::", "Option::"), (r"^std::result::Result::<T, E>::", "Result::"),
    (r"^core::num::<impl (\w+)>::", r"\1::"), (r"^std::collections::HashMap::<K, V, S>::", "HashMap::"),
    (r"^std::time::", "time::"), (r"^std::iter::Iterator::", "Iterator::"), (r"^std::cmp::", "cmp::"),
    (r"^std::ops::", "ops::"), (r"^std::convert::", "convert::"), (r"^console::", "console::"),
]


def short_path(p):
    for a, b in SHORTEN:
        p2 = re.sub(a, b, p)
        if p2 != p:
            return p2
    return p


MEASURES = ("len", "count", "as_usize", "capacity", "width", "chars", "as_secs", "as_millis", "as_nanos", "subsec_nanos")


INT_TYS = ("usize", "u64", "u32", "u16", "u8", "isize", "i64", "i32", "i16", "i8")
CRATE = [None]


def _param_through_callers(body, i, depth):
    """An integer parameter of a crate-private, non-trait, non-closure function stands for what its
    (in-crate, direct) callers pass: its provenance is the union of theirs. Keeps edge signatures stable
    when a block of a function is extracted into a private helper. None = keep the atom `param`."""
    crate = CRATE[0]
    if crate is None or depth >= 2 or body.kind == "Closure" or body.api or (body.impl or {}).get("trait"):
        return None
    if not isinstance(i, int) or i < 1 or i > body.arg_count or body.locals[i]["ty"] not in INT_TYS:
        return None
    sites = [c for c in crate.callers().get(body.name, ()) if c.path == body.name or c.generic == body.name]
    if not sites or len(sites) > 4:
        return None
    out = set()
    for c in sites:
        if len(c.args) < i:
            return None
        pv = prov(c.body, c.args[i - 1], c.bb, depth + 1)
        if pv == "?":
            return None
        out |= set(pv.split("+"))
    return out


def _param_names(body, sl):
    """'param' if the slice reads a parameter other than the closure environment (parameter 1)."""
    return {"param"} if any(p != 1 for p in sl.params()) else set()


def _upvar_index(body, name):
    for blk in body.blocks:
        for st in blk.get("stmts", []):
            for pl in _places_of(st):
                for e in pl.get("p", []):
                    if isinstance(e, dict) and e.get("adt") == "closure" and str(e.get("n")) == str(name) and "f" in e:
                        return e["f"]
    return None


def _places_of(x):
    if isinstance(x, dict):
        if "l" in x and "p" in x:
            yield x
        for v in x.values():
            yield from _places_of(v)
    elif isinstance(x, list):
        for v in x:
            yield from _places_of(v)


def _upvar_through_parent(body, name, depth):
    """A captured variable of a closure stands for the operand captured where the closure is built."""
    crate = CRATE[0]
    if crate is None or depth >= 2 or body.kind != "Closure":
        return None
    parent = crate.bodies.get(body.parent) if getattr(body, "parent", None) else None
    if parent is None:
        return None
    k = _upvar_index(body, name)
    if k is None:
        return None
    for i, j, st in parent.assigns():
        rv = st["rv"]
        if rv["k"] == "agg" and rv.get("ak") == "closure" and rv.get("def") == body.name and k < len(rv["ops"]):
            pv = prov(parent, rv["ops"][k], i, depth + 1)
            if pv == "?":
                return None
            return set(pv.split("+"))
    return None


def prov(body, op, at, depth=0):
    """Provenance descriptor of an operand: sorted '+'-joined set of root descriptors."""
    if not isinstance(op, dict):
        return "?"
    if op.get("k") == "const":
        v = op.get("v")
        if isinstance(v, bool):
            return "const"
        if isinstance(v, int) and -4 <= v <= 64:
            return "const:%d" % v
        return "const"
    sl = body.slice(op, at=at, through_calls=False)
    out = set()
    drop_env = False
    sub_has_param = [False]
    for a in sl.atoms:
        if a[0] == "const":
            v = a[1]
            out.add("const:%d" % v if isinstance(v, int) and not isinstance(v, bool) and -4 <= v <= 64 else "const")
        elif a[0] == "param":
            sub = _param_through_callers(body, a[1], depth)
            if sub is None:
                out.add("param")
            else:
                out |= sub
        elif a[0] == "field":
            adt = a[1]
            if adt in ("closure",):
                sub = _upvar_through_parent(body, a[2], depth)
                if sub is None:
                    out.add("upvar")
                else:
                    out |= sub
                    drop_env = True
                    if "param" in sub:
                        sub_has_param[0] = True
            elif adt == "tuple" or adt.startswith("std::") or adt.startswith("core::"):
                continue
            else:
                out.add("field:%s.%s" % (adt.rsplit("::", 1)[-1], a[2]))
    for c in sl.calls:
        name = short_path(c.generic)
        if c.matches(r"std::convert::(From::from|Into::into)") and c.args and depth < 3 and \
                body.locals[c.dest["l"]]["ty"] in INT_TYS + ("u128", "i128") and not c.dest["p"]:
            # a lossless integer widening (`u128::from(x)` instead of `x as u128`) is the value it converts
            sub = prov(body, c.args[0], c.bb, depth + 1)
            if sub != "?":
                out |= set(sub.split("+"))
                continue
        if c.callee.get("local"):
            out.add("call:crate")
        elif K.meth(c.generic) in MEASURES and depth < 2 and c.args:
            out.add("%s(%s)" % (name, prov(body, c.args[0], c.bb, depth + 1)))
        else:
            out.add("call:%s" % name)
    if drop_env and body.kind == "Closure" and not sub_has_param[0] and "param" in out and not _param_names(body, sl):
        out.discard("param")       # only the closure environment itself, now replaced by what it captured
    if not out:
        return "?"
    return "+".join(sorted(out))


class Edge:
    __slots__ = ("body", "bb", "kind", "sig", "line", "detail", "discharge", "meta")

    def __init__(self, body, bb, kind, sig, line, detail):
        self.body, self.bb, self.kind, self.sig, self.line, self.detail = body, bb, kind, sig, line, detail
        self.discharge = None
        self.meta = {}

    def loc(self):
        return "%s:%d" % (self.body.file, self.line)


def const_str_in(body, call):
    """A constant string flowing into a (panic) call: the message."""
    sl = body.slice_args(call)
    strs = [a[1] for a in sl.atoms if a[0] == "const" and isinstance(a[1], str) and len(a[1]) > 3]
    return sorted(strs)[0] if strs else ""


def panic_edges(crate, body):
    out = []
    r = body.reachable()
    for bb in sorted(r):
        t = body.term(bb)
        if not t:
            continue
        if t["k"] == "assert":
            msg = t["msg"]
            if msg in ("MisalignedPointer", "NullPointer", "InvalidEnum", "Other"):
                continue
            ops = t["ops"]
            if msg in ("DivisionByZero", "RemainderByZero"):
                # the assert message carries the dividend; the divisor is in the condition `divisor == 0`
                dv = divisor_of(body, t["cond"], bb)
                if dv is not None:
                    ops = [dv]
            sig = "%s[%s]" % (msg, ", ".join(prov(body, o, bb) for o in ops))
            e = Edge(body, bb, "assert", sig, t.get("line", 0), "assert %s" % msg)
            e.meta["ops"] = ops
            e.meta["msg"] = msg
            out.append(e)
        elif t["k"] == "call":
            c = Call(body, bb, t)
            if t["t"] is None:
                # diverging call
                if c.matches(r"std::ops::FnOnce::call_once|std::ops::Fn::call|std::ops::FnMut::call_mut"):
                    continue
                m = const_str_in(body, c)
                sig = "diverge:%s[%s]" % (short_path(c.generic), m[:60])
                out.append(Edge(body, bb, "diverge", sig, c.line, "diverging call %s" % c.path))
                continue
            for pat, kind in PANICKING:
                if not c.matches(pat):
                    continue
                if kind == "op":
                    ta = c.callee.get("targs", [])
                    if not ta or not re.match(r"std::time::(Duration|Instant)", ta[0]):
                        break
                    if len(ta) > 1 and ta[0] == "std::time::Instant" and ta[1] == "std::time::Instant":
                        break  # Instant - Instant saturates (std >= 1.60), it does not panic
                    sig = "op:%s<%s>[%s]" % (K.meth(c.generic), ",".join(x.rsplit("::", 1)[-1] for x in ta[:2]),
                                             ", ".join(prov(body, a, bb) for a in c.args))
                elif kind.startswith("unwrap"):
                    ta = c.callee.get("targs", [])
                    tys = ",".join(short_ty(x) for x in ta[:2])
                    sig = "%s<%s>[%s]" % (kind, tys, prov(body, c.args[0], bb))
                elif kind == "index":
                    ta = c.callee.get("targs", [])
                    cont = short_ty(ta[0]) if ta else "?"
                    idx = short_ty(ta[1]) if len(ta) > 1 else "?"
                    if idx.startswith("RangeFull"):
                        break
                    sig = "index<%s,%s>[%s ; %s]" % (cont, idx, prov(body, c.args[0], bb), prov(body, c.args[1], bb))
                else:
                    sig = "%s:%s[%s]" % (kind, short_path(c.generic), ", ".join(prov(body, a, bb) for a in c.args))
                e = Edge(body, bb, kind, sig, c.line, c.path)
                e.meta["call"] = c
                out.append(e)
                break
    return out


def divisor_of(body, cond, bb):
    l = operand_local(cond)
    if l is None:
        return None
    for d in body.defs().get(l, ()):
        if d["kind"] == "assign" and d["rv"]["k"] == "bin" and d["rv"]["op"] == "Eq" and d.get("bb") == bb:
            a, b2 = d["rv"]["a"], d["rv"]["b"]
            if is_const(b2, 0):
                return a
            if is_const(a, 0):
                return b2
    return None


def short_ty(t):
    t = re.sub(r"std::(vec|string|option|result|collections|boxed|sync|borrow|fmt|num|io|time)::", "", t)
    t = re.sub(r", std::alloc::Global", "", t)
    t = re.sub(r"'\w+ ", "", t)
    return t


# ---- pattern discharge ---------------------------------------------------------------------------

def discharge_by_pattern(crate, e):
    b = e.body
    if e.kind.startswith("unwrap"):
        c = e.meta["call"]
        ta = c.callee.get("targs", [])
        if len(ta) >= 2 and "PoisonError" in ta[1] and ("Guard" in ta[0]):
            return "poison-unwrap (only follows an earlier panic while the lock was held, which the other rules exclude)"
        if len(ta) >= 2 and ta[1] == "std::fmt::Error":
            sl = b.slice_args(c, [0], through_calls=False)
            w = [x for x in sl.calls if x.matches(r"std::fmt::Write::write_fmt|std::fmt::Write::write_str|std::fmt::Write::write_char")]
            if w and all((x.callee.get("self_ty") or "").replace("&mut ", "") in ("std::string::String",) for x in w):
                return "fmt::Write into a String is infallible (crate Display impls only propagate the formatter's errors)"
    if e.kind == "assert":
        ops = e.meta["ops"]
        msg = e.meta["msg"]
        if msg in ("DivisionByZero", "RemainderByZero"):
            v = nonzero_const(b, ops[0], e.bb)
            if v:
                return "division/remainder by the non-zero constant %s" % v
        if msg.startswith("Overflow") and all(isinstance(const_val(o), int) for o in ops):
            return "constant operands"
        if msg == "Overflow(Add)" and len(ops) == 2:
            k = const_val(ops[1]) if isinstance(const_val(ops[1]), int) else const_val(ops[0])
            other = ops[0] if isinstance(const_val(ops[1]), int) else ops[1]
            if isinstance(k, int) and not isinstance(k, bool) and 0 <= k <= 64 and isinstance(other, dict):
                sl = b.slice(other, at=e.bb, through_calls=False)
                nxt = [c for c in sl.calls]
                if nxt and all(c.matches(r"std::iter::Iterator::next") and re.search(r"Enumerate<|Range<usize>|Range<u\d+>", (c.callee.get("self_ty") or "") + " ".join(c.callee.get("targs", []))) for c in nxt) \
                        and not [a for a in sl.atoms if a[0] == "binop" and a[1] not in ("AddWithOverflow", "Add")]:
                    return "index of an in-memory sequence (enumerate/range, <= isize::MAX) plus a small constant cannot overflow"
                cs = [c for c in sl.consts() if not (isinstance(c, str) and c.startswith("<"))]
                real_fields = {f for f in sl.fields() if f[0] not in ("tuple",)}
                if not sl.calls and not sl.params() and not real_fields and all(isinstance(c, int) and abs(c) <= 64 for c in cs):
                    return "induction counter built from small constants (would need 2^64 iterations to overflow)"
        if msg == "Overflow(Sub)" and len(ops) == 2:
            why = index_below_len(b, ops, e.bb) or guarded_sub(b, ops, e.bb) or facts_guarded_sub(b, ops, e.bb)
            if why:
                return why
        if msg.startswith("Overflow(Div") or msg.startswith("Overflow(Rem"):
            # signed MIN / -1 only; unsigned never
            if all("u" in (o.get("ty") or o.get("place", {}).get("ty", "")) for o in ops if isinstance(o, dict)):
                return "unsigned division cannot overflow"
    if e.kind == "op":
        c = e.meta["call"]
        if K.meth(c.generic) in ("div", "div_assign", "rem") and len(c.args) > 1:
            v = nonzero_const(b, c.args[1], e.bb)
            if v:
                return "division by the non-zero constant %s" % v
    if e.kind == "fmt-count":
        why = small_count(b, e.meta["call"].args[0], e.bb)
        if why:
            return why
    if e.kind == "index":
        why = const_ascii_prefix(b, e.meta["call"]) or index_in_own_range(b, e.meta["call"])
        if why:
            return why
    if e.kind == "duration-ctor":
        c = e.meta["call"]
        if all(isinstance(const_val(a), int) for a in c.args) and (len(c.args) < 2 or const_val(c.args[1]) < 1000000000):
            return "constant arguments in range"
    return None


def _origin_locals(b, call, k=0):
    l = operand_local(call.args[k]) if len(call.args) > k else None
    if l is None:
        return set()
    return {tl for tl, tp in b.ref_origins().get(l, ())} | {l}


def _src_place(b, op):
    """Source place of an operand through single-definition copy temporaries: (local, path-json) or None."""
    import json as _j
    for _ in range(4):
        if not isinstance(op, dict) or op.get("k") == "const":
            return None
        pl = op["place"]
        if pl["p"]:
            return (pl["l"], _j.dumps(pl["p"], sort_keys=True))
        l = pl["l"]
        ds = b.defs().get(l, ())
        if len(ds) == 1 and ds[0]["kind"] == "param":
            return (l, "[]")
        if len(ds) != 1 or ds[0]["kind"] != "assign" or ds[0]["lhs"]["p"] or ds[0]["rv"]["k"] != "use":
            return (l, "[]") if l > b.arg_count else None
        op = ds[0]["rv"]["op"]
    return None


def guarded_sub(b, ops, at):
    """`a - b` executed only on a switch edge that implies a >= b, the compared and the subtracted values being
    reads of the same two places with no store to either in between."""
    pa, pb = _src_place(b, ops[0]), _src_place(b, ops[1])
    if pa is None or pb is None or pa == pb:
        return None
    for sb, t in b.switches():
        l = operand_local(t["op"])
        ds = b.defs().get(l, ()) if l is not None else ()
        if len(ds) != 1 or ds[0]["kind"] != "assign" or ds[0]["rv"]["k"] != "bin" or ds[0]["bb"] != sb:
            continue
        rv = ds[0]["rv"]
        if rv["op"] not in ("Le", "Lt", "Gt", "Ge"):
            continue
        x, y = _src_place(b, rv["a"]), _src_place(b, rv["b"])
        if (x, y) == (pa, pb):
            want_true = rv["op"] in ("Gt", "Ge")      # a > b / a >= b true;  a <= b / a < b false
        elif (x, y) == (pb, pa):
            want_true = rv["op"] in ("Le", "Lt")      # b <= a / b < a true;  b > a / b >= a false
        else:
            continue
        zero = [tb for v, tb in t["targets"] if v == 0]
        tgt = t["otherwise"] if want_true else (zero[0] if zero else None)
        if want_true and not zero:
            continue
        if tgt is None or not b.edge_dominates((sb, tgt), at):
            continue
        # no store to either place between the test and the subtraction
        between = {x for x in b.reach([tgt]) if at in b.reach([x]) or x == at} | {tgt}
        dirty = False
        for (pl, pp) in (pa, pb):
            for d in b.defs().get(pl, ()):
                if d.get("bb", -1) in between and d["kind"] != "param":
                    # a definition of the same local: only harmful if it may touch the same path
                    if pp == "[]" or d["kind"] != "assign" or not d["lhs"]["p"] or d.get("via_ref") is not None or \
                            __import__("json").dumps(d["lhs"]["p"], sort_keys=True) == pp:
                        dirty = True
        if not dirty:
            return "subtraction guarded by the dominating comparison %s (edge bb%d->bb%d) on the same two places" % (rv["op"], sb, tgt)
    return None


def facts_guarded_sub(b, ops, at):
    """`a - b` at a block where the comparison-fact analysis (dominating edges of comparisons, named flags, negations,
    `&&`/`||` lowered to control flow) guarantees a > b or a >= b, neither place being written on the way."""
    from .props import c13
    ra, rb = c13.root(b, ops[0]), c13.root(b, ops[1])
    if ra is None or rb is None or ra == rb:
        return None
    facts = c13.edge_facts(b, at)
    want = {c13.norm_fact("Gt", ra, rb), c13.norm_fact("Ge", ra, rb)}
    hit = [f for f in facts if f in want]
    if not hit:
        return None
    # no store to either root on any path into the subtraction
    before = {x for x in b.reachable() if at in b.reach([x])}
    for r in (ra, rb):
        if r[0] == "c":
            continue
        l = r[1]
        for d in b.defs().get(l, ()):
            if d["kind"] == "param" or d.get("bb", -1) not in before:
                continue
            if r[0] == "l":
                if len([x for x in b.defs().get(l, ()) if x["kind"] != "param"]) > 1:
                    return None
            else:
                if d["kind"] != "assign" or not d["lhs"]["p"] or d.get("via_ref") is not None or json.dumps(d["lhs"]["p"], sort_keys=True) == r[2]:
                    return None
    return "subtraction guarded by the dominating comparison fact %s" % (hit[0],)


def index_below_len(b, ops, at):
    """`len(X) - idx - 1` / `len(X) - (idx + 1)` where idx is the enumerate() index of an iteration over X's own
    elements (chars of an ASCII-digit string, items of a Vec): idx <= len - 1, so neither subtraction underflows.
    Accepted shapes: Sub[len(X), idx(+<=1)] and Sub[len(X) - idx, const 1]."""
    a, c = ops
    sa = b.slice(a, at=at, through_calls=True)
    sc = b.slice(c, at=at, through_calls=True) if isinstance(c, dict) and c.get("k") != "const" else None
    lens = [x for x in sa.calls if K.meth(x.path) == "len" and x.matches(r".*(String|str|Vec|slice).*::len")]
    if len(lens) != 1:
        return None
    X = set()
    for src in b.slice_args(lens[0], [0], through_calls=False).locals:
        X.add(src)
    X |= _origin_locals(b, lens[0])

    def idx_over_X(sl):
        enum = [x for x in sl.calls if x.matches(r"std::iter::Iterator::next") and "Enumerate<" in ((x.callee.get("self_ty") or "") + " ".join(x.callee.get("targs", [])))]
        srcs = [x for x in sl.calls if x.matches(r"core::str::<impl str>::(chars|bytes|char_indices)", r"core::slice::<impl \[T\]>::iter")
                or (x.matches(r"std::iter::IntoIterator::into_iter") and x.args and b.locals[operand_local(x.args[0]) or 0]["ty"].startswith("&"))]
        if not enum or not srcs:
            return False
        return all((_origin_locals(b, x) | b.slice_args(x, [0], through_calls=False).locals) & X for x in srcs)

    if sc is None:
        k = const_val(c)
        # Sub[len(X) - idx, 1]
        if isinstance(k, int) and k <= 1 and idx_over_X(sa) and sum(1 for d in sa.defs if d["kind"] == "assign" and d["rv"]["k"] == "bin" and d["rv"]["op"].startswith("Sub")) == 1 \
                and not [d for d in sa.defs if d["kind"] == "assign" and d["rv"]["k"] == "bin" and d["rv"]["op"].startswith("Add")]:
            return "len(X) - idx - 1 with idx an enumerate() index over X's own elements (idx <= len - 1)"
        return None
    direct = b.slice(a, at=at, through_calls=False)
    if idx_over_X(sc) and [x.bb for x in direct.calls] == [lens[0].bb] and not [t for t in direct.atoms if t[0] == "binop"]:
        adds = [d for d in sc.defs if d["kind"] == "assign" and d["rv"]["k"] == "bin" and d["rv"]["op"].startswith("Add")]
        okc = all(isinstance(const_val(d["rv"]["b"]), int) and const_val(d["rv"]["b"]) <= 1 for d in adds) and len(adds) <= 1
        subs = [d for d in sc.defs if d["kind"] == "assign" and d["rv"]["k"] == "bin" and d["rv"]["op"].startswith(("Sub", "Mul", "Shl"))]
        if okc and not subs:
            return "len(X) - (idx + <=1) with idx an enumerate() index over X's own elements (idx + 1 <= len)"
    return None


def index_in_own_range(b, c):
    """`X[idx]` where idx is the item of a loop over `0..X.len()` and X is not changed inside that loop (the index form of
    `for (idx, item) in X.iter().enumerate()`): idx < len."""
    if len(c.args) < 2:
        return None
    isl = b.slice_args(c, [1], through_calls=False)
    nxt = [k for k in isl.calls if k.matches(r"std::iter::Iterator::next")]
    if len(nxt) != 1 or len(isl.calls) != 1 or [a for a in isl.atoms if a[0] in ("binop", "unop")]:
        return None
    nx = nxt[0]
    if "Range<usize>" not in ((nx.callee.get("self_ty") or "") + " ".join(nx.callee.get("targs", []))):
        return None
    rsl = b.slice_args(nx, [0])
    rng = [d for d in rsl.defs if d["kind"] == "assign" and d["rv"]["k"] == "agg" and d["rv"].get("adt") in ("std::ops::Range", "core::ops::Range")]
    if len(rng) != 1 or len(rng[0]["rv"]["ops"]) != 2 or const_val(rng[0]["rv"]["ops"][0]) != 0:
        return None
    esl = b.slice(rng[0]["rv"]["ops"][1], at=rng[0]["bb"])
    lens = [k for k in esl.calls if K.meth(k.path) == "len"]
    if len(lens) != 1 or [a for a in esl.atoms if a[0] in ("binop", "unop")] or [k for k in esl.calls if k is not lens[0] and not k.matches(r".*[Dd]eref.*")]:
        return None
    refs = b.ref_origins()

    def field_paths(op):
        l = operand_local(op)
        return {tuple(tp) if isinstance(tp, (list, tuple)) else (tp,) for tl, tp in refs.get(l, ()) if tp} if l is not None else set()
    x_len, x_idx = field_paths(lens[0].args[0]), field_paths(c.args[0])
    if not x_len or not (x_len & x_idx):
        return None
    names = {p_[-1] for p_ in (x_len & x_idx) if p_}
    loop = {nx.bb} | {x for x in b.reach_after(nx.bb) if nx.bb in b.reach_after(x)}
    for k in b.calls():
        if k.bb not in loop:
            continue
        for a in k.args:
            l = operand_local(a)
            if l is not None and b.locals[l]["ty"].startswith("&mut") and any(tp and (tp[-1] if isinstance(tp, (list, tuple)) else tp) in names for tl, tp in refs.get(l, ())):
                return None
    for i, j, st in b.assigns():
        if i in loop and any(f[2] in names for f in K_place_fields(st["lhs"])):
            return None
    return "index taken from a loop over 0..X.len() of the indexed sequence X, which the loop does not change (idx < len)"


def nonzero_const(b, op, at):
    v = const_val(op)
    if isinstance(v, int) and not isinstance(v, bool):
        return v if v != 0 else None
    l = operand_local(op)
    if l is None:
        return None
    ds = [d for d in b.defs().get(l, ()) if d["kind"] != "param"]
    if len(ds) == 1 and ds[0]["kind"] == "assign" and ds[0]["rv"]["k"] in ("use", "cast"):
        return nonzero_const(b, ds[0]["rv"]["op"], ds[0]["bb"])
    if len(ds) == 1 and ds[0]["kind"] == "call" and ds[0]["call"].matches(r"std::time::Duration::as_secs") and ds[0]["call"].args:
        # whole seconds of a named Duration constant (`DAY.as_secs()`): the driver records the constant's bytes
        o, at = ds[0]["call"].args[0], ds[0]["call"].bb
        for _ in range(6):
            if not isinstance(o, dict) or o.get("k") == "const":
                break
            l2 = operand_local(o)
            d2 = [d for d in b.defs().get(l2, ()) if d["kind"] != "param"] if l2 is not None and not [e for e in o["place"]["p"] if e != "*"] else []
            if len(d2) != 1 or d2[0]["kind"] != "assign":
                o = None
                break
            rv = d2[0]["rv"]
            if rv["k"] == "use":
                o = rv["op"]
            elif rv["k"] in ("ref", "copyderef") and not [e for e in rv["place"]["p"] if e != "*"]:
                o = {"k": "copy", "place": {"l": rv["place"]["l"], "p": []}}
            else:
                o = None
                break
        hx = (o.get("ref_hex") or o.get("hex")) if isinstance(o, dict) and o.get("k") == "const" and "Duration" in o.get("ty", "") else None
        if hx and len(hx) >= 16:
            return int.from_bytes(bytes.fromhex(hx[:16]), "little") or None
        return None
    if len(ds) == 1 and ds[0]["kind"] == "call" and ds[0]["call"].path.endswith("str::<impl str>::len") and ds[0]["call"].args:
        from .affine import const_str_of
        cs = const_str_of(b, ds[0]["call"].args[0], ds[0]["call"].bb)
        return len(cs.encode("utf-8")) or None if cs is not None else None
    return None


def small_count(b, op, at, depth=0):
    """A runtime width/precision handed to the formatter (`{:.1$}`, `{:>w$}`) is at most u16::MAX when it is a constant in
    range or a lossless widening of a u8/u16 value."""
    if depth > 10 or not isinstance(op, dict):
        return None
    if op.get("k") == "const":
        v = op.get("ref_v", op.get("v"))
        if isinstance(v, int) and not isinstance(v, bool) and 0 <= v <= 65535:
            return "constant formatting count %d" % v
        return None
    pl = op["place"]
    l = pl["l"]
    proj = [e for e in pl["p"] if e != "*"]
    ds = [d for d in b.defs().get(l, ()) if d["kind"] in ("assign", "call") and b.def_reaches(d, at)]
    if len(ds) > 1 and not proj and all(d["kind"] == "assign" and not d["lhs"]["p"] and d["rv"]["k"] == "use" for d in ds):
        # `let digits = if .. { 3 } else { 0 }`: every alternative is in range
        whys = [small_count(b, d["rv"]["op"], d["bb"], depth + 1) for d in ds]
        return "every alternative in range (%s)" % "; ".join(whys) if all(whys) else None
    if len(ds) == 1 and ds[0]["kind"] == "call" and not ds[0]["call"].dest["p"] and not proj:
        c = ds[0]["call"]
        if c.matches(r"std::option::Option::<T>::(unwrap_or|unwrap_or_default|unwrap)") and c.args:
            sl = b.slice_args(c, [0], through_calls=False)
            dflt = const_val(c.args[1]) if len(c.args) > 1 else 0
            if sl.calls and all(k.matches(r"std::fmt::Formatter::<'a>::(precision|width)") for k in sl.calls) and isinstance(dflt, int) and 0 <= dflt <= 65535:
                return "the formatter's own precision/width (a u16 inside core::fmt), defaulted to %s" % dflt
        if c.matches(r"std::convert::(From::from|Into::into)") and c.args:
            at0 = c.args[0]
            sty = (at0.get("place") or {}).get("ty") or at0.get("ty") or ""
            if sty in ("u8", "u16"):
                return "formatting count converted from a %s" % sty
        return None
    if len(ds) != 1 or ds[0]["kind"] != "assign" or ds[0]["lhs"]["p"]:
        return None
    rv = ds[0]["rv"]
    if rv["k"] == "agg" and rv.get("ak") == "tuple" and proj and isinstance(proj[0], dict) and isinstance(proj[0].get("f"), int) and proj[0]["f"] < len(rv["ops"]):
        return small_count(b, rv["ops"][proj[0]["f"]], ds[0]["bb"], depth + 1)
    if proj:
        return None
    if rv["k"] == "use":
        return small_count(b, rv["op"], ds[0]["bb"], depth + 1)
    if rv["k"] in ("ref", "copyderef"):
        return small_count(b, {"k": "copy", "place": rv["place"]}, ds[0]["bb"], depth + 1)
    if rv["k"] == "cast":
        src = rv["op"]
        sty = src.get("ty") or (src.get("place") or {}).get("ty") or (b.locals[src["place"]["l"]]["ty"] if src.get("place") and not src["place"]["p"] else "")
        if sty in ("u8", "u16"):
            return "formatting count widened from a %s" % sty
        return None
    return None


def const_ascii_prefix(b, c):
    """`CONST[..k]` / `CONST[a..k]` of an ASCII string constant with k = x % CONST.len() or min(x, CONST.len()): every offset
    is a char boundary and k <= len."""
    from .affine import const_str_of
    if len(c.args) < 2:
        return None
    cs = const_str_of(b, c.args[0], c.bb)
    if cs is None or not cs.isascii():
        return None
    n = len(cs)
    rl = operand_local(c.args[1])
    ds = [d for d in b.defs().get(rl, ()) if d["kind"] == "assign" and d["rv"]["k"] == "agg" and b.def_reaches(d, c.bb)] if rl is not None else []
    if len(ds) != 1 or not str(ds[0]["rv"].get("adt", "")).endswith("::RangeTo") or len(ds[0]["rv"]["ops"]) != 1:
        return None
    k = ds[0]["rv"]["ops"][0]
    kv = const_val(k)
    if isinstance(kv, int) and not isinstance(kv, bool):
        return "constant prefix of an ASCII constant" if kv <= n else None
    kl = operand_local(k)
    kd = [d for d in b.defs().get(kl, ()) if d["kind"] != "param" and b.def_reaches(d, ds[0]["bb"])] if kl is not None else []
    for _ in range(4):
        if len(kd) == 1 and kd[0]["kind"] == "assign" and kd[0]["rv"]["k"] == "use" and operand_local(kd[0]["rv"]["op"]) is not None and not kd[0]["rv"]["op"]["place"]["p"]:
            at = kd[0]["bb"]
            kd = [d for d in b.defs().get(operand_local(kd[0]["rv"]["op"]), ()) if d["kind"] != "param" and b.def_reaches(d, at)]
    if len(kd) != 1:
        return None
    d = kd[0]
    if d["kind"] == "assign" and d["rv"]["k"] == "bin" and d["rv"]["op"] == "Rem" and nonzero_const(b, d["rv"]["b"], d["bb"]) is not None \
            and nonzero_const(b, d["rv"]["b"], d["bb"]) <= n:
        return "prefix `x %% %d` of an ASCII constant of %d bytes: in range and on a char boundary" % (nonzero_const(b, d["rv"]["b"], d["bb"]), n)
    if d["kind"] == "call" and d["call"].matches(r"core::num::<impl usize>::min", r"std::cmp::Ord::min", r"std::cmp::min") and \
            any((nonzero_const(b, a, d["call"].bb) or n + 1) <= n or const_val(a) == 0 for a in d["call"].args):
        return "prefix min(x, len) of an ASCII constant: in range and on a char boundary"
    return None


# ---- scope ---------------------------------------------------------------------------------------

def scope(crate, entries, stop=(), exclude_files=K.TEST_DOUBLE_FILES):
    """Bodies reachable from entries over the call graph (closures, fmt::Argument dispatch, drop glue,
    trait fan-out), not entering `stop` bodies."""
    seen = set()
    work = []
    for e in entries:
        work.extend(b.name for b in crate.find(e))
    stop_set = set()
    for s in stop:
        stop_set |= {b.name for b in crate.find(s)}
    while work:
        n = work.pop()
        if n in seen or n in stop_set:
            continue
        b = crate.bodies.get(n)
        if not b or b.file in exclude_files:
            continue
        seen.add(n)
        for m in crate.callees_of(b):
            if m not in seen:
                work.append(m)
    return seen


def load_audit():
    p = os.path.join(HERE, "panic_audit.toml")
    with open(p, "rb") as fh:
        d = tomllib.load(fh)
    return d


def run_ledger(ctx, crate, prop, rule, entries, stop=(), extra_discharge=None, floor_edges=1):
    """Evaluate the ledger for one property. Returns (edges, scope set)."""
    CRATE[0] = crate
    cfg = crate.config
    sc = scope(crate, entries, stop)
    if not sc:
        ctx.lost(rule, cfg, "no entry point matched %s" % (entries,))
        return [], sc
    audit = load_audit().get(prop, {})
    allowed = {a["sig"]: a for a in audit.get("edge", [])}
    edges = []
    for n in sorted(sc):
        edges.extend(panic_edges(crate, crate.bodies[n]))
    counts = Counter()
    unaud = defaultdict(list)
    for e in edges:
        why = discharge_by_pattern(crate, e)
        if not why and extra_discharge:
            why = extra_discharge(e)
        if why:
            e.discharge = "pattern: " + why
            ctx.ok(rule, "edge:%s" % e.sig[:70], e.body.name, e.loc(), e.discharge, cfg)
            continue
        counts[e.sig] += 1
        a = allowed.get(e.sig)
        if a and counts[e.sig] <= a.get("count", 1):
            e.discharge = "audited: " + a["reason"]
            ctx.ok(rule, "edge:%s" % e.sig[:70], e.body.name, e.loc(), e.discharge, cfg)
        else:
            unaud[e.sig].append(e)
    for sig, es in sorted(unaud.items()):
        a = allowed.get(sig)
        e = es[0]
        if a:
            msg = "panic edge %s occurs %d time(s) in scope, only %d audited" % (sig, counts[sig], a.get("count", 1))
        else:
            msg = "unaudited panic edge %s (%s) reachable from %s" % (sig, e.detail, "/".join(K.meth(x) for x in entries[:3]))
        ctx.bad(rule, "unaudited:%s" % sig, e.body.name, e.loc(), msg, cfg,
                witness=["%s %s bb%d: %s" % (x.loc(), x.body.name, x.bb, x.detail) for x in es])
    ctx.floor(rule, len(edges), floor_edges, cfg, "panic edges in scope (%d bodies)" % len(sc))
    ctx.extra.setdefault("ledger", {})[cfg] = {
        "scope_bodies": len(sc), "edges": len(edges),
        "by_discharge": dict(Counter((e.discharge or "UNAUDITED").split(":")[0] for e in edges)),
        "signatures": sorted(Counter(e.sig for e in edges).items()),
    }
    return edges, sc
