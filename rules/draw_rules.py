"""Rules about the draw path shared by C01/C03/C04/C05/C06/C19."""
import os
import re

from . import common as K
from .facts import Call, const_val, is_const, op_str, operand_local, place_str, place_fields

VL = "draw_target::VisualLines"
LINETYPE = "draw_target::LineType"
TARGETKIND = "draw_target::TargetKind"
ALLOW = r"draw_target::RateLimiter::allow"


def the_emitter(ctx, crate, rule):
    em = K.emitters(crate)
    if not em:
        ctx.lost(rule, crate.config, "no emitter (function calling TermLike effect methods) found")
        return None
    # the emitter that flushes
    for name in sorted(em):
        if any(K.meth(c.generic) == "flush" for c in em[name]):
            return crate.bodies[name]
    return crate.bodies[sorted(em)[0]]


def tl_calls(body, *methods):
    return [c for c in body.calls() if c.callee.get("trait") == K.TERMLIKE and K.meth(c.generic) in methods]


def effect_summary(crate, name, seen=None):
    """TermLike effect methods a crate function performs, directly or through crate helpers."""
    seen = seen or set()
    if name in seen or name not in crate.bodies:
        return set()
    seen.add(name)
    b = crate.bodies[name]
    out = {K.meth(c.generic) for c in b.calls() if K.is_termlike_effect(c)}
    for c in b.calls():
        if c.callee.get("local") and not c.callee.get("trait"):
            out |= effect_summary(crate, c.path, seen)
    return out


def helper_calls(crate, b, *methods):
    """Calls from b to crate helper functions that perform one of the TermLike methods."""
    out = []
    for c in b.calls():
        if c.callee.get("local") and not c.callee.get("trait") and c.path in crate.bodies and c.path != b.name:
            if effect_summary(crate, c.path) & set(methods):
                out.append(c)
    return out


def helper_clear_ok(crate, b, c, p):
    """Helper H called at c clears rows in a loop bounded by one of its parameters, and the matching argument at the
    call site derives from the previous row count p."""
    h = crate.bodies[c.path]
    for cl in tl_calls(h, "clear_line"):
        if not h.in_loop(cl.bb):
            continue
        for sb, t in h.switches():
            if not (sb in h.reach_after(cl.bb) and cl.bb in h.reach_after(sb)):
                continue
            exits = [x for x in h.succ(sb) if cl.bb not in h.reach([x])]
            if not exits:
                continue
            for q in h.slice(t["op"], at=sb).params():
                if q - 1 < len(c.args) and p in b.slice_args(c, [q - 1]).locals:
                    return True
    return False


def count_param(body):
    """The `&mut VisualLines` parameter of the emitter (rows of the previous frame)."""
    ps = [i for i in range(1, body.arg_count + 1)
          if body.locals[i]["ty"].startswith("&mut") and body.locals[i].get("head") == VL]
    return ps[0] if len(ps) == 1 else None


def slice_reads_param_deref(sl, body, p):
    """Slice contains a read through parameter p (the previous row count)."""
    return p in sl.locals


# ---- R-DRAW-ORDER -------------------------------------------------------------------------------

def rule_draw_order(ctx, crate, rule="R-DRAW-ORDER"):
    cfg = crate.config
    b = the_emitter(ctx, crate, rule)
    if not b:
        return
    p = count_param(b)
    if p is None:
        ctx.lost(rule, cfg, "emitter has no unique &mut VisualLines parameter")
        return
    # "successful returns" = blocks that store Ok(..) into the return slot
    to_ret = {0}
    for _ in range(4):
        for i, j, s in b.assigns():
            if s["lhs"]["l"] in to_ret and not s["lhs"]["p"] and s["rv"]["k"] == "use" and operand_local(s["rv"]["op"]) is not None \
                    and not s["rv"]["op"]["place"]["p"]:
                to_ret.add(operand_local(s["rv"]["op"]))
    rets = sorted({i for i, j, s in b.assigns() if s["lhs"]["l"] in to_ret and not s["lhs"]["p"] and s["rv"]["k"] == "agg"
                   and s["rv"].get("adt") == "std::result::Result" and s["rv"].get("variant") == "Ok"})
    ctx.floor(rule, len(rets), 2, cfg, "Ok(..) return sites in the emitter")
    panicking = b.calls(r"std::thread::panicking")
    # blocks that return early because of `panicking()` are exempt (documented: no draw while unwinding)
    exempt = set()
    for c in panicking:
        sw = K.switch_on_local(b, c.target) if c.target is not None else None
        if sw:
            for v, tb in sw[1]["targets"]:
                pass
            nz = sw[1]["otherwise"]
            exempt |= b.edge_region((c.target, nz))
    # phase 1: erase/reposition — move_cursor_up whose argument slices to *bar_count; clear_line in a loop bounded by it
    ups = [c for c in tl_calls(b, "move_cursor_up") if p in b.slice_args(c, [1]).locals] + \
        [c for c in helper_calls(crate, b, "move_cursor_up") if p in b.slice_args(c).locals]
    clears = tl_calls(b, "clear_line") + helper_calls(crate, b, "clear_line")
    ctx.floor(rule, len(ups), 1, cfg, "move_cursor_up(previous row count) sites")
    ctx.floor(rule, len(clears), 1, cfg, "clear_line sites")
    writes = tl_calls(b, "write_str", "write_line") + [c for c in helper_calls(crate, b, "write_str", "write_line")
                                                        if not (effect_summary(crate, c.path) & {"clear_line"})]
    flushes = tl_calls(b, "flush") + helper_calls(crate, b, "flush")
    commits = [(i, j, s) for i, j, s in b.assigns() if s["lhs"]["l"] == p and "*" in s["lhs"]["p"]]
    ctx.floor(rule, len(commits), 1, cfg, "commit stores to the row count")
    if not (ups and clears and flushes and commits):
        return
    up_blocks = {c.bb for c in ups}
    ok_paths = {bb for bb in rets if bb in exempt}
    # (1) every non-exempt return passes a reposition call
    entry_avoid = b.reach([0], avoid=up_blocks)
    bad_rets = [r for r in rets if r in entry_avoid and r not in exempt and not is_err_return(b, r)]
    ctx.check(not bad_rets, rule, "erase-before-return", b.name, K.fn_loc(b),
              "every normal Ok return (outside the panicking() early exit) passes move_cursor_up(prev rows)",
              "a successful return is reachable without repositioning over the previous frame (return blocks %s)" % bad_rets, cfg)
    # (1b) clear_line: in a loop whose exit test depends on the previous row count
    for c in clears:
        if c.callee.get("trait") != K.TERMLIKE:
            ok_h = helper_clear_ok(crate, b, c, p)
            ctx.check(ok_h, rule, "clear-loop", b.name, c.loc(), "the erase helper clears in a loop bounded by the previous row count passed to it",
                      "the erase helper is not bounded by the previous row count", cfg)
            continue
        inloop = b.in_loop(c.bb)
        bound_ok = False
        for sb, t in b.switches():
            if not (sb in b.reach_after(c.bb) and c.bb in b.reach_after(sb)):
                continue
            exits = [x for x in b.succ(sb) if c.bb not in b.reach([x])]
            if exits and p in b.slice(t["op"], at=sb).locals:
                bound_ok = True
        ctx.check(inloop and bound_ok, rule, "clear-loop", b.name, c.loc(),
                  "clear_line is inside a loop whose exit test slices to the previous row count",
                  "clear_line is %s" % ("not in a loop" if not inloop else "in a loop not bounded by the previous row count"), cfg)
    # (1c) a frame with no lines always goes through the clearing phase: the reposition-only path (cursor moved up, nothing
    #      cleared) is not reachable when `lines.is_empty()` holds — an empty frame (finish_and_clear) must wipe the old rows
    clear_phase = set()
    for c in clears:
        clear_phase |= {c.bb} | {x for x in b.reach_after(c.bb) if c.bb in b.reach_after(x)}
    commit_bbs0 = {i for i, j, s in commits}
    err_edges = []          # error exits of `?` never reach the commit (also not through an inlined helper's return value)
    for tc in b.calls(K.TRY_BRANCH):
        e = K.try_edges(b, tc)
        if e:
            err_edges.append((e[0], e[2]))
    noclear_entry = b.reach([0], avoid=clear_phase, avoid_edges=err_edges)
    repos_only = [u for u in ups if u.bb in noclear_entry and (set(b.reach([u.bb], avoid=clear_phase, avoid_edges=err_edges)) & commit_bbs0)]
    empties = [c for c in b.calls(r"std::vec::Vec::<T, A>::is_empty", r"core::slice::<impl \[T\]>::is_empty") if b.slice_args(c, [0], through_calls=False).has_field("lines")]
    for k, u in enumerate(repos_only):
        ok = False
        for e in empties:
            if e.dest["p"]:
                continue
            R_empty, _ = K.bool_reach(b, e.dest["l"], True)
            if u.bb not in R_empty:
                ok = True
        ctx.check(ok, rule, "empty-frame-clears#%d" % k, b.name, u.loc(),
                  "the reposition-only path (nothing cleared) cannot be taken when the frame has no lines",
                  "a frame with no lines can take the reposition-only path: the rows of the previous frame are never cleared "
                  "(finish_and_clear leaves the bar on screen and forgets it)", cfg)
    # (2) every paint call (write of a line) is preceded by a reposition: up_blocks dominate it collectively
    for c in writes:
        ok = c.bb not in entry_avoid
        key = "%s#%d" % (K.meth(c.generic), sum(1 for x in writes if x.bb < c.bb and K.meth(x.generic) == K.meth(c.generic)))
        ctx.check(ok, rule, "paint-after-erase:" + key, b.name, c.loc(),
                  "paint call is reachable only after repositioning", "paint call reachable without repositioning", cfg)
    # (3) flush after every paint: from every paint call every path to a commit passes flush
    fl_blocks = {c.bb for c in flushes}
    commit_blocks = {i for i, j, s in commits}
    for c in writes:
        ok = b.must_pass([c.target] if c.target is not None else [], fl_blocks, to=commit_blocks) and \
            all(not (b.reach([f.target]) & {c.bb}) for f in flushes if f.target is not None)
        key = "%s#%d" % (K.meth(c.generic), sum(1 for x in writes if x.bb < c.bb and K.meth(x.generic) == K.meth(c.generic)))
        ctx.check(ok, rule, "flush-after-paint:" + key, b.name, c.loc(),
                  "every path from this paint call to the commit passes flush(), and no paint follows flush()",
                  "paint call can reach the commit without flush(), or is reachable after flush()", cfg)
    # (4) commit after flush (dominance) — see R-DRAW-COMMIT-ON-SUCCESS for the success edge
    for i, j, s in commits:
        ok = i not in b.reach([0], avoid=fl_blocks)
        ctx.check(ok, rule, "commit-after-flush", b.name, "%s:%d" % (b.file, s.get("line", 0)),
                  "the row-count store is dominated by flush()", "row count stored on a path without flush()", cfg)
    # (5) every Ok return outside the exempt region passes a commit
    avoid_commit = b.reach([0], avoid=commit_blocks)
    bad = [r for r in rets if r in avoid_commit and r not in exempt and not is_err_return(b, r)]
    ctx.check(not bad, rule, "commit-before-ok-return", b.name, K.fn_loc(b),
              "every successful return passes the row-count commit",
              "a successful return skips the row-count commit (return blocks %s)" % bad, cfg)
    # (6) committed value derives from the rows painted in this call
    for i, j, s in commits:
        sl = b.slice_rv(i, s)
        ok = sl.has_call(r"draw_target::LineType::wrapped_height", r"draw_target::visual_line_count", r"draw_target::DrawState::visual_line_count")
        ctx.check(ok, rule, "commit-value", b.name, "%s:%d" % (b.file, s.get("line", 0)),
                  "committed row count slices to wrapped_height/visual_line_count of this frame's lines",
                  "committed row count does not derive from the wrap-aware height of the lines painted", cfg)


def is_err_return(b, r):
    """Return block r is only reachable through the Break edge of some `?` (error propagation)."""
    for c in b.calls(K.TRY_BRANCH):
        e = K.try_edges(b, c)
        if e and r in b.edge_region((e[0], e[2])):
            return True
    # returns shared between error paths and others are not error returns
    preds_all_err = True
    return False


def err_only_blocks(b):
    out = set()
    for c in b.calls(K.TRY_BRANCH):
        e = K.try_edges(b, c)
        if e:
            out |= b.edge_region((e[0], e[2]))
    return out


# ---- R-LLC-WRITERS -----------------------------------------------------------------------------

def rule_llc_writers(ctx, crate, rule="R-LLC-WRITERS"):
    """last_line_count (TargetKind::{Term,TermLike}) is written only by the emitter (through the
    &mut handed out by drawable()/Drawable::draw) and by the adjust_last_line_count functions, whose
    callers are all inside MultiState."""
    cfg = crate.config
    em = set(K.emitters(crate))
    n = 0
    writers = set()
    for b in K.lib_bodies(crate):
        # direct stores to a place of type VisualLines reached through a field named last_line_count,
        # or through a &mut VisualLines local that originates from such a field
        refs = b.ref_origins()
        for i, j, s in b.assigns():
            lhs = s["lhs"]
            if lhs.get("ty") != VL:
                continue
            fields = [f[2] for f in K.place_fields(lhs)]
            via = None
            if "last_line_count" in fields:
                via = "field"
            elif "*" in lhs["p"] and not fields:
                l = lhs["l"]
                tg = refs.get(l, [])
                if any("last_line_count" in t[1] for t in tg):
                    via = "ref-to-field"
                elif l <= b.arg_count and b.locals[l].get("head") == VL:
                    via = "param"
            if not via:
                continue
            n += 1
            writers.add(b.name)
            ok = b.name in em or re.search(r"::adjust_last_line_count$", b.name) is not None
            ctx.check(ok, rule, "store:" + via, b.name, "%s:%d" % (b.file, s.get("line", 0)),
                      "last_line_count stored by the emitter / adjust_last_line_count",
                      "last_line_count is written outside the emitter and adjust_last_line_count", cfg)
    ctx.floor(rule, n, 2, cfg, "stores to last_line_count")
    # callers of adjust_last_line_count
    nc = 0
    for c in crate.all_calls(r".*::adjust_last_line_count", bodies=K.lib_bodies(crate)):
        nc += 1
        ok = c.body.name.startswith("multi::MultiState::") or re.search(r"::adjust_last_line_count$", c.body.name)
        ctx.check(bool(ok), rule, "adjust-caller:" + c.body.name, c.body.name, c.loc(),
                  "adjust_last_line_count called from MultiState only (a standalone bar's count is changed by the emitter alone)",
                  "adjust_last_line_count called from %s" % c.body.name, cfg)
    ctx.floor(rule, nc, 4, cfg, "adjust_last_line_count call sites")
    # aggregate constructions that initialise last_line_count must use Default
    return writers


# ---- gate rules ----------------------------------------------------------------------------------

def drawable_fn(ctx, crate, rule):
    return K.find_one(ctx, crate, rule, r"draw_target::ProgressDrawTarget::drawable", "ProgressDrawTarget::drawable")


def force_param(body):
    ps = [i for i in range(1, body.arg_count + 1) if body.locals[i]["ty"] == "bool"]
    return ps[0] if len(ps) == 1 else None


def calls_allow(crate, body, sl):
    """The slice contains a RateLimiter::allow result, directly or via a closure that calls it."""
    if sl.has_call(ALLOW):
        return True
    for a in sl.atoms:
        if a[0] == "closure" and a[1] in crate.bodies:
            if crate.bodies[a[1]].calls(ALLOW):
                return True
    return False


def gate_edges(crate, b, fp):
    """Edges (switch_bb, target) taken when `force_draw` is true or a limiter said yes."""
    force_edges, allow_edges, force_zero_edges = [], [], []
    for sb, t in b.switches():
        if t["op"]["k"] not in ("copy", "move"):
            continue
        sl = b.slice(t["op"], at=sb)
        zero = [tb for v, tb in t["targets"] if v == 0]
        if not zero:
            continue
        nz = t["otherwise"]
        only_force = sl.params() == {fp} and not sl.calls
        if only_force:
            force_edges.append((sb, nz))
            force_zero_edges.append((sb, zero[0]))
        elif calls_allow(crate, b, sl):
            allow_edges.append((sb, nz))
    # no limiter at all (`rate_limiter: Option<RateLimiter>` is None: a TermLike target without a refresh rate) = always allowed:
    # the None edge of a test on such an Option counts as an allow edge (`.map_or(true, |r| r.allow(now))` spelled as a match)
    for sb, t, pl, d in K.discr_switches(b):
        ty = pl.get("ty", "") or ""
        if K.head_of_type(ty) != "std::option::Option" or "RateLimiter" not in ty:
            continue
        for tgt, vs in K.edge_variants(crate, t, "std::option::Option").items():
            if vs == {"None"}:
                allow_edges.append((sb, tgt))
    return force_edges, allow_edges, force_zero_edges


def rule_gate_only_constructor(ctx, crate, rule="R-GATE-ONLY-CONSTRUCTOR"):
    """Drawable::Term / Drawable::TermLike are constructed only in drawable(), and every path to a
    construction takes a `force_draw == true` edge or a `limiter said yes` edge."""
    cfg = crate.config
    b = drawable_fn(ctx, crate, rule)
    if not b:
        return
    fp = force_param(b)
    if fp is None:
        ctx.lost(rule, cfg, "drawable() has no unique bool parameter")
        return
    fe, ae, _ = gate_edges(crate, b, fp)
    n = 0
    for variant in ("Term", "TermLike"):
        for (cb, i, j, s) in K.constructions(crate, K.DRAWABLE, variant):
            n += 1
            reach_wo = b.reach([0], avoid_edges=fe + ae)
            if cb.name != b.name:
                # a helper extracted from drawable(): every caller must be drawable() at a gated site
                callers = crate.callers().get(cb.name, [])
                ok = bool(callers) and all(c.body.name == b.name and c.bb not in reach_wo for c in callers)
                ctx.check(ok, rule, "construct:" + variant, cb.name, "%s:%d" % (cb.file, s.get("line", 0)),
                          "Drawable::%s is built by a helper called only from gated sites of drawable()" % variant,
                          "Drawable::%s constructed outside ProgressDrawTarget::drawable (bypasses the limiter and the visibility test)" % variant, cfg)
                continue
            # limiter may legitimately be absent (TermLike without hz): `map_or(true, ..)` is an allow edge
            ctx.check(i not in reach_wo, rule, "construct:" + variant, b.name, "%s:%d" % (b.file, s.get("line", 0)),
                      "every path to the construction takes a force_draw-true edge or a limiter-allowed edge (%d+%d gate edges)" % (len(fe), len(ae)),
                      "Drawable::%s can be constructed without force_draw and without a positive limiter decision" % variant, cfg)
    ctx.floor(rule, n, 2, cfg, "Drawable::Term/TermLike constructions")
    ctx.floor(rule, len(ae), 2, cfg, "limiter-allowed edges in drawable()")


def rule_force_bypass(ctx, crate, rule="R-FORCE-BYPASS"):
    """force_draw bypasses every limiter: each allow() call in drawable() lies on the false edge of a
    switch on force_draw; from every true edge the terminal variants are constructed on all paths
    that do not leave through a visibility test; the flag is forwarded through Drawable::Multi,
    Drawable::draw, MultiState::draw and BarState::draw."""
    cfg = crate.config
    b = drawable_fn(ctx, crate, rule)
    if not b:
        return
    fp = force_param(b)
    if fp is None:
        ctx.lost(rule, cfg, "drawable() has no unique bool parameter")
        return
    fe, ae, fz = gate_edges(crate, b, fp)
    allow_sites = list(b.calls(ALLOW))
    # closures passed to calls
    closure_sites = []
    for i, j, s in b.assigns():
        rv = s["rv"]
        if rv["k"] == "agg" and rv["ak"] == "closure" and rv["def"] in crate.bodies and crate.bodies[rv["def"]].calls(ALLOW):
            closure_sites.append((i, s))
    n = 0
    R_forced, avoid_forced = K.bool_reach(b, fp, True)       # what can execute when force_draw is true
    for c in allow_sites:
        n += 1
        ok = any(b.edge_dominates(e, c.bb) for e in fz) or c.bb not in R_forced
        ctx.check(ok, rule, "allow-under-not-forced#%d" % (n - 1), b.name, c.loc(),
                  "RateLimiter::allow is reachable only through the false edge of a switch on force_draw",
                  "RateLimiter::allow is consulted on a path where force_draw may be true (a forced draw can be dropped and consumes a token)", cfg)
    for i, s in closure_sites:
        n += 1
        ok = any(b.edge_dominates(e, i) for e in fz) or i not in R_forced
        ctx.check(ok, rule, "allow-closure-under-not-forced#%d" % (n - 1), b.name, "%s:%d" % (b.file, s.get("line", 0)),
                  "closure calling RateLimiter::allow is built only on the false edge of force_draw",
                  "a closure consulting the limiter is evaluated where force_draw may be true", cfg)
    ctx.floor(rule, n, 2, cfg, "limiter consultations in drawable()")
    # from each force-true edge: no `None` return is reachable except through a visibility test that
    # was taken before. Check: blocks reachable from the force-true target construct a Drawable on all paths.
    cons_blocks = {i for (cb, i, j, s) in K.constructions(crate, K.DRAWABLE) if cb.name == b.name}
    for (sb, tgt) in fe:
        ok = b.must_pass([tgt], cons_blocks) or not (set(b.reach([tgt], avoid=cons_blocks, avoid_edges=avoid_forced)) & set(b.return_blocks()))
        ctx.check(ok, rule, "forced-constructs", b.name, "%s:%d" % (b.file, b.term(sb).get("line", 0)),
                  "from the force_draw-true edge every path to the return constructs a Drawable",
                  "a forced draw can still end without a Drawable", cfg)
    ctx.floor(rule, len(fe), 2, cfg, "switches on force_draw in drawable()")
    # Multi arm stores the parameter
    multi = [(cb, i, j, s) for (cb, i, j, s) in K.constructions(crate, K.DRAWABLE, "Multi")]
    nm = 0
    for cb, i, j, s in multi:
        rv = s["rv"]
        idx = rv["fields"].index("force_draw") if "force_draw" in rv["fields"] else None
        if idx is None:
            ctx.lost(rule, cfg, "Drawable::Multi has no force_draw field")
            continue
        op = rv["ops"][idx]
        nm += 1
        if cb.name == b.name:
            sl = cb.slice(op, at=i)
            ctx.check(sl.params() == {fp} and not sl.calls, rule, "multi-forwards-force", cb.name, "%s:%d" % (cb.file, s.get("line", 0)),
                      "Drawable::Multi.force_draw is the force_draw parameter",
                      "Drawable::Multi.force_draw is not the unmodified force_draw parameter", cfg)
        else:
            # other constructors (disconnect): must be const true
            ctx.check(is_const(op, True), rule, "multi-forced-const", cb.name, "%s:%d" % (cb.file, s.get("line", 0)),
                      "Drawable::Multi built outside drawable() is forced (const true)",
                      "Drawable::Multi built with a non-constant/false force flag outside drawable()", cfg)
    ctx.floor(rule, nm, 1, cfg, "Drawable::Multi constructions")
    # Drawable::draw forwards field force_draw to MultiState::draw
    d = K.find_one(ctx, crate, rule, r"draw_target::Drawable::<'_>::draw")
    if d:
        cs = d.calls(r"multi::MultiState::draw")
        ctx.floor(rule, len(cs), 1, cfg, "Drawable::draw -> MultiState::draw")
        for c in cs:
            sl = d.slice_args(c, [1])
            ctx.check(sl.has_field("force_draw", K.DRAWABLE) and not sl.calls, rule, "drawable-draw-forwards", d.name, c.loc(),
                      "MultiState::draw receives Drawable::Multi.force_draw", "MultiState::draw's force flag is not the Drawable::Multi.force_draw field", cfg)
    # MultiState::draw and BarState::draw pass a flag that contains their own parameter, and only OR into it
    for pat in (r"multi::MultiState::draw", r"state::BarState::draw"):
        f = K.find_one(ctx, crate, rule, pat)
        if not f:
            continue
        p = force_param(f)
        cs = f.calls(K.PDT_DRAWABLE)
        ctx.floor(rule, len(cs), 1, cfg, "%s -> drawable()" % pat)
        for c in cs:
            sl = f.slice_args(c, [1])
            ops = {a[1] for a in sl.atoms if a[0] == "binop"} | {a[1] for a in sl.atoms if a[0] == "unop"}
            isc, ze = cond_param(f, p) if p is not None else (None, [])
            ok = p is not None and implied_true(f, c.args[1], c.bb, isc, ze)
            ctx.check(ok, rule, "forwards-force", f.name, c.loc(),
                      "drawable() receives the function's own force flag, only ever OR-ed with other conditions",
                      "the force flag passed to drawable() does not monotonically include the caller's force_draw", cfg)


def param_reaches_monotone(body, op, p, depth=0, seen=None):
    """op's value is `p`, or `x | y` / copy chains where some operand is monotone in p."""
    seen = seen or set()
    l = operand_local(op)
    if l is None:
        return False
    if op["place"]["p"]:
        return False
    if l == p:
        # all defs of p itself must be monotone (p |= ...)
        for d in body.defs().get(p, ()):
            if d["kind"] == "param":
                continue
            if d["kind"] == "assign" and d["rv"]["k"] == "bin" and d["rv"]["op"] == "BitOr" and \
                    (operand_local(d["rv"]["a"]) == p or operand_local(d["rv"]["b"]) == p):
                continue
            return False
        return True
    if l in seen or depth > 6:
        return False
    seen.add(l)
    ds = [d for d in body.defs().get(l, ())]
    if not ds:
        return False
    for d in ds:
        if d["kind"] != "assign":
            return False
        rv = d["rv"]
        if rv["k"] == "use":
            if not param_reaches_monotone(body, rv["op"], p, depth + 1, seen):
                return False
        elif rv["k"] == "bin" and rv["op"] == "BitOr":
            if not (param_reaches_monotone(body, rv["a"], p, depth + 1, seen) or param_reaches_monotone(body, rv["b"], p, depth + 1, seen)):
                return False
        else:
            return False
    return True


def rule_hidden_builds_nothing(ctx, crate, rule="R-HIDDEN-BUILDS-NOTHING"):
    """In drawable(): every Drawable construction lies under the matching TargetKind variant edge;
    the Term construction additionally under the true edge of Term::is_term()."""
    cfg = crate.config
    b = drawable_fn(ctx, crate, rule)
    if not b:
        return
    n = 0
    for (cb, i, j, s) in K.constructions(crate, K.DRAWABLE):
        if cb.name != b.name:
            continue
        v = s["rv"]["variant"]
        n += 1
        ok = K.in_variant_region(b, crate, i, TARGETKIND, {v})
        ctx.check(ok, rule, "variant-region:" + v, b.name, "%s:%d" % (b.file, s.get("line", 0)),
                  "Drawable::%s is built only under the TargetKind::%s edge (Hidden builds nothing)" % (v, v),
                  "Drawable::%s can be built for a target of another kind (e.g. Hidden)" % v, cfg)
        if v == "Term":
            e = K.guarded_by_true_of(b, i, lambda sl: sl.has_call(r"console::Term::is_term"))
            ctx.check(e is not None, rule, "is_term-guard", b.name, "%s:%d" % (b.file, s.get("line", 0)),
                      "Drawable::Term construction is reachable only through the true edge of Term::is_term()",
                      "Drawable::Term can be built for a terminal that is not a tty", cfg)
    ctx.floor(rule, n, 3, cfg, "Drawable constructions in drawable()")
    # the set of TargetKind variants is the one the rules know
    names = K.variant_names(crate, TARGETKIND) or []
    ctx.check(set(names) == {"Term", "Multi", "Hidden", "TermLike"}, rule, "targetkind-variants", TARGETKIND,
              "src/draw_target.rs", "TargetKind variants = %s" % names,
              "TargetKind has variants %s: a new kind of target is not covered by the silence argument" % names, cfg)


# ---- rows accounting in the emitter (C03 / C19) -----------------------------------------------------

VL_ADDITIVE = (r"std::ops::AddAssign::add_assign", r"std::ops::Add::add", r"draw_target::VisualLines::saturating_add",
               r"<draw_target::VisualLines as std::ops::AddAssign>::add_assign", r"<draw_target::VisualLines as std::ops::Add>::add")
HEIGHT_FNS = (r"draw_target::LineType::wrapped_height", r"draw_target::visual_line_count",
              r"draw_target::DrawState::visual_line_count")


class AccStore:
    """An accumulation spelled `let new = running + rows; ..; running = new;`: the site is the store into the running
    count (that is where the row is counted), the value is the sum computed earlier (possibly also used by the height test)."""

    def __init__(self, body, call, store_bb, line, running):
        self.body, self.call, self.bb, self._line, self.running = body, call, store_bb, line, running
        self.args = call.args
        self.path, self.generic, self.callee, self.dest = call.path, call.generic, call.callee, call.dest

    def loc(self):
        return "%s:%d" % (self.body.file, self._line)

    def matches(self, *pats):
        return self.call.matches(*pats)


def _accumulations(b, slices):
    acc = []
    for sl in slices:
        for c in sl.calls:
            if c.matches(*VL_ADDITIVE) and b.in_loop(c.bb):
                # the per-line addend must come from wrapped_height of the current line
                asl = b.slice_args(c, [1])
                if asl.has_call(r"draw_target::LineType::wrapped_height") and not any(getattr(x, "call", x) is c or x is c for x in acc):
                    stores = []
                    if K.meth(c.generic) == "add" and not c.dest["p"]:
                        # the running count is the loop-carried local the sum is later stored into
                        src = operand_local(c.args[0])
                        for _ in range(3):
                            ds = [d for d in b.defs().get(src, ()) if d["kind"] == "assign"] if src is not None else []
                            if len(ds) == 1 and ds[0]["rv"]["k"] == "use" and operand_local(ds[0]["rv"]["op"]) is not None and not ds[0]["rv"]["op"]["place"]["p"] \
                                    and len(b.defs().get(src, ())) == 1:
                                src = operand_local(ds[0]["rv"]["op"])
                        for i, j, s_ in b.assigns():
                            if s_["lhs"]["l"] == src and not s_["lhs"]["p"] and s_["rv"]["k"] == "use" and b.in_loop(i) and i in (b.reach_after(c.bb) | {c.bb}):
                                vs = b.slice_rv(i, s_, through_calls=False)
                                if c.dest["l"] in vs.locals and i != c.bb:
                                    stores.append(AccStore(b, c, i, s_.get("line", 0), src))
                    acc.extend(stores or [c])
    return acc


def emitter_commit_info(ctx, crate, rule):
    """(paint body, count param of the emitter, commit stores, per-line accumulations). The paint body is the
    emitter itself, or the crate-private helper whose returned row count the emitter commits (paint loop
    extracted into a function): the accumulations are then those flowing into the helper's return value."""
    b = the_emitter(ctx, crate, rule)
    if not b:
        return None
    p = count_param(b)
    if p is None:
        ctx.lost(rule, crate.config, "emitter has no unique &mut VisualLines parameter")
        return None
    commits = [(i, j, s) for i, j, s in b.assigns() if s["lhs"]["l"] == p and "*" in s["lhs"]["p"]]
    if not commits:
        ctx.lost(rule, crate.config, "no commit store in the emitter")
        return None
    csl = [b.slice_rv(i, s) for i, j, s in commits]
    acc = _accumulations(b, csl)
    if not acc:
        for sl in csl:
            for c in sl.calls:
                if not c.callee.get("local"):
                    continue
                for tn in crate.resolve_targets(c):
                    h = crate.bodies.get(tn)
                    if h is None or h.kind == "Closure" or h.api or not tl_calls(h, "write_str"):
                        continue
                    rsl = []
                    for d in h.defs().get(0, ()):
                        if d["kind"] == "assign":
                            rsl.append(h.slice_rv(d["bb"], {"lhs": d["lhs"], "rv": d["rv"]}))
                        elif d["kind"] == "call":
                            rsl.append(h.slice_args(d["call"]))
                    acc_h = _accumulations(h, rsl)
                    if acc_h:
                        return h, p, commits, acc_h
    return b, p, commits, acc


def line_paint_calls(b):
    """write_str calls inside a loop whose text argument comes from a LineType (AsRef::as_ref)."""
    out = []
    for c in tl_calls(b, "write_str"):
        if not b.in_loop(c.bb):
            continue
        sl = b.slice_args(c, [1])
        if sl.has_call(r"std::convert::AsRef::as_ref", r"<draw_target::LineType as std::convert::AsRef<str>>::as_ref"):
            out.append(c)
    return out


def rule_painted_is_measured(ctx, crate, rule="R-PAINTED-IS-MEASURED"):
    """"Lines wider than the terminal are accounted for as the number of rows they wrap to": the rows are computed from the
    stored line (`wrapped_height`, `console_width`, the zombie `visual_line_count`), so what is *written* for a line has to be that
    very line. A paint call whose text went through a string transformation (`trim_end_matches`, a slice, `replace`, ..) occupies
    other rows than the accounting assumes: a padded line whose trailing blanks cross a row boundary is painted in one row and
    counted as two, and every redraw erases a row of the text above the region (seed C19l)."""
    cfg = crate.config
    info = emitter_commit_info(ctx, crate, rule)
    if not info:
        return
    b, p, commits, acc = info
    paints = line_paint_calls(b)
    ctx.floor(rule, len(paints), 1, cfg, "per-line paint calls")
    for k, c in enumerate(paints):
        sl = b.slice_args(c, [1], stop_at_calls=(r"std::convert::AsRef::as_ref", r"<draw_target::LineType as std::convert::AsRef<str>>::as_ref"))
        other = sorted({K.meth(x.path) for x in sl.calls if not x.matches(
            r"std::convert::AsRef::as_ref", r"<draw_target::LineType as std::convert::AsRef<str>>::as_ref", r"std::ops::Deref::deref", r"<std::string::String as std::ops::Deref>::deref",
            r"std::string::String::as_str", r"std::borrow::Borrow::borrow", r"std::iter::Iterator::next", r"std::iter::Iterator::enumerate",
            r".*IntoIterator.*::into_iter", r"core::slice::<impl \[T\]>::iter", r"std::ops::Index::index", r"<std::vec::Vec<T, A> as std::ops::Index<I>>::index",
            r"std::iter::Peekable::<I>::\w+", r"std::iter::Iterator::peekable", r"<std::vec::Vec<T, A> as std::ops::Deref>::deref")})
        ctx.check(not other, rule, "paint-writes-the-line#%d" % k, b.name, c.loc(),
                  "the text written for a line is the stored line itself (the one whose rows are counted)",
                  "the text written for a line went through %s: it is not the string whose wrapped rows are counted - the line occupies other rows than the erase "
                  "count assumes (a padded line with trailing blanks across a row boundary is painted in 1 row and counted as 2)" % other, cfg)


def rule_text_not_counted(ctx, crate, rule="R-TEXT-NOT-COUNTED"):
    cfg = crate.config
    info = emitter_commit_info(ctx, crate, rule)
    if not info:
        return
    b, p, commits, acc = info
    ctx.floor(rule, len(acc), 1, cfg, "per-line accumulations flowing into the committed row count")
    bar_only = set()
    for vs, reg in K.variant_only_regions(b, crate, LINETYPE):
        if vs == {"Bar"}:
            bar_only |= reg
    for c in acc:
        ok = K.in_variant_region(b, crate, c.bb, LINETYPE, {"Bar"}) or c.bb in bar_only
        ctx.check(ok, rule, "accumulate-under-Bar", b.name, c.loc(),
                  "the per-line height is added to the committed count only under the LineType::Bar edge",
                  "rows of text lines (println output) enter the count that the next draw erases", cfg)


def height_guard_edges(b, acc=()):
    """(switch_bb, term, slice) for switches comparing (painted rows + next line's rows) against TermLike::height()."""
    out = []
    acc_bbs = {c.bb for c in acc}
    acc_locals = set()
    for c in acc:
        for tl, tp in b.ref_origins().get(operand_local(c.args[0]), ()):
            acc_locals.add(tl)
        if getattr(c, "running", None) is not None:
            acc_locals.add(c.running)
    for sb, t in b.switches():
        if t["op"]["k"] not in ("copy", "move"):
            continue
        sl = b.slice(t["op"], at=sb)
        if not any(c.callee.get("trait") == K.TERMLIKE and K.meth(c.generic) == "height" for c in sl.calls):
            continue
        # the compared quantity must be (rows painted so far) + (rows of the line about to be painted): a value
        # produced by an additive operation that is not the accumulation itself and one of whose operands is
        # *directly* the current line's wrapped_height result
        ok = False
        refs = b.ref_origins()
        seen = set()
        work = [operand_local(t["op"])]
        while work:
            l = work.pop()
            if l is None or l in seen:
                continue
            seen.add(l)
            for tl, tp in refs.get(l, ()):
                work.append(tl)
            for d in b.defs().get(l, ()):
                if not b.def_reaches(d, sb):
                    continue
                if d["kind"] == "assign" and d["rv"]["k"] in ("use", "cast", "ref", "copyderef"):
                    work.append(operand_local(d["rv"].get("op")) if d["rv"]["k"] in ("use", "cast") else d["rv"]["place"]["l"])
                elif d["kind"] == "call":
                    c = d["call"]
                    if c.matches(r"std::cmp::PartialOrd::(gt|ge|lt|le)", r"std::cmp::PartialEq::(eq|ne)", r"std::convert::Into::into", r"std::convert::From::from"):
                        for a_ in c.args:
                            work.append(operand_local(a_))
                    elif c.matches(*VL_ADDITIVE) and c.bb not in acc_bbs:
                        if any(b.slice_args(c, [k], through_calls=False).has_call(r"draw_target::LineType::wrapped_height") for k in range(len(c.args))):
                            ok = True
                elif d["kind"] == "callmut":
                    c = d["call"]
                    if c.matches(*VL_ADDITIVE) and c.bb not in acc_bbs and l not in acc_locals:
                        if any(b.slice_args(c, [k], through_calls=False).has_call(r"draw_target::LineType::wrapped_height") for k in range(1, len(c.args))):
                            ok = True
        if ok:
            out.append((sb, t, sl))
    return out


def _height_cmp(b, sb, t):
    """For a height-guard switch: (op, sum_on_left, negated) with op in gt/ge/lt/le/eq/ne normalised so that it reads `sum OP height`
    (the side whose slice asks TermLike::height() is the height), following copies and `!`; None when the shape is not a plain comparison."""
    l = operand_local(t["op"])
    neg = False
    for _ in range(8):
        ds = [d for d in b.defs().get(l, ()) if d["kind"] in ("assign", "call") and b.def_reaches(d, sb)] if l is not None else []
        if len(ds) != 1:
            return None
        d = ds[0]
        if d["kind"] == "assign":
            rv = d["rv"]
            if rv["k"] == "un" and rv.get("op") == "Not":
                neg = not neg
                l = operand_local(rv.get("a"))
                continue
            if rv["k"] == "use" and rv["op"].get("k") in ("copy", "move") and not rv["op"]["place"]["p"]:
                l = operand_local(rv["op"])
                continue
            if rv["k"] == "bin" and rv["op"] in ("Gt", "Ge", "Lt", "Le", "Eq", "Ne"):
                opn = rv["op"].lower()
                ha = b.slice(rv["a"], at=d["bb"])
                hb = b.slice(rv["b"], at=d["bb"])
                a_h = any(c.callee.get("trait") == K.TERMLIKE and K.meth(c.generic) == "height" for c in ha.calls)
                b_h = any(c.callee.get("trait") == K.TERMLIKE and K.meth(c.generic) == "height" for c in hb.calls)
            else:
                return None
        else:
            c = d["call"]
            m = re.search(r"std::cmp::Partial(?:Ord|Eq)::(gt|ge|lt|le|eq|ne)$", c.path)
            if not m or len(c.args) != 2:
                return None
            opn = m.group(1)
            ha, hb = b.slice_args(c, [0]), b.slice_args(c, [1])
            a_h = any(k.callee.get("trait") == K.TERMLIKE and K.meth(k.generic) == "height" for k in ha.calls)
            b_h = any(k.callee.get("trait") == K.TERMLIKE and K.meth(k.generic) == "height" for k in hb.calls)
        if a_h == b_h:
            return None
        if a_h:      # `height OP sum`  ->  `sum OP' height`
            opn = {"gt": "lt", "ge": "le", "lt": "gt", "le": "ge"}.get(opn, opn)
        return opn, not a_h, neg
    return None


def rule_height_guard(ctx, crate, rule="R-HEIGHT-GUARD"):
    cfg = crate.config
    info = emitter_commit_info(ctx, crate, rule)
    if not info:
        return
    b, p, commits, acc = info
    guards = height_guard_edges(b, acc)
    paints = line_paint_calls(b)
    ctx.floor(rule, len(paints), 1, cfg, "per-line write_str calls in the paint loop")
    if not paints:
        return
    if not acc:
        ctx.bad(rule, "commit-uses-painted-rows", b.name, "%s:%d" % (b.file, commits[0][2].get("line", 0)),
                "the committed row count does not derive from a per-line accumulation of painted rows (a truncated frame would not be erased correctly)", cfg)
        return
    if not guards:
        ctx.bad(rule, "no-height-test", b.name, K.fn_loc(b),
                "the paint loop never compares the rows painted so far plus the next line's rows with TermLike::height()", cfg)
        return
    # All "dominates" questions below are asked for an iteration whose line is a Bar: on the CFG specialised to that variant, with
    # flags folded (`let is_bar = matches!(line, Bar); if is_bar && over {break}; if is_bar {count}` tests the flag twice)
    _R_bar, avoid_bar = K.variant_reach(b, crate, LINETYPE, "Bar", want_avoid=True)
    avoid_bar = set(avoid_bar)

    def edge_dom(e, target):
        return b.edge_dominates(e, target) or (target in _R_bar and target not in b.reach([0], avoid_edges=avoid_bar | {e}))
    # classify guard edges: the edge from which a line paint is still reachable *within the same iteration*
    flush_bbs = {c.bb for c in tl_calls(b, "flush")}
    paint_bbs = {c.bb for c in paints}
    for sb, t, sl in guards:
        succs = b.succ(sb)
        fits = [x for x in succs if acc and any(edge_dom((sb, x), a.bb) for a in acc)]
        over = [x for x in succs if x not in fits]
        ok = bool(fits) and bool(over)
        # the overflow edge must leave the loop: reach flush without passing any line paint
        leaves = all(not (b.reach([x], avoid=flush_bbs) & paint_bbs) for x in over)
        ctx.check(ok and leaves, rule, "overflow-edge-stops-painting", b.name, "%s:%d" % (b.file, t.get("line", 0)),
                  "when the next bar line would exceed the terminal height, no further line is painted before flush()",
                  "the height test does not stop painting (lines beyond the terminal height can be written and scroll the region)", cfg)
        # a frame that needs exactly as many rows as the terminal has fits: at equality of (rows so far + this line's rows) and
        # height() the test takes the edge on which the line is painted
        cmpf = _height_cmp(b, sb, t)
        if cmpf is not None and ok:
            opn, sum_left, neg = cmpf
            # truth of `sum OP height` at equality
            at_eq = opn in ("ge", "le", "eq")
            if neg:
                at_eq = not at_eq
            zero = [tb for v, tb in t["targets"] if v == 0]
            eq_tgt = (t["otherwise"] if at_eq else (zero[0] if zero else None))
            ctx.check(eq_tgt in fits, rule, "fits-when-equal", b.name, "%s:%d" % (b.file, t.get("line", 0)),
                      "a line that exactly fills the remaining rows of the terminal is painted (the comparison is strict)",
                      "when the rows painted so far plus the next bar line's rows equal the terminal height the line is dropped (`>=` for `>`): a frame that "
                      "needs exactly as many rows as the terminal has loses its last line and the end-of-frame filler; on a 1x1 terminal nothing is ever painted", cfg)
        # compared value includes the running count
        runs = any(a.bb in {c.bb for c in sl.calls} or any(l in sl.locals for l in [K.operand_local(a.args[0])] if l is not None) for a in acc)
        run_ok = False
        for a in acc:
            refs = b.ref_origins().get(K.operand_local(a.args[0]), [])
            if any(tl in sl.locals for tl, tp in refs) or getattr(a, "running", None) in sl.locals:
                run_ok = True
        ctx.check(run_ok, rule, "guard-uses-running-height", b.name, "%s:%d" % (b.file, t.get("line", 0)),
                  "the comparison reads the running painted height",
                  "the height comparison does not involve the rows painted so far", cfg)
    # every bar-line paint is reachable only through a fits edge or a non-Bar edge
    fit_edges = []
    for sb, t, sl in guards:
        for x in b.succ(sb):
            if acc and any(edge_dom((sb, x), a.bb) for a in acc):
                fit_edges.append((sb, x))
    nonbar_edges = []
    for sb, t, pl, d in K.discr_switches(b):
        if K.head_of_type(pl.get("ty", "")) != LINETYPE:
            continue
        for tgt, vs in K.edge_variants(crate, t, LINETYPE).items():
            if "Bar" not in vs:
                nonbar_edges.append((sb, tgt))
    # (when the line's kind is first stored in a flag - `let is_bar = matches!(line, Bar); if is_bar {..}` - the Bar-specialised
    # CFG folds the flag: a bar line cannot take the `!is_bar` path around the height test)
    for c in paints:
        reach_wo = b.reach([0], avoid_edges=fit_edges + nonbar_edges)
        if c.bb in reach_wo:
            reach_wo = b.reach([0], avoid_edges=set(fit_edges) | set(avoid_bar))
        ctx.check(c.bb not in reach_wo, rule, "paint-guarded", b.name, c.loc(),
                  "a line is painted only after the height test passed (bar line) or for a text line",
                  "a bar line can be painted without passing the terminal-height test", cfg)
    # accumulation happens only on the fits edge, and the commit uses it
    for a in acc:
        ok = any(edge_dom(e, a.bb) for e in fit_edges)
        ctx.check(ok, rule, "accumulate-after-fit", b.name, a.loc(),
                  "painted rows are accumulated only for lines that passed the height test",
                  "rows are counted for a line that was not painted", cfg)
    ctx.check(bool(acc), rule, "commit-uses-painted-rows", b.name, "%s:%d" % (b.file, commits[0][2].get("line", 0)),
              "the committed row count derives from the per-line accumulation of painted rows (not the requested height)",
              "the committed row count does not derive from the rows actually painted (a truncated frame would not be erased correctly)", cfg)


# ---- VisualLines newtype discipline (C19) ------------------------------------------------------------

def rule_rows_newtype(ctx, crate, rule="R-ROWS-NEWTYPE"):
    cfg = crate.config
    n = 0
    # (a) aggregate constructions only inside impls for VisualLines
    for (b, i, j, s) in K.constructions(crate, VL):
        n += 1
        ok = bool(b.impl and b.impl.get("self_head") == VL)
        ctx.check(ok, rule, "construct", b.name, "%s:%d" % (b.file, s.get("line", 0)),
                  "VisualLines(..) built inside an impl for VisualLines",
                  "VisualLines constructed directly outside its own impls", cfg)
    # (b) conversions into VisualLines
    conv = []
    for b in K.lib_bodies(crate):
        if b.impl and b.impl.get("self_head") == VL:
            continue
        for c in b.calls(r"std::convert::Into::into", r"std::convert::From::from", r"<draw_target::VisualLines as std::convert::From<T>>::from"):
            if b.locals[c.dest["l"]].get("head") == VL and not c.dest["p"]:
                conv.append(c)
    for c in conv:
        b = c.body
        sl = b.slice_args(c)
        ok = sl.has_call(r"draw_target::LineType::console_width", r"console::measure_text_width") or \
            any(x.callee.get("trait") == K.TERMLIKE and K.meth(x.generic) == "height" for x in sl.calls)
        n += 1
        ctx.check(ok, rule, "convert:%s" % b.name, b.name, c.loc(),
                  "value converted into VisualLines derives from a measured column width (wrapped rows) or TermLike::height()",
                  "a quantity that is not a wrap-aware row count (e.g. a number of lines) is converted into VisualLines", cfg)
    ctx.floor(rule, len(conv), 1, cfg, "conversions into VisualLines")
    # (c) operands of LineAdjust::{Keep,Clear}
    na = 0
    for (b, i, j, s) in K.constructions(crate, "draw_target::LineAdjust"):
        na += 1
        sl = b.slice_rv(i, s)
        ok = K.deep_has_call(crate, sl, *HEIGHT_FNS) or sl.has_field("zombie_lines_count")
        ctx.check(ok, rule, "adjust-operand:%s" % s["rv"]["variant"], b.name, "%s:%d" % (b.file, s.get("line", 0)),
                  "LineAdjust::%s operand is a wrap-aware row count" % s["rv"]["variant"],
                  "LineAdjust::%s operand does not derive from visual_line_count/wrapped_height" % s["rv"]["variant"], cfg)
    ctx.floor(rule, na, 4, cfg, "LineAdjust constructions")
    return n


def rule_width_source(ctx, crate, rule="R-WIDTH-SOURCE"):
    cfg = crate.config
    n = 0
    WIDTHS = (r"draw_target::ProgressDrawTarget::width", r"multi::MultiState::width", r"draw_target::Drawable::<'_>::width",
              r"console::Term::size")
    for b in K.lib_bodies(crate):
        for c in b.calls(*HEIGHT_FNS):
            n += 1
            sl = b.slice_args(c, [len(c.args) - 1])
            from_term = sl.has_call(*WIDTHS) or any(x.callee.get("trait") == K.TERMLIKE and K.meth(x.generic) == "width" for x in sl.calls)
            passthrough = bool(sl.params()) or any(a[0] == "upvar" for a in sl.atoms)
            ctx.check(from_term or passthrough, rule, "width-arg:%s" % K.meth(c.path), b.name, c.loc(),
                      "wrap width comes from the target's width() (%s)" % ("queried here" if from_term else "passed through from the caller"),
                      "rows are measured with a width that does not come from the terminal being drawn to", cfg)
    ctx.floor(rule, n, 7, cfg, "wrapped_height/visual_line_count call sites")


def rule_finished_draws_forced(ctx, crate, rule="R-FINISHED-DRAWS-FORCED"):
    """Belief stated by `Drop for BarState` and used by MultiState::mark_zombie: a finished bar's stored draw
    state is what is on the screen (drop of a finished bar paints nothing and keeps exactly those rows). That
    holds only if every draw of a finished bar is forced; otherwise a rate-limited update of a finished bar
    stores lines that were never painted. Either BarState::draw ORs is_finished() into the flag it passes to
    drawable(), or the finished path of Drop must itself draw."""
    cfg = crate.config
    b = K.find_one(ctx, crate, rule, r"state::BarState::draw")
    d = K.find_one(ctx, crate, rule, r"<state::BarState as std::ops::Drop>::drop")
    if not b or not d:
        return
    cs = b.calls(K.PDT_DRAWABLE)
    ctx.floor(rule, len(cs), 1, cfg, "drawable() calls in BarState::draw")
    forced = True
    for c in cs:
        sl = b.slice_args(c, [1])
        isc, ze = cond_call(b, r"state::ProgressState::is_finished")
        forced = forced and sl.has_call(r"state::ProgressState::is_finished") and implied_true(b, c.args[1], c.bb, isc, ze)
    # alternative: Drop's finished path redraws
    redraws = False
    for sb, t in d.switches():
        if d.slice(t["op"], at=sb).has_call(r"state::ProgressState::is_finished"):
            reg = d.edge_region((sb, t["otherwise"]))
            redraws = any(d.term(x) and d.term(x)["k"] == "call" and Call(d, x, d.term(x)).matches(r"state::BarState::(draw|finish_using_style)") for x in reg)
    ctx.check(forced or redraws, rule, "finished-bar-draws", b.name, cs[0].loc() if cs else K.fn_loc(b),
              "draws of a finished bar are always forced (is_finished() is OR-ed into the flag): the stored draw state of a finished member is what is on screen",
              "a finished bar can be redrawn unforced: a rate-limited update stores lines that are never painted, and dropping the bar then keeps rows that are not on screen", cfg)


# ---- "condition true => flag true" evaluator (handles `flag |= c`, `flag || c`, copies) -----------------

def live_defs(b, local, at, at_idx=None):
    """Whole-local definitions that may reach the use at (block `at`, statement index `at_idx`; None = the terminator).
    A later whole-local def on every path kills earlier ones (including inside the use's own block)."""
    if at_idx is None:
        at_idx = 1 << 30
    ds = [d for d in b.defs().get(local, ()) if d["kind"] in ("param", "assign", "call") and not d.get("path")]
    same = [d for d in ds if d.get("bb", -1) == at and d["kind"] == "assign" and d.get("idx", 0) < at_idx]
    if same:
        return [max(same, key=lambda d: d.get("idx", 0))]
    out = []
    def_blocks = {d.get("bb", -1) for d in ds}
    for d in ds:
        dbb = d.get("bb", -1)
        if dbb == at:
            # a def later in the same block (or the block's own call): reaches only around a loop
            if at in b.reach_after(at):
                out.append(d)
            continue
        killers = [k for k in def_blocks if k >= 0 and k != dbb and k != at]
        start = [0] if dbb < 0 else b.succ(dbb)
        if dbb < 0 and at == 0:
            out.append(d)
        elif at in b.reach(start, avoid=killers):
            out.append(d)
    return out


def implied_true(b, op, at, is_cond_local, zero_edges, depth=0, visiting=None, at_idx=None):
    """Under the assumption that the condition holds, operand `op` (read at block `at`, statement `at_idx`) is true.
    is_cond_local(local, def) says whether a def *is* the condition value; zero_edges are the edges taken when the
    condition is false (defs only reachable through them are irrelevant)."""
    visiting = visiting or set()
    if is_const(op, True):
        return True
    l = operand_local(op)
    if l is None or (isinstance(op, dict) and op.get("place", {}).get("p")):
        return False
    key = (l, at, at_idx)
    if key in visiting:
        return True
    if depth > 8:
        return False
    visiting = visiting | {key}
    ds = live_defs(b, l, at, at_idx)
    if not ds:
        return False
    for d in ds:
        dbb = d.get("bb", -1)
        if dbb >= 0 and any(b.edge_dominates(e, dbb) for e in zero_edges):
            continue
        if is_cond_local(l, d):
            continue
        if d["kind"] == "assign":
            rv = d["rv"]
            if rv["k"] == "use":
                if not implied_true(b, rv["op"], dbb, is_cond_local, zero_edges, depth + 1, visiting, d.get("idx", 0)):
                    return False
            elif rv["k"] == "bin" and rv["op"] == "BitOr":
                if not (implied_true(b, rv["a"], dbb, is_cond_local, zero_edges, depth + 1, visiting, d.get("idx", 0)) or
                        implied_true(b, rv["b"], dbb, is_cond_local, zero_edges, depth + 1, visiting, d.get("idx", 0))):
                    return False
            else:
                return False
        else:
            return False
    return True


def cond_param(b, p):
    zero = []
    for sb, t in b.switches():
        sl = b.slice(t["op"], at=sb)
        if sl.params() == {p} and not sl.calls and not (("unop", "Not") in sl.atoms):
            z = [tb for v, tb in t["targets"] if v == 0]
            if z:
                zero.append((sb, z[0]))
    return (lambda l, d: d["kind"] == "param" and d.get("param") == p), zero


def cond_call(b, pat):
    zero = []
    for sb, t in b.switches():
        sl = b.slice(t["op"], at=sb, through_calls=False)
        if sl.has_call(pat) and not (("unop", "Not") in sl.atoms):
            z = [tb for v, tb in t["targets"] if v == 0]
            if z:
                zero.append((sb, z[0]))
    return (lambda l, d: d["kind"] == "call" and d["call"].matches(pat)), zero


def rule_erase_arith(ctx, crate, rule="R-ERASE-ARITH"):
    """Protocol constants of the erase phase (the frame's last row has no trailing newline, so the cursor sits on the
    frame's last row): reposition by (previous rows - 1); clear exactly `previous rows` rows."""
    cfg = crate.config
    b = the_emitter(ctx, crate, rule)
    if not b:
        return
    p = count_param(b)
    if p is None:
        ctx.lost(rule, cfg, "no row-count parameter")
        return
    bodies = [b] + [crate.bodies[c.path] for c in helper_calls(crate, b, "move_cursor_up", "clear_line")]
    n = 0
    for x in bodies:
        for c in tl_calls(x, "move_cursor_up"):
            sl = x.slice_args(c, [1])
            if x is b and p not in sl.locals:
                continue
            n += 1
            minus1 = any(k.matches(r"core::num::<impl usize>::(saturating_sub|checked_sub|wrapping_sub)") and is_const(k.args[1], 1) for k in sl.calls) or \
                any(d["kind"] == "assign" and d["rv"]["k"] == "bin" and d["rv"]["op"].startswith("Sub") and is_const(d["rv"]["b"], 1) for d in sl.defs)
            other = [k for k in sl.calls if k.matches(r"core::num::<impl usize>::\w+") and not (is_const(k.args[1], 1) and K.meth(k.path) in ("saturating_sub", "checked_sub", "wrapping_sub"))]
            ctx.check(minus1 and not other, rule, "up-by-rows-minus-one#%d" % (n - 1), x.name, c.loc(), "the cursor moves up by (previous rows - 1)",
                      "the cursor does not move up by exactly (previous rows - 1)", cfg)
        for c in tl_calls(x, "clear_line"):
            # the loop's range: 0..rows with rows unmodified
            rng = [(i, s) for i, j, s in x.assigns() if s["rv"]["k"] == "agg" and s["rv"].get("adt") == "std::ops::Range" and c.bb in x.reach_after(i)]
            okr = False
            for i, s in rng:
                st, en = s["rv"]["ops"]
                esl = x.slice(en, at=i)
                if is_const(st, 0) and not [k for k in esl.calls if k.matches(r"core::num::<impl usize>::\w+")] and not [a for a in esl.atoms if a[0] == "binop"] and (esl.params() or p in esl.locals):
                    okr = True
            if rng:
                n += 1
                ctx.check(okr, rule, "clear-exactly-rows", x.name, c.loc(), "the clear loop runs over 0..previous rows", "the clear loop does not cover exactly the previous rows", cfg)
    ctx.floor(rule, n, 2, cfg, "erase-phase arithmetic sites")


# ---- bar rows are exactly the '\n'-separated segments (C01 / C10 / C19) ---------------------------------------

SPLIT_NL = r"core::str::<impl str>::split"
LOSSY_SPLIT = (r"core::str::<impl str>::(lines|split_terminator|split_whitespace|split_ascii_whitespace|split_inclusive|splitn|rsplitn|rsplit|rsplit_terminator|trim|trim_end|trim_start|trim_matches|trim_end_matches|trim_start_matches|strip_suffix|strip_prefix)",)


def _is_nl(op):
    v = const_val(op)
    return v in ("\n", "\\n")


def _splits_on_newline(b, sl):
    """split calls in the slice whose separator is the constant '\\n'."""
    return [c for c in sl.calls if c.matches(SPLIT_NL) and len(c.args) >= 2 and _is_nl(c.args[1])]


def rule_bar_rows_split(ctx, crate, rule="R-BAR-ROWS-SPLIT"):
    """The paint routine states: "None of those lines contain newlines" (wrapped_height and the erase count measure a
    line as one logical row sequence). Every LineType::Bar therefore holds either one segment of `split('\\n')` over the
    rendered text — not of a splitter that drops trailing/blank segments such as `lines()` — or the whole text under a
    test that it contains no line break."""
    cfg = crate.config
    cons = [x for x in K.constructions(crate, LINETYPE, variant="Bar") if x[0].file not in K.TEST_DOUBLE_FILES
            and not ((x[0].impl or {}).get("trait") or "").startswith("std::clone::Clone")]      # a clone copies an existing row
    ctx.floor(rule, len(cons), 2, cfg, "LineType::Bar constructions")
    for k, (b, i, j, s) in enumerate(cons):
        op = s["rv"]["ops"][0]
        sl = b.slice(op, at=i)
        key = "bar-row#%d" % sum(1 for x in cons[:k] if x[0].name == b.name)
        loc = "%s:%d" % (b.file, s.get("line", 0))
        lossy = [c.path for c in sl.calls if c.matches(*LOSSY_SPLIT)]
        splits = _splits_on_newline(b, sl)
        src_sl, src_b = sl, b
        if b.kind == "Closure" and not splits and not lossy:
            # `.map(|line| LineType::Bar(line.to_string()))`: the item comes from the iterator the closure is applied to
            parent = crate.bodies.get(K.owner_fn(crate, b))
            if parent is not None:
                for pi, pj, ps in parent.assigns():
                    if ps["rv"]["k"] == "agg" and ps["rv"].get("ak") == "closure" and ps["rv"].get("def") == b.name:
                        cl = ps["lhs"]["l"]
                        for c in parent.calls():
                            if any(operand_local(a) == cl for a in c.args[1:]) and c.args:
                                rsl = parent.slice_args(c, [0])
                                lossy += [x.path for x in rsl.calls if x.matches(*LOSSY_SPLIT)]
                                splits += _splits_on_newline(parent, rsl)
        if lossy:
            ctx.bad(rule, key, b.name, loc, "a bar row is produced by %s, which drops trailing / blank segments or line-break characters: "
                    "the stored rows no longer correspond to the line breaks of the rendered text" % lossy[0], cfg)
            continue
        if splits:
            ctx.ok(rule, key, b.name, loc, "the row is one segment of split('\\n') over the rendered text", cfg)
            continue
        # the whole text as one row: needs a no-line-break test on the same string
        root_l = operand_local(op)
        roots = {root_l} | {tl for tl, tp in b.ref_origins().get(root_l, ())}
        for d in b.defs().get(root_l, ()):
            if d["kind"] == "assign" and d["rv"]["k"] == "use":
                roots.add(operand_local(d["rv"]["op"]))
        guarded = None
        for sb, t in b.switches():
            if t["op"]["k"] not in ("copy", "move"):
                continue
            l = operand_local(t["op"])
            ds = [d for d in b.defs().get(l, ()) if d["kind"] in ("assign", "call")]
            if len(ds) != 1:
                continue
            d = ds[0]
            zero = [tb for v, tb in t["targets"] if v == 0]
            if d["kind"] == "assign" and d["rv"]["k"] == "bin" and d["rv"]["op"] == "Eq":
                # len(first split segment) == len(whole)
                sa, sb_ = b.slice(d["rv"]["a"], at=sb), b.slice(d["rv"]["b"], at=sb)
                for x, y in ((sa, sb_), (sb_, sa)):
                    seg = _splits_on_newline(b, x) and x.has_call(r"core::str::<impl str>::len")
                    whole = y.has_call(r"std::string::String::len", r"core::str::<impl str>::len") and not _splits_on_newline(b, y) and (roots & y.locals)
                    if seg and whole and b.edge_dominates((sb, t["otherwise"]), i):
                        guarded = "first split('\\n') segment is as long as the whole text"
            elif d["kind"] == "call" and d["call"].matches(r"core::str::<impl str>::contains") and len(d["call"].args) >= 2 and _is_nl(d["call"].args[1]):
                if zero and b.edge_dominates((sb, zero[0]), i) and (roots & b.slice_args(d["call"], [0]).locals):
                    guarded = "contains('\\n') is false"
            elif d["kind"] == "call" and d["call"].matches(r"std::option::Option::<T>::is_(none|some)"):
                fsl = b.slice_args(d["call"], [0])
                finds = [c for c in fsl.calls if c.matches(r"core::str::<impl str>::find") and len(c.args) >= 2 and _is_nl(c.args[1])]
                if finds and (roots & fsl.locals):
                    none_edge = (sb, t["otherwise"]) if K.meth(d["call"].path) == "is_none" else ((sb, zero[0]) if zero else None)
                    if none_edge and b.edge_dominates(none_edge, i):
                        guarded = "find('\\n') is None"
        ctx.check(guarded is not None, rule, key, b.name, loc, "the whole text is one row only where %s" % guarded,
                  "a whole rendered string is stored as one bar row without a test that it contains no line break "
                  "(a '\\n' inside a row makes the painted height differ from the counted height)", cfg)


def rule_line_kinds(ctx, crate, rule="R-LINE-KIND-OWNERS"):
    """Only `LineType::Bar` rows are counted by the paint routine and erased by the next frame; `Text`/`Empty` are
    println output (painted once, moved to the orphan list of a MultiProgress). So the bar renderer builds Bar rows only,
    and Text/Empty rows are built only on the println paths."""
    cfg = crate.config
    g = K.callgraph(crate)
    render = K.cg_reach(g, [n for n in crate.bodies if re.fullmatch(r"style::ProgressStyle::format_state", n)])
    n = 0
    for (b, i, j, s) in K.constructions(crate, LINETYPE):
        if b.file in K.TEST_DOUBLE_FILES or ((b.impl or {}).get("trait") or "").startswith("std::clone::Clone"):
            continue
        n += 1
        v = s["rv"]["variant"]
        owner = K.owner_fn(crate, b)
        loc = "%s:%d" % (b.file, s.get("line", 0))
        if b.name in render or owner in render:
            ctx.check(v == "Bar", rule, "renderer-builds:%s" % v, b.name, loc, "the bar renderer produces LineType::Bar rows",
                      "the bar renderer produces a LineType::%s row: it is painted with the bar but neither counted nor erased with it "
                      "(and a MultiProgress moves it to the permanent text above the bars)" % v, cfg)
        else:
            ok = v in ("Text", "Empty") and K.meth(owner) == "println"
            ctx.check(ok, rule, "println-builds:%s" % v, b.name, loc, "println output is built as Text/Empty rows",
                      "a LineType::%s row is built in %s (outside the bar renderer and the println paths)" % (v, owner), cfg)
    ctx.floor(rule, n, 5, cfg, "LineType constructions")


def rule_shift_full_frame(ctx, crate, rule="R-SHIFT-FULL-FRAME"):
    """Bottom alignment: the rows written as padding above the frame are `previous rows - rows of the WHOLE new frame`
    (text lines included: printed text takes over vacated rows). The value compared with / subtracted from the previous row
    count under the Bottom edge is visual_line_count over all lines — not a count over a filtered subset."""
    cfg = crate.config
    b = the_emitter(ctx, crate, rule)
    if not b:
        return
    p = count_param(b)
    n = 0
    for vs, reg in K.variant_only_regions(b, crate, "multi::MultiProgressAlignment"):
        if vs != {"Bottom"}:
            continue
        # comparisons / subtractions in the Bottom region involving the previous row count
        for c in b.calls(r"std::cmp::PartialOrd::(lt|le|gt|ge)", r"std::ops::Sub::sub"):
            if c.bb not in reg and not any(x in reg for x in b.succ(c.bb)):
                continue
            sls = [b.slice_args(c, [k]) for k in range(len(c.args))]
            if not any(p in sl.locals for sl in sls):
                continue
            for sl in sls:
                if p in sl.locals:
                    continue
                n += 1
                full = sl.has_call(r"draw_target::DrawState::visual_line_count", r"draw_target::visual_line_count")
                filtered = sl.has_call(r"std::iter::Iterator::(filter|filter_map|skip|skip_while|take|take_while|step_by)") or \
                    any(a[0] == "closure" for a in sl.atoms) and not full
                rng_ok = True
                for vc in sl.calls:
                    if vc.matches(r"draw_target::DrawState::visual_line_count"):
                        ta = " ".join(vc.callee.get("targs") or []) + (vc.callee.get("generic_full") or "")
                        rng_ok = rng_ok and "RangeFull" in ta
                ctx.check(full and rng_ok and not filtered, rule, "%s-operand" % K.meth(c.path), b.name, c.loc(),
                          "the new height used for the Bottom-alignment shift is the wrap-aware height of all lines of the frame",
                          "the Bottom-alignment shift is computed from a subset of the frame's lines (text rows are not counted): padding is written above printed "
                          "text and the next redraw erases it", cfg)
    ctx.floor(rule, n, 1, cfg, "uses of the new frame height under MultiProgressAlignment::Bottom")


def rule_counted_rows_adjacent(ctx, crate, rule="R-COUNTED-ROWS-ADJACENT"):
    """The rows committed to the erase count are erased from the bottom of the region upwards, so every counted row must
    lie *below* every text line of the frame (text is never counted: R-TEXT-NOT-COUNTED). The per-line accumulation
    satisfies this by the frame layout (text lines first, bars after). Any other summand of the committed value that stands
    for rows painted *before* the line loop (the Bottom-alignment padding) is counted although text of the same frame —
    or output written after a clear() — lies between those rows and the bottom: the next draw erases that text."""
    cfg = crate.config
    info = emitter_commit_info(ctx, crate, rule)
    if not info:
        return
    pb, p, commits, acc = info
    b = the_emitter(ctx, crate, rule)
    paints = line_paint_calls(b) or line_paint_calls(pb)
    if not paints:
        ctx.lost(rule, cfg, "no per-line paint call found")
        return
    n = 0
    for vs, reg in K.variant_only_regions(b, crate, "multi::MultiProgressAlignment"):
        pads = [c for c in tl_calls(b, "write_line", "write_str") if c.bb in reg]
        if not pads:
            continue
        for i, j, s in commits:
            sl = b.slice_rv(i, s)
            counted = any(d.get("bb") in reg for d in sl.defs if d.get("kind") in ("assign", "call"))
            before_text = all(any(x.bb in b.reach_after(c.bb) for x in paints if x.body is b) or paints[0].body is not b for c in pads)
            n += 1
            v = "/".join(sorted(vs))
            ctx.check(not (counted and before_text), rule, "padding-above-text:%s" % v, b.name, pads[0].loc(),
                      "no counted row is painted above the frame's text lines",
                      "the %s-alignment padding rows are written before the frame's lines but added to the committed row count: with text in the frame "
                      "(println) or output written after clear() (suspend), the next draw erases that text instead of the padding" % v, cfg)
    ctx.floor(rule, n, 1, cfg, "alignment arms that paint padding rows")


def rule_every_line_painted(ctx, crate, rule="R-EVERY-LINE-PAINTED"):
    """"each completed redraw shows exactly the most recent rendering": inside the paint loop every line that is not cut off by
    the terminal-height test is written — the loop cannot start its next iteration without having passed the line's
    write (a `continue` for "empty" lines also skips the newline bookkeeping and the last-line filler that parks the cursor)."""
    cfg = crate.config
    info = emitter_commit_info(ctx, crate, rule)
    if not info:
        return
    pb, p, commits, acc = info
    paints = line_paint_calls(pb)
    ctx.floor(rule, len(paints), 1, cfg, "per-line paint calls")
    for k, c in enumerate(paints):
        loop = {c.bb} | {x for x in pb.reach_after(c.bb) if c.bb in pb.reach_after(x)}
        heads = [x for x in pb.calls(r"std::iter::Iterator::next") if x.bb in loop]
        if not heads:
            continue
        h = heads[0]
        start = pb.term(h.bb).get("t")
        # from the start of an iteration, can the header be reached again without passing the paint call?
        again = h.bb in pb.reach([start], avoid=[c.bb]) if start is not None else False
        # printed text is painted whatever its height: on the CFG specialised to a non-bar line neither the next iteration nor
        # the end of the loop can be reached from the start of an iteration without passing the paint call (the terminal-height
        # test concerns bar lines only - a log line higher than the terminal scrolls, it is not dropped)
        # (the iteration proper starts on the `Some` edge of the loop's `next()` test)
        body_start = None
        for sb, t in pb.switches():
            for st in pb.stmts(sb):
                if st.get("k") == "assign" and st["rv"]["k"] == "discr" and st["rv"]["place"]["l"] == h.dest["l"] and operand_local(t["op"]) == st["lhs"]["l"]:
                    some = [tb for v_, tb in t["targets"] if v_ == 1]
                    body_start = some[0] if some else t["otherwise"]
        if body_start is not None:
            flush_bbs_ = {x.bb for x in tl_calls(pb, "flush")}
            start_ = body_start
            for v in K.variant_names(crate, LINETYPE) or []:
                if v == "Bar":
                    continue
                _Rv, avoid_v = K.variant_reach(pb, crate, LINETYPE, v, want_avoid=True)
                err_ = set()
                for tk in pb.calls(K.TRY_BRANCH):
                    te = K.try_edges(pb, tk)
                    if te:
                        err_.add((te[0], te[2]))
                r_ = pb.reach([start_], avoid=[c.bb], avoid_edges=set(avoid_v) | err_)
                skipped = (h.bb in r_) or bool(r_ & flush_bbs_)
                ctx.check(not skipped, rule, "text-always-painted:%s#%d" % (v, k), pb.name, c.loc(),
                          "a %s line is written in every iteration that sees one" % v,
                          "a %s line (printed text) can be skipped or end the loop without being written: the terminal-height test applies to it, so a log line that "
                          "wraps to more rows than the terminal has is dropped together with everything after it" % v, cfg)
        ctx.check(not again, rule, "no-skipped-line#%d" % k, pb.name, c.loc(),
                  "every iteration of the paint loop that continues to the next line has written its line",
                  "the paint loop can go on to the next line without writing the current one (and without its newline / last-line filler)", cfg)


def rule_painted_line_terminated(ctx, crate, rule="R-PAINTED-LINE-TERMINATED", kinds=("text", "bar")):
    """Every line the paint routine writes is *terminated* before the frame is flushed; the obligation is checked separately for
    printed text (`terminated#k`) and for bar lines (`bar-terminated#k`, a known finding on this tree): after the line's own `write_str`
    comes either the newline that precedes the next painted line (`write_line`) or the end-of-frame filler that parks the
    cursor at the right edge (a `write_str` of a `repeat`ed string). Otherwise the cursor is left in the middle of that line
    and whatever is written next (the next frame, the user's own output) is glued to it — for a text line that means a
    println'ed line is corrupted. The walk from each paint call to `flush()` is path-sensitive in locally assigned
    Option/bool values (`let mut last = None; .. last = Some(..); .. if let Some(l) = last {filler}`)."""
    cfg = crate.config
    info = emitter_commit_info(ctx, crate, rule)
    if not info:
        return
    pb, p, commits, acc = info
    paints = line_paint_calls(pb)
    flushes = tl_calls(pb, "flush")
    ctx.floor(rule, len(paints), 1, cfg, "per-line paint calls")
    ctx.floor(rule, len(flushes), 1, cfg, "flush calls in the paint routine")
    if not paints or not flushes:
        return
    paint_bbs = {c.bb for c in paints}
    term_bbs = {c.bb for c in tl_calls(pb, "write_line")}
    for c in tl_calls(pb, "write_str"):
        if c.bb in paint_bbs:
            continue
        if pb.slice_args(c, [1]).has_call(r"(alloc|std|core)::str::<impl str>::repeat"):
            term_bbs.add(c.bb)
    flush_bbs = {c.bb for c in flushes}
    err = set()
    for k in pb.calls(K.TRY_BRANCH):
        te = K.try_edges(pb, k)
        if te:
            err.add((te[0], te[2]))

    def variant_assigned(st):
        """(local, variant name | bool) for `l = Option::Some{..}` / `l = None` / `l = const bool`"""
        if st.get("k") != "assign" or st["lhs"]["p"]:
            return None
        rv = st["rv"]
        if rv["k"] == "agg" and rv.get("ak") == "adt" and rv.get("variant") in ("Some", "None"):
            return st["lhs"]["l"], rv["variant"]
        if rv["k"] == "use" and rv["op"].get("k") == "const" and isinstance(rv["op"].get("v"), bool):
            return st["lhs"]["l"], rv["op"]["v"]
        return None

    def derived(st, env):
        """`l = !x` / `l = x` for a known bool x"""
        if st.get("k") != "assign" or st["lhs"]["p"]:
            return None
        rv = st["rv"]
        if rv["k"] == "un" and rv.get("op") == "Not":
            x = operand_local(rv.get("a"))
            if x in env and isinstance(env[x], bool):
                return st["lhs"]["l"], not env[x]
        if rv["k"] == "use" and rv["op"].get("k") in ("copy", "move") and not rv["op"]["place"]["p"]:
            x = operand_local(rv["op"])
            if x in env:
                return st["lhs"]["l"], env[x]
        return None
    # LineType tests: passing the Bar-only edge of one *within the iteration that painted the line* says the painted line is a bar
    bar_edges, text_edges = set(), set()
    for sb, t, pl, d in K.discr_switches(pb):
        if K.head_of_type(pl.get("ty", "")) != LINETYPE:
            continue
        for tgt, vs in K.edge_variants(crate, t, LINETYPE).items():
            if vs == {"Bar"}:
                bar_edges.add((sb, tgt))
            elif vs and "Bar" not in vs:
                text_edges.add((sb, tgt))
    next_bbs = {x.bb for x in pb.calls(r"std::iter::Iterator::next")}
    # the loop's own exhaustion exit is fine when the filler is tied to the last line by `index + 1 == lines.len()` (the last
    # iteration then wrote it): edges `next() == None` of a loop over lines.iter().enumerate() that contains such a filler
    done_edges = set()
    fillers = [c for c in tl_calls(pb, "write_str") if c.bb not in paint_bbs and pb.in_loop(c.bb) and pb.slice_args(c, [1]).has_call(r"(alloc|std|core)::str::<impl str>::repeat")]
    for nx in pb.calls(r"std::iter::Iterator::next"):
        nsl = pb.slice_args(nx, [0])
        # .. or an index loop `for idx in 0..self.lines.len()`
        over_len = any(k.matches(r"std::vec::Vec::<T, A>::len", r"core::slice::<impl \[T\]>::len") and pb.slice_args(k, [0]).has_field("lines") for k in nsl.calls)
        if not nsl.has_call(r"std::iter::Iterator::enumerate") and not nsl.has_call(r"std::iter::Iterator::peekable") and not over_len:
            continue
        it_ls = {tl for a_ in nx.args[:1] if operand_local(a_) is not None for tl, tp in pb.ref_origins().get(operand_local(a_), ())} | \
                ({operand_local(nx.args[0])} if nx.args and operand_local(nx.args[0]) is not None else set())
        tied = False
        for f in fillers:
            for sb, t in pb.switches():
                if not any(pb.edge_dominates((sb, x), f.bb) for x in pb.succ(sb)):
                    continue
                sl = pb.slice(t["op"], at=sb)
                lens = [k for k in sl.calls if k.matches(r"std::vec::Vec::<T, A>::len", r"core::slice::<impl \[T\]>::len") and pb.slice_args(k, [0]).has_field("lines")]
                if lens and any(k.bb == nx.bb for k in sl.calls) and ("binop", "Eq") in sl.atoms:
                    tied = True
                # or: "nothing follows" asked of the very iterator the loop consumes (`remaining.peek().is_none()`)
                for k in sl.calls:
                    if k.matches(r"std::iter::Peekable::<I>::peek") and k.args and operand_local(k.args[0]) is not None:
                        pk = {tl for tl, tp in pb.ref_origins().get(operand_local(k.args[0]), ())} | {operand_local(k.args[0])}
                        if pk & it_ls and (sl.has_call(r"std::option::Option::<T>::is_none") or sl.has_call(r"std::option::Option::<T>::is_some")):
                            tied = True
        if not tied:
            continue
        for sb, t in pb.switches():
            for st in pb.stmts(sb):
                if st.get("k") == "assign" and st["rv"]["k"] == "discr" and st["rv"]["place"]["l"] == nx.dest["l"] and operand_local(t["op"]) == st["lhs"]["l"]:
                    for v, tb in t["targets"]:
                        if v == 0:
                            done_edges.add((sb, tb))
                    if [v for v, tb in t["targets"]] == [1] and t.get("otherwise") is not None:
                        done_edges.add((sb, t["otherwise"]))      # `while let Some(..) = it.next()`: None is the otherwise edge

    def feasible_succ(bb, env):
        t = pb.term(bb)
        succs = [x for x in pb.succ(bb) if (bb, x) not in err]
        if not t or t["k"] != "switch":
            return succs
        l = operand_local(t["op"])
        if l is None or t["op"]["place"]["p"]:
            return succs
        val = None
        if l in env and isinstance(env[l], bool):
            val = int(env[l])
        else:
            for st in pb.stmts(bb):
                if st.get("k") == "assign" and st["lhs"]["l"] == l and st["rv"]["k"] == "discr" and not st["rv"]["place"]["p"]:
                    v = env.get(st["rv"]["place"]["l"])
                    if v in ("Some", "None"):
                        val = 1 if v == "Some" else 0
        if val is None:
            return succs
        tgt = [tb for v, tb in t["targets"] if v == val] or [t["otherwise"]]
        return [x for x in succs if x == tgt[0]]
    for k, (c, kind) in enumerate([(c_, kd) for c_ in paints for kd in ("text", "bar") if kd in kinds]):
        skip_edges = bar_edges if kind == "text" else text_edges
        # Walk one iteration of the paint loop from its start (so that flags describing the line - `let is_bar = matches!(..)` -
        # are known when the paint call is reached), under the assumption that this iteration's line is of `kind`; after the
        # paint call, follow every feasible path until the line is terminated, the next line is painted, or flush() is reached.
        loop_blocks = {c.bb} | {x for x in pb.reach_after(c.bb) if c.bb in pb.reach_after(x)}
        starts = [pb.term(nb).get("t") for nb in next_bbs if nb in loop_blocks and pb.term(nb).get("t") is not None]
        if not starts:
            starts = [pb.term(c.bb).get("t")]
            pre_passed = True
        else:
            pre_passed = False
        seen = set()
        work = [(st_, frozenset(), True, pre_passed) for st_ in starts if st_ is not None]
        leak = None
        trail = {}
        while work and leak is None:
            bb, envf, same_iter, passed = work.pop()
            if (bb, envf, same_iter, passed) in seen or len(seen) > 12000:
                continue
            seen.add((bb, envf, same_iter, passed))
            if passed and (bb in term_bbs or bb in paint_bbs):
                continue        # terminated - or the next line is being painted (its own walk covers what follows it)
            if bb in flush_bbs:
                if passed:
                    leak = bb
                    if os.environ.get("VERIF_DEBUG_TERMINATED"):
                        print("LEAK at", bb, "env", sorted(dict(envf).items()), "same_iter", same_iter, "trail", trail.get((bb, envf, same_iter, passed)))
                    break
                continue
            if bb in next_bbs:
                if not passed:
                    continue    # this iteration painted nothing: not the iteration we follow
                same_iter = False
            env = dict(envf)
            for st in pb.stmts(bb):
                va = variant_assigned(st) or derived(st, env)
                if va:
                    env[va[0]] = va[1]
                elif st.get("k") == "assign" and not st["lhs"]["p"] and st["lhs"]["l"] in env:
                    del env[st["lhs"]["l"]]
            tt = pb.term(bb)
            if tt and tt["k"] == "call" and not tt["dest"]["p"] and tt["dest"]["l"] in env:
                del env[tt["dest"]["l"]]
            now_passed = passed or bb == c.bb
            for x in feasible_succ(bb, env):
                if same_iter and (bb, x) in skip_edges:
                    continue        # this iteration's line is of the other kind
                if (bb, x) in done_edges:
                    continue        # all lines painted: the last iteration wrote the filler
                work.append((x, frozenset(env.items()), same_iter, now_passed))
                if os.environ.get("VERIF_DEBUG_TERMINATED"):
                    trail.setdefault((x, frozenset(env.items()), same_iter, now_passed), (trail.get((bb, envf, same_iter, passed)) or []) + [bb])
        if kind == "text":
            ctx.check(leak is None, rule, "terminated#%d" % (k // len(kinds)), pb.name, c.loc(),
                      "after a line of printed text is written, flush() is reached only through the next line's newline or the end-of-frame filler",
                      "a painted line can be followed by flush() with neither a newline nor the end-of-frame filler (the height test leaves the loop right after it): "
                      "the cursor stays in the middle of that line and the next frame is appended to it (a println'ed line above an oversized bar reads \"log 1aaa\")", cfg)
        else:
            ctx.check(leak is None, rule, "bar-terminated#%d" % (k // len(kinds)), pb.name, c.loc(),
                      "after a bar line is written, flush() is reached only through the next line's newline or the end-of-frame filler",
                      "the last bar line painted before the terminal-height test cuts the frame short gets no end-of-frame filler: the cursor stays behind it. The next erase "
                      "copes with that as long as the row is still counted, but when all painted rows are handed over as zombie rows (finished head bars dropped) the row count is 0 "
                      "and the next frame is glued to the kept row (2x20 terminal, A = \"a1\\na2\", B = \"b\": tick both, finish+drop A, tick B shows \"a2b\")", cfg)


def rule_cr_needs_rows(ctx, crate, rule="R-ERASE-STAYS-IN-REGION"):
    """The erase phase may only touch rows of the region. With a previous row count of zero the region is empty and the cursor
    still sits on the row the previous output ended on (parked at its right edge by the end-of-frame filler): a carriage
    return written then goes back to the start of *that* row, and the frame is painted over it. Every `write_str("\\r")` of
    the paint routine must be dominated by a test that the previous row count is non-zero."""
    cfg = crate.config
    b = the_emitter(ctx, crate, rule)
    if not b:
        return
    p = count_param(b)
    if p is None:
        ctx.lost(rule, cfg, "emitter has no unique &mut VisualLines parameter")
        return
    crs = [c for c in tl_calls(b, "write_str") if len(c.args) > 1 and b.slice_args(c, [1], through_calls=False).consts() & {"\r"}]
    for k, c in enumerate(crs):
        guarded = False
        for sb, t in b.switches():
            sl = b.slice(t["op"], at=sb)
            if p not in sl.locals:
                continue
            cs = {x for x in sl.consts() if isinstance(x, int) and not isinstance(x, bool)}
            if not (cs & {0, 1}) or not [a for a in sl.atoms if a[0] == "binop" and a[1] in ("Eq", "Ne", "Gt", "Ge", "Lt", "Le")]:
                continue
            if any(b.edge_dominates((sb, x), c.bb) for x in b.succ(sb)):
                guarded = True
        ctx.check(guarded, rule, "carriage-return-on-empty-region#%d" % k, b.name, c.loc(),
                  "the carriage return of the erase phase is written only when the region has rows",
                  "the erase phase writes \"\\r\" also when the previous row count is 0 (move_cursor mode): the cursor is still on the row the previous output ended on, "
                  "so the frame is painted over that row - mp.set_move_cursor(true); mp.println(\"hello\"); bar.tick() replaces \"hello\" by the bar", cfg)
    ctx.extra.setdefault("erase_cr_sites", {})[cfg] = len(crs)


def rule_counted_newline_row_followed(ctx, crate, rule="R-FRAME-ENDS-ON-COUNTED-ROW"):
    """The paint routine leaves the cursor *on* the last row it counts (every painted line is followed by a newline only when
    another line comes; the last one gets the right-edge filler): the next erase starts from there. Blank padding rows
    (`write_line("")` in a loop whose trip count flows into the committed count - Bottom alignment) each end with a
    newline, i.e. they leave the cursor one row *below* themselves. That is consistent only when another row of the frame is
    painted there. If the frame can end right after the padding (no line left to paint: clear(), suspend(), the last bar
    finished-and-cleared), the cursor is parked one row below the counted region: the next erase wipes a row that is not
    part of the region and the whole region drifts down one row per clear/suspend (scrolling the screen at the bottom).
    Checked: from every counted padding write there is no path to `flush()` that paints no line."""
    cfg = crate.config
    info = emitter_commit_info(ctx, crate, rule)
    if not info:
        return
    pb, p, commits, acc = info
    paints = line_paint_calls(pb)
    flushes = tl_calls(pb, "flush")
    if not paints or not flushes:
        ctx.lost(rule, cfg, "paint routine without per-line paint calls or flush()")
        return
    pads = [c for c in tl_calls(pb, "write_line") if pb.in_loop(c.bb) and len(c.args) > 1
            and pb.slice_args(c, [1], through_calls=False).consts() & {""} and not pb.slice_args(c, [1]).has_call(r"std::convert::AsRef::as_ref")]
    eb = the_emitter(ctx, crate, rule)
    cloc = set()
    for i, j, s_ in ([(i, j, s_) for i, j, s_ in eb.assigns() if s_["lhs"]["l"] == count_param(eb) and "*" in s_["lhs"]["p"]] if eb is pb else []):
        cloc |= pb.slice_rv(i, s_).locals
    err_blocks = set()
    for k in pb.calls(K.TRY_BRANCH):
        te = K.try_edges(pb, k)
        if te:
            err_blocks |= pb.edge_region((te[0], te[2]))
    n = 0
    for c in pads:
        # counted? the loop the padding is written in is driven by a row count that also reaches the commit
        drivers = [nx for nx in pb.calls(r"std::iter::Iterator::next") if c.bb in pb.reach_after(nx.bb) and nx.bb in pb.reach_after(c.bb)]
        counted = False
        for nx in drivers:
            ls = pb.slice_args(nx, [0]).locals
            if any(pb.locals[l].get("head") == VL and l in cloc for l in ls):
                counted = True
        if not counted:
            continue
        k = n
        n += 1
        seen = pb.reach([c.target] if c.target is not None else [], avoid={x.bb for x in paints} | err_blocks)
        leak = sorted(x.bb for x in flushes if x.bb in seen)
        ctx.check(not leak, rule, "padding-then-nothing#%d" % k, pb.name, c.loc(),
                  "after a counted, newline-terminated padding row another row of the frame is always painted",
                  "a frame can end right after newline-terminated padding rows that are part of the committed count (MultiProgressAlignment::Bottom with "
                  "nothing left to paint): the cursor is left one row below the counted region, so every clear()/suspend() moves the region down one row "
                  "and the erase wipes a row that never belonged to it", cfg)
    ctx.extra.setdefault("counted_padding_sites", {})[cfg] = n


def rule_overwrite_covers_row(ctx, crate, rule="R-OVERWRITE-COVERS-ROW"):
    """"no remnant of any earlier frame": the erase phase has a branch that does not clear the old rows (move-cursor mode: go up,
    carriage return, overwrite). In that mode a line that is shorter than what its row showed before leaves the tail of the old
    content on the row ("done" over "working very hard" reads "doneing very hard") unless the paint routine blanks the rest of
    the row. The last line gets the end-of-frame filler (R-PAINTED-LINE-TERMINATED); every *other* line is followed by the
    newline written in front of the next line - so whenever an overwrite branch exists, that newline write carries a run of
    blanks (`" ".repeat(n)`) whose length derives from the measured width of a line. Decided: the structure (an overwrite branch
    exists => every in-loop newline write carries such a run); not the value of n."""
    cfg = crate.config
    info = emitter_commit_info(ctx, crate, rule)
    if not info:
        return
    pb, p, commits, acc = info
    paints = line_paint_calls(pb)
    if not paints:
        ctx.lost(rule, cfg, "no per-line paint call in the paint routine")
        return
    clears = tl_calls(pb, "clear_line")
    clear_loops = set()
    for c in clears:
        clear_loops |= {c.bb} | {y for y in pb.reach_after(c.bb) if c.bb in pb.reach_after(y)}
    overwrite = any(c.bb in pb.reach([0], avoid=clear_loops) for c in paints) and bool(clears) and \
        any(x.bb in pb.reach([0], avoid=clear_loops) for x in tl_calls(pb, "move_cursor_up", "move_cursor_left") + [k for k in tl_calls(pb, "write_str") if pb.slice_args(k, [1], through_calls=False).consts() & {"\r"}])
    ctx.extra.setdefault("overwrite_branch", {})[cfg] = bool(overwrite)
    if not overwrite:
        ctx.check(True, rule, "no-overwrite-branch", pb.name, K.fn_loc(pb), "every erase path clears the old rows", "", cfg)
        return
    n = 0
    for c in paints:
        loop = {c.bb} | {y for y in pb.reach_after(c.bb) if c.bb in pb.reach_after(y)}
        for w in tl_calls(pb, "write_line"):
            if w.bb not in loop or len(w.args) < 2:
                continue
            sl = pb.slice_args(w, [1])
            blank = sl.has_call(r"(alloc|std|core)::str::<impl str>::repeat") and sl.has_call(r"draw_target::LineType::console_width", r"console::measure_text_width", r"draw_target::LineType::wrapped_height")
            n += 1
            ctx.check(blank, rule, "newline-blanks-row#%d" % (n - 1), pb.name, w.loc(),
                      "the newline between two painted lines blanks the rest of the row it leaves",
                      "an erase branch overwrites the old rows without clearing them (move-cursor mode), but a painted line that is not the last one is followed by a bare newline: "
                      "a line shorter than the row's previous content leaves its tail on screen - `finish_with_message(\"done\")` over \"working very hard\" reads \"doneing very hard\"", cfg)
    ctx.floor(rule, n, 1, cfg, "newline writes between painted lines")


def rule_render_unless_hidden(ctx, crate, rule="R-RENDER-UNLESS-HIDDEN"):
    """Every function that rebuilds a bar's stored rendering (it takes the slot's DrawState, which empties it, and draws)
    renders the bar again unless it is finished-and-cleared: on the CFG specialised to status = DoneHidden the call to
    ProgressStyle::format_state is unreachable; for InProgress and DoneVisible every path from the entry to the final
    `Drawable::draw` passes it (the `None` edges of Option tests - no drawable, no width - excepted). The two siblings
    (`BarState::draw`, `BarState::println`) must agree: a `println` that skips the rendering of every *finished* bar makes a
    visibly finished bar vanish from its slot."""
    cfg = crate.config
    n = 0
    for b in K.lib_bodies(crate):
        if b.kind == "Closure":
            continue
        fmts = b.calls(r"style::ProgressStyle::format_state")
        draws = b.calls(r"draw_target::Drawable::<'_>::draw")
        if not fmts or not draws:
            continue
        n += 1
        is_status = lambda pl: bool(place_fields(pl)) and place_fields(pl)[-1][2] == "status"
        none_edges = set()
        for sb, t, pl, d in K.discr_switches(b):
            if K.head_of_type(pl.get("ty", "")) != "std::option::Option":
                continue
            for tgt, vs in K.edge_variants(crate, t, "std::option::Option").items():
                if vs == {"None"}:
                    none_edges.add((sb, tgt))
        fbbs = {c.bb for c in fmts}
        for v in K.variant_names(crate, "state::Status") or []:
            R, avoid = K.variant_reach(b, crate, "state::Status", v, is_status, want_avoid=True)
            if v == "DoneHidden":
                ctx.check(not (fbbs & R), rule, "%s:hidden-not-rendered" % K.meth(b.name), b.name, fmts[0].loc(),
                          "a finished-and-cleared bar is not rendered", "a finished-and-cleared bar is rendered again (it reappears)", cfg)
            else:
                esc = b.reach([0], avoid=fbbs, avoid_edges=set(avoid) | none_edges) & {c.bb for c in draws}
                ctx.check(not esc, rule, "%s:%s-rendered" % (K.meth(b.name), v), b.name, fmts[0].loc(),
                          "a bar in state %s is rendered on every path to the draw" % v,
                          "%s can reach its draw without rendering a bar in state %s (a condition other than `status is DoneHidden` skips format_state): the slot's "
                          "lines were taken, so the bar vanishes from the frame" % (K.meth(b.name), v), cfg)
    ctx.floor(rule, n, 2, cfg, "functions that render and draw a bar")


def rule_rows_finite(ctx, crate, rule="R-ROWS-FINITE"):
    """Row accounting must stay finite for every terminal width, 0 included: in the drawing code (draw_target.rs, multi.rs)
    every float division whose quotient is converted to an integer (rows = ceil(columns / width)) has a divisor that
    cannot be zero - it is clamped with `max(_, k >= 1)`, is a non-zero constant, or the division is dominated by an edge
    of a comparison of the divisor's source with zero. (x / 0.0 is inf or NaN: `as usize` gives usize::MAX or 0 and the
    integer arithmetic on row counts that follows overflows.)"""
    cfg = crate.config
    n = 0
    for b in K.lib_bodies(crate):
        if b.file not in ("src/draw_target.rs", "src/multi.rs"):
            continue
        for i, j, s in b.assigns():
            rv = s["rv"]
            if rv["k"] != "bin" or rv["op"] != "Div" or b.locals[s["lhs"]["l"]]["ty"] not in ("f64", "f32") or s["lhs"]["p"]:
                continue
            # does the quotient reach a float-to-int cast?
            q = s["lhs"]["l"]
            toint = False
            for i2, j2, s2 in b.assigns():
                if s2["rv"]["k"] == "cast" and s2["rv"].get("ck", "").startswith("FloatToInt"):
                    sl = b.slice(s2["rv"]["op"], at=i2)
                    if q in sl.locals:
                        toint = True
            if not toint:
                continue
            n += 1
            ok, why = _nonzero_float(b, rv["b"], i)
            ctx.check(ok, rule, "divisor-nonzero", b.name, "%s:%d" % (b.file, s.get("line", 0)),
                      "rows = columns / width is computed with a divisor that cannot be zero (%s)" % why,
                      "a row count is computed as columns / width with a width that can be zero: a terminal reporting 0 columns makes "
                      "every non-empty line usize::MAX rows high and the row arithmetic that follows overflows (%s)" % why, cfg)
    ctx.floor(rule, n, 1, cfg, "float divisions converted to row counts in draw_target.rs / multi.rs")


def _nonzero_float(b, op, at, depth=0):
    if depth > 6 or not isinstance(op, dict):
        return False, "divisor not resolved"
    if op.get("k") == "const":
        v = const_val(op)
        try:
            return (float(v) != 0.0), "constant %s" % v
        except (TypeError, ValueError):
            return False, "constant"
    l = operand_local(op)
    if l is None or op["place"]["p"]:
        return False, "divisor is a field/projection"
    ds = [d for d in b.defs().get(l, ()) if d["kind"] in ("assign", "call") and b.def_reaches(d, at)]
    if len(ds) != 1:
        # a parameter or several definitions: look for a dominating zero test
        return _guarded_nonzero(b, l, at)
    d = ds[0]
    if d["kind"] == "assign" and d["rv"]["k"] in ("use", "cast"):
        return _nonzero_float(b, d["rv"]["op"], d["bb"], depth + 1)
    if d["kind"] == "call":
        c = d["call"]
        if c.matches(r"std::cmp::Ord::(max|clamp)", r"core::num::<impl \w+>::(max|clamp)", r"std::cmp::max", r"core::f64::<impl f64>::max", r"std::f64::<impl f64>::max"):
            lows = [const_val(a) for a in (c.args[1:2] if K.meth(c.path) == "clamp" else c.args)]
            if any(isinstance(v, int) and not isinstance(v, bool) and v >= 1 for v in lows):
                return True, "clamped with %s(_, >= 1)" % K.meth(c.path)
            if any(isinstance(v, str) and v.replace(".", "", 1).isdigit() and float(v) > 0 for v in lows):
                return True, "clamped with a positive float"
        if c.matches(r"std::convert::(From::from|Into::into)") and c.args:
            return _nonzero_float(b, c.args[0], c.bb, depth + 1)
        if c.matches(r"core::num::nonzero::NonZero::<T>::get"):
            return True, "NonZero"
    g = _guarded_nonzero(b, l, at)
    return g if g[0] else (False, "no clamp, constant or zero test on the divisor")


def _guarded_nonzero(b, l, at):
    """The block is dominated by an edge of `x == 0` (false) / `x != 0`, `x > 0`, `x >= 1` (true) for x the source of local l."""
    src = l
    for _ in range(4):
        ds = [d for d in b.defs().get(src, ()) if d["kind"] != "param"]
        if len(ds) == 1 and ds[0]["kind"] == "assign" and ds[0]["rv"]["k"] in ("use", "cast") and operand_local(ds[0]["rv"]["op"]) is not None \
                and not ds[0]["rv"]["op"]["place"]["p"]:
            src = operand_local(ds[0]["rv"]["op"])
    for sb, t in b.switches():
        zt = [tb for v, tb in t["targets"] if v == 0]
        tl = operand_local(t["op"])
        if tl is None or not zt:
            continue
        if tl == src and b.locals[tl]["ty"] != "bool":
            if b.edge_dominates((sb, t["otherwise"]), at) and t["otherwise"] != zt[0]:
                return True, "inside `match width { 0 => .., _ => here }`"
            continue
        ds = [d for d in b.defs().get(tl, ()) if d["kind"] == "assign" and d["rv"]["k"] == "bin"]
        if len(ds) != 1:
            continue
        rv = ds[0]["rv"]
        a_l, b_l = operand_local(rv["a"]), operand_local(rv["b"])
        def is_src(x):
            if x is None:
                return False
            cur = x
            for _ in range(4):
                if cur == src:
                    return True
                dd = [d for d in b.defs().get(cur, ()) if d["kind"] != "param"]
                if len(dd) == 1 and dd[0]["kind"] == "assign" and dd[0]["rv"]["k"] in ("use", "cast") and operand_local(dd[0]["rv"]["op"]) is not None:
                    cur = operand_local(dd[0]["rv"]["op"])
                else:
                    break
            return cur == src
        ca, cb = const_val(rv["a"]), const_val(rv["b"])
        op = rv["op"]
        if is_src(b_l) and ca is not None:
            op = {"Gt": "Lt", "Lt": "Gt", "Ge": "Le", "Le": "Ge"}.get(op, op)
            cb = ca
        elif not (is_src(a_l) and cb is not None):
            continue
        true_e, false_e = (sb, t["otherwise"]), (sb, zt[0])
        nz_true = (op, cb) in (("Ne", 0), ("Gt", 0), ("Ge", 1))
        nz_false = (op, cb) in (("Eq", 0), ("Le", 0), ("Lt", 1))
        if nz_true and b.edge_dominates(true_e, at):
            return True, "under `width %s %s`" % (op, cb)
        if nz_false and b.edge_dominates(false_e, at):
            return True, "after `width %s %s` was excluded" % (op, cb)
    return False, "no zero test dominates the division"
