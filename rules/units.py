"""Engine E: unit (qualifier) inference on integer values: Cols (display columns), Bytes (byte offsets /
lengths of strings), Count (element counts), Rows. Flow-insensitive, per body, over (local, path)."""
import re
from collections import defaultdict

from . import common as K
from .facts import Call, operand_local, const_val

COLS, BYTES, COUNT, ROWS, MIXED = "Cols", "Bytes", "Count", "Rows", "Mixed"

COLS_FNS = (r"console::measure_text_width", r"draw_target::LineType::console_width", r"console::utils::measure_text_width", r"style::measure")
BYTES_FNS = (r"core::str::<impl str>::len", r"std::string::String::len", r"core::str::<impl str>::find", r"core::str::<impl str>::rfind")
COUNT_FNS = (r"std::vec::Vec::<T, A>::len", r"core::slice::<impl \[T\]>::len", r"std::iter::Iterator::count", r"core::str::<impl str>::chars")
ROWS_FNS = (r"draw_target::VisualLines::as_usize",)
PASS_FNS = (r"core::num::<impl usize>::(saturating_sub|saturating_add|min|max|wrapping_sub|wrapping_add|checked_sub|checked_add|abs_diff)",
            r"std::cmp::Ord::(min|max)", r"std::cmp::(min|max)", r"std::convert::(Into::into|From::from)", r"std::option::Option::<T>::unwrap_or",
            r"std::option::Option::<T>::unwrap", r"std::option::Option::<T>::unwrap_or_default")
FIELD_QUALS = {("style::PaddedStringDisplay", "width"): COLS, ("style::TemplatePart", "width"): COLS,
               ("style::ProgressStyle", "char_width"): COLS}
BYTE_SINKS = (r"core::str::<impl str>::(get|get_mut|get_unchecked|split_at|split_at_mut|is_char_boundary|split_at_checked)",
              r"std::string::String::(truncate|split_off|insert|insert_str|remove|drain|replace_range)",
              r"core::str::traits::<impl std::ops::Index<I> for str>::index", r"std::ops::Index::index")
ARITH = ("Add", "Sub", "AddWithOverflow", "SubWithOverflow", "AddUnchecked", "SubUnchecked")
CMPS = ("Lt", "Le", "Gt", "Ge", "Eq", "Ne")


def ppath(p):
    out = []
    for e in p["p"]:
        if isinstance(e, dict) and "f" in e:
            out.append(str(e.get("n", e["f"])))
    return tuple(out)


class Units:
    def __init__(self, crate, body):
        self.crate = crate
        self.b = body
        self.q = defaultdict(set)
        self.mixes = []     # (bb, line, op, qa, qb)
        self._run()

    def place_q(self, p):
        for e in p["p"]:
            if isinstance(e, dict) and "f" in e and (e.get("adt"), e.get("n")) in FIELD_QUALS:
                return {FIELD_QUALS[(e.get("adt"), e.get("n"))]}
        key = (p["l"], ppath(p))
        out = set(self.q.get(key, ()))
        # reading through a pointer to a tracked local
        if "*" in p["p"]:
            for (tl, tp) in self.b.ref_origins().get(p["l"], ()):
                out |= self.q.get((tl, tuple(x for x in tp if x not in ("*", "[]")) + ppath(p)), set())
        return out

    def op_q(self, o):
        if not isinstance(o, dict) or o.get("k") == "const":
            return set()
        return self.place_q(o["place"])

    def _mix(self, bb, line, op, qa, qb):
        if (COLS in qa and BYTES in qb) or (BYTES in qa and COLS in qb):
            rec = (bb, line, op, "+".join(sorted(qa)), "+".join(sorted(qb)))
            if rec not in self.mixes:
                self.mixes.append(rec)
            return True
        return False

    def _set(self, key, quals):
        before = len(self.q[key])
        self.q[key] |= quals
        return len(self.q[key]) != before

    def _run(self):
        b = self.b
        changed = True
        rounds = 0
        while changed and rounds < 12:
            changed = False
            rounds += 1
            for i, j, s in b.assigns():
                rv = s["rv"]
                lhs = (s["lhs"]["l"], ppath(s["lhs"]))
                k = rv["k"]
                if k in ("use", "cast"):
                    changed |= self._set(lhs, self.op_q(rv["op"]))
                elif k in ("ref", "copyderef"):
                    changed |= self._set(lhs, self.place_q(rv["place"]))
                elif k == "bin":
                    qa, qb = self.op_q(rv["a"]), self.op_q(rv["b"])
                    op = rv["op"]
                    line = s.get("line", 0)
                    if op in ARITH:
                        mixed = self._mix(i, line, op, qa, qb)
                        res = {MIXED} if mixed else (qa | qb)
                        if op.endswith("WithOverflow"):
                            changed |= self._set((lhs[0], lhs[1] + ("0",)), res)
                        else:
                            changed |= self._set(lhs, res)
                    elif op in CMPS:
                        self._mix(i, line, op, qa, qb)
                    elif op in ("Div", "Rem", "Shr") and const_val(rv["b"]) is not None:
                        changed |= self._set(lhs, qa)
                    elif op == "Div" and qa and qa == qb:
                        pass  # ratio
                elif k == "agg":
                    names = rv.get("fields")
                    if rv["ak"] == "tuple":
                        names = [str(x) for x in range(len(rv["ops"]))]
                    if names:
                        for n, o in zip(names, rv["ops"]):
                            changed |= self._set((lhs[0], lhs[1] + (n,)), self.op_q(o))
            for c in b.calls():
                dest = (c.dest["l"], ppath(c.dest))
                if c.matches(*COLS_FNS):
                    changed |= self._set(dest, {COLS})
                elif c.matches(*BYTES_FNS):
                    # the length of an ASCII string constant is a compile-time number: as many columns as bytes
                    from .affine import const_str_of
                    cs = const_str_of(b, c.args[0], c.bb) if c.args and K.meth(c.path) == "len" else None
                    if cs is not None and cs.isascii() and cs.isprintable():
                        continue
                    changed |= self._set(dest, {BYTES})
                elif c.matches(*COUNT_FNS):
                    changed |= self._set(dest, {COUNT})
                elif c.matches(*ROWS_FNS):
                    changed |= self._set(dest, {ROWS})
                elif c.callee.get("trait") == K.TERMLIKE and K.meth(c.generic) == "width":
                    changed |= self._set(dest, {COLS})
                elif c.matches(*PASS_FNS):
                    qs = [self.op_q(a) for a in c.args]
                    if len(qs) >= 2:
                        mixed = self._mix(c.bb, c.line, K.meth(c.path), qs[0], qs[1])
                        res = {MIXED} if mixed else set().union(*qs)
                    else:
                        res = set().union(*qs) if qs else set()
                    changed |= self._set(dest, res)


def arm_of(crate, b, bb, adt="style::Alignment"):
    for vs, reg, sb, pl in K.variant_regions(b, crate, adt):
        if len(vs) == 1 and bb in reg:
            return next(iter(vs))
    return "-"
