"""Run the rustc_private fact extractor (engine A) on a source tree and cache the result.

Facts are keyed by a content hash of the analysed tree (Cargo.toml, Cargo.lock, src/**), which is
recomputed on every invocation: an edited tree is always re-analysed, an unchanged one is not.
Dependency artefacts are kept in /verif/.cache/target/<config>; the workspace crate's own
fingerprint is deleted before every run so that cargo cannot skip the wrapper.
"""
import fcntl
import glob
import hashlib
import json
import os
import shutil
import subprocess
import sys
import time

VERIF = os.path.dirname(os.path.dirname(os.path.abspath(__file__)))
CACHE = os.environ.get("VERIF_CACHE", os.path.join(VERIF, ".cache"))
DRIVER = os.path.join(VERIF, "driver", "target", "release", "ivdriver")
DRIVER_SRC = [os.path.join(VERIF, "driver", "src", "main.rs"), os.path.join(VERIF, "driver", "src", "json.rs")]

ALL_FEATURES = "tokio,rayon,futures,in_memory,improved_unicode"
CONFIGS = {
    "default": [],
    "all": ["--features", ALL_FEATURES],
    "nodefault": ["--no-default-features"],
    "tokio": ["--features", "tokio"],
    "rayon": ["--features", "rayon"],
    "futures": ["--features", "futures"],
    "in_memory": ["--features", "in_memory"],
    "improved_unicode": ["--features", "improved_unicode"],
}
QUICK_CONFIGS = ["default", "all"]
THOROUGH_CONFIGS = ["default", "all", "nodefault", "tokio", "rayon", "futures", "in_memory", "improved_unicode"]

RUSTFLAGS = "-Zmir-opt-level=0 -Zinline-mir=no -Coverflow-checks=on -Cdebug-assertions=off -Awarnings"
MIN_BODIES = 250  # the crate has 330+ bodies in its smallest configuration


def repo_root():
    return os.environ.get("VERIF_REPO", "/repo")


def tree_hash(root):
    h = hashlib.sha256()
    files = []
    for name in ("Cargo.toml", "Cargo.lock", "build.rs"):
        p = os.path.join(root, name)
        if os.path.isfile(p):
            files.append(p)
    for dp, dn, fn in os.walk(os.path.join(root, "src")):
        dn.sort()
        for f in sorted(fn):
            files.append(os.path.join(dp, f))
    for p in sorted(files):
        h.update(os.path.relpath(p, root).encode())
        h.update(b"\0")
        with open(p, "rb") as fh:
            h.update(fh.read())
        h.update(b"\0")
    # the driver itself is part of the key
    for p in DRIVER_SRC:
        with open(p, "rb") as fh:
            h.update(fh.read())
    h.update(RUSTFLAGS.encode())
    return h.hexdigest()[:24]


def sysroot_lib():
    out = subprocess.run(["rustc", "+nightly", "--print", "sysroot"], capture_output=True, text=True, check=True)
    return os.path.join(out.stdout.strip(), "lib")


def ensure_driver():
    if not os.path.isfile(DRIVER) or any(os.path.getmtime(s) > os.path.getmtime(DRIVER) for s in DRIVER_SRC):
        env = dict(os.environ, CARGO_NET_OFFLINE="true")
        r = subprocess.run(["cargo", "build", "--release", "--offline"], cwd=os.path.join(VERIF, "driver"),
                           env=env, capture_output=True, text=True)
        if r.returncode != 0:
            sys.stderr.write(r.stderr)
            raise SystemExit("driver build failed")


def facts_path(root, config):
    return os.path.join(CACHE, "facts", tree_hash(root), config + ".json")


def extract(root, config, log=None):
    """Return the path of the fact file for (root tree, config), running the driver if needed."""
    ensure_driver()
    out = facts_path(root, config)
    if os.path.isfile(out):
        return out, 0.0, True
    os.makedirs(os.path.dirname(out), exist_ok=True)
    tdir = os.path.join(CACHE, "target", config)
    os.makedirs(tdir, exist_ok=True)
    lock = open(os.path.join(tdir, ".verif.lock"), "w")
    fcntl.flock(lock, fcntl.LOCK_EX)
    try:
        if os.path.isfile(out):
            return out, 0.0, True
        # force the wrapper to run for the workspace crate
        for d in glob.glob(os.path.join(tdir, "debug", ".fingerprint", "indicatif-*")):
            shutil.rmtree(d, ignore_errors=True)
        env = dict(os.environ)
        env.update({
            "LD_LIBRARY_PATH": sysroot_lib() + ":" + env.get("LD_LIBRARY_PATH", ""),
            "RUSTFLAGS": RUSTFLAGS,
            "RUSTC_WORKSPACE_WRAPPER": DRIVER,
            "CARGO_TARGET_DIR": tdir,
            "CARGO_NET_OFFLINE": "true",
            "IV_OUT": out + ".tmp.%d" % os.getpid(),      # (published atomically below: readers never see a half-written file)
            "IV_CRATE": "indicatif",
            "CARGO_INCREMENTAL": "0",
        })
        env.pop("RUSTC_WRAPPER", None)
        cmd = ["cargo", "+nightly", "check", "--offline", "--lib", "--manifest-path",
               os.path.join(root, "Cargo.toml")] + CONFIGS[config]
        t0 = time.time()
        r = subprocess.run(cmd, cwd=root, env=env, capture_output=True, text=True)
        dt = time.time() - t0
        tmp_out = out + ".tmp.%d" % os.getpid()
        if r.returncode == 0 and os.path.isfile(tmp_out):
            os.replace(tmp_out, out)
        if r.returncode != 0 or not os.path.isfile(out):
            try:
                os.unlink(tmp_out)
            except OSError:
                pass
            sys.stderr.write(r.stderr[-6000:])
            raise SystemExit("BUILD-FAILED: fact extraction failed for config %s (tree does not compile?)" % config)
        with open(out) as fh:
            d = json.load(fh)
        if len(d.get("bodies", [])) < MIN_BODIES:
            os.unlink(out)
            raise SystemExit("ANCHOR-LOST: fact file for %s lists %d bodies (< %d)" % (config, len(d.get("bodies", [])), MIN_BODIES))
        return out, dt, False
    finally:
        fcntl.flock(lock, fcntl.LOCK_UN)
        lock.close()


def extract_many(root, configs):
    """Extract several configurations in parallel (one cargo process each)."""
    from concurrent.futures import ThreadPoolExecutor
    with ThreadPoolExecutor(max_workers=min(8, len(configs))) as ex:
        res = list(ex.map(lambda c: (c,) + extract(root, c), configs))
    return {c: (p, dt, cached) for c, p, dt, cached in res}


def prune_cache(keep_hashes, max_keep=6):
    """Keep the fact cache small: newest max_keep hashes only."""
    fdir = os.path.join(CACHE, "facts")
    if not os.path.isdir(fdir):
        return
    ents = sorted(((os.path.getmtime(os.path.join(fdir, e)), e) for e in os.listdir(fdir)), reverse=True)
    now = time.time()
    for i, (mt, e) in enumerate(ents):
        # (never an entry a check running in parallel may be reading: only entries that have not been touched for hours)
        if i >= max_keep and e not in keep_hashes and now - mt > 4 * 3600:
            shutil.rmtree(os.path.join(fdir, e), ignore_errors=True)


if __name__ == "__main__":
    root = repo_root()
    cfgs = sys.argv[1:] or QUICK_CONFIGS
    for c, (p, dt, cached) in extract_many(root, cfgs).items():
        print(c, p, "%.1fs" % dt, "cached" if cached else "fresh")
