"""Behaviour-preserving refactors (equiv/<name>.json): the thorough tier applies each to a scratch copy and
requires the check to stay silent. A report on one of them is a false alarm of the checker."""
import glob
import json
import os
import shutil

from . import extract, mutants

VERIF = os.path.dirname(os.path.dirname(os.path.abspath(__file__)))


def load():
    out = []
    for p in sorted(glob.glob(os.path.join(VERIF, "equiv", "*.json"))):
        m = json.load(open(p))
        m["_name"] = os.path.splitext(os.path.basename(p))[0]
        out.append(m)
    return out


def run_one(root, m, prop):
    scratch = mutants.make_scratch(root)
    try:
        why = mutants.apply_edits(scratch, m["edits"])
        if why:
            return {"refactor": m["_name"], "status": "skipped", "reason": why}
        code, out, err = mutants.run_check_on(scratch, prop)
        if "BUILD-FAILED" in err or "BUILD-FAILED" in out:
            return {"refactor": m["_name"], "status": "skipped", "reason": "does not compile on this tree"}
        fails = [l for l in out.splitlines() if l.startswith("FAIL rule=") or l.startswith("ANCHOR-LOST")]
        return {"refactor": m["_name"], "status": "silent" if code == 0 else "FALSE-ALARM", "reports": fails[:4]}
    finally:
        shutil.rmtree(scratch, ignore_errors=True)


def run_all(ctx, prop):
    if os.environ.get("VERIF_NO_EVIDENCE"):
        return
    from concurrent.futures import ThreadPoolExecutor
    root = extract.repo_root()
    ms = [m for m in load() if not m.get("properties") or prop in m["properties"]]
    with ThreadPoolExecutor(max_workers=6) as ex:
        res = list(ex.map(lambda m: run_one(root, m, prop), ms))
    fa = [r for r in res if r["status"] == "FALSE-ALARM"]
    ctx.extra["refactor_silence"] = {"refactors": len(ms), "silent": sum(1 for r in res if r["status"] == "silent"),
                                     "skipped": sum(1 for r in res if r["status"] == "skipped"), "false_alarms": fa}
    print("refactors property=%s applied=%d silent=%d false_alarms=%d" % (prop, len(ms), sum(1 for r in res if r["status"] == "silent"), len(fa)))
    for r in fa:
        ctx.lost("REFACTOR-SILENCE", "scratch", "behaviour-preserving refactor %s makes the check report %s" % (r["refactor"], r["reports"][:2]))
