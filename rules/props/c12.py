"""C12 — field width, alignment and truncation contract (unit discipline + padding structure)."""
import re

from .. import common as K
from .. import units as U
from ..facts import Call, operand_local, place_fields, is_const, const_val

EXPLANATION = ("Decides unit discipline by qualifier inference over style.rs and draw_target.rs: column counts (measure_text_width, "
               "console_width, template widths) and byte quantities (str::len, byte offsets) are never mixed in +, - or comparisons; "
               "no column-qualified value is used as a byte offset of a string; padding counts and field widths are column-qualified. "
               "Also decides the padding structure: pad = width.saturating_sub(cols) split (0,d)/(d,0)/(d/2,d-d/2) by alignment, "
               "over-wide content is written unshortened unless truncate is set, and wide_msg is a truncating field whose width is the "
               "columns left on the line.")
UNDECIDED = "The rendered width for all strings (value-level), Center split rounding, ANSI sequences cut by a slice (a consequence of the known finding)."

FILES = ("src/style.rs", "src/draw_target.rs")
PSD = "style::PaddedStringDisplay"


def run(ctx, crate):
    K.rule_no_unsafe(ctx, crate)
    rule_units(ctx, crate)
    rule_pad_structure(ctx, crate)
    rule_wide_msg(ctx, crate)
    rule_width_always_applied(ctx, crate)
    rule_width_parsed_exact(ctx, crate)
    rule_trunc_keeps_width(ctx, crate)
    rule_padded_content_is_text(ctx, crate)
    # "wide_msg behaves as a truncating field as wide as the rest of the line": the wide element goes where its marker is and
    # nowhere else (text containing the marker character would get a second copy spliced in: the line overflows)
    from .c11 import rule_marker_out_of_band
    rule_marker_out_of_band(ctx, crate)


def rule_padded_content_is_text(ctx, crate, rule="R-PADDED-CONTENT-IS-TEXT"):
    """"when it overflows exactly W columns are kept - from the start, the middle or the end according to the alignment": the one
    place that knows the alignment is the padding/truncation step, so the text handed to it is the placeholder's whole text. A text
    that was shortened beforehand (`console::truncate_str`, a slice, `trim..`) never overflows there: the step's alignment-dependent
    cut does not run, and a right- or centre-aligned truncating field keeps the *start* of its text (seed C12m)."""
    cfg = crate.config
    n = 0
    OKP = (r"std::ops::Deref::deref", r"<std::string::String as std::ops::Deref>::deref", r"std::string::String::as_str", r"std::convert::AsRef::as_ref",
           r"std::borrow::Borrow::borrow", r"state::TabExpandedString::expanded", r"<std::borrow::Cow<'_, B> as std::ops::Deref>::deref")
    for (b, i, j, st) in K.constructions(crate, "style::PaddedStringDisplay"):
        rv = st["rv"]
        if "str" not in rv.get("fields", []):
            continue
        n += 1
        # the value chain from the operand back to the buffer that holds the rendered text (its writers are not of interest here)
        other, seen_, work_ = [], set(), [operand_local(rv["ops"][rv["fields"].index("str")])]
        while work_:
            l_ = work_.pop()
            if l_ is None or l_ in seen_ or len(seen_) > 40:
                continue
            seen_.add(l_)
            if b.locals[l_]["ty"] in ("std::string::String",) or l_ <= b.arg_count:
                continue
            for d in b.defs().get(l_, ()):
                if d.get("via_ref") is not None or d.get("lhs", {}).get("p"):
                    continue
                if d["kind"] == "assign":
                    r_ = d["rv"]
                    if r_["k"] in ("use", "cast"):
                        work_.append(operand_local(r_.get("op")))
                    elif r_["k"] in ("ref", "copyderef"):
                        work_.append(r_["place"]["l"])
                elif d["kind"] == "call":
                    k = d["call"]
                    if not k.matches(*OKP):
                        other.append(K.meth(k.path))
                    if k.args:
                        work_.append(operand_local(k.args[0]))
        other = sorted(set(other))
        ctx.check(not other, rule, "content:%s" % K.meth(K.owner_fn(crate, b)), b.name, "%s:%d" % (b.file, st.get("line", 0)),
                  "the padding/truncation step receives the placeholder's text as it was rendered",
                  "the text handed to the padding/truncation step was already transformed by %s: the step no longer sees the overflow, its alignment-dependent cut does "
                  "not run (a right/centre-aligned `{key:W!}` keeps the start of its text)" % other, cfg)
    ctx.floor(rule, n, 2, cfg, "constructions of PaddedStringDisplay")


def rule_units(ctx, crate, rule="R-UNITS"):
    cfg = crate.config
    n_bodies = 0
    n_q = 0
    n_sinks = 0
    for b in K.lib_bodies(crate):
        if b.file not in FILES:
            continue
        u = U.Units(crate, b)
        n_bodies += 1
        n_q += sum(1 for k, v in u.q.items() if v)
        seen = set()
        for (bb, line, op, qa, qb) in u.mixes:
            arm = U.arm_of(crate, b, bb)
            key = "mix:%s:%s~%s@%s" % (op.replace("WithOverflow", ""), qa, qb, arm)
            if key in seen:
                continue
            seen.add(key)
            ctx.bad(rule, key, b.name, "%s:%d" % (b.file, line),
                    "%s between a %s value and a %s value: columns and byte lengths differ for every non-ASCII / wide / ANSI-coloured string" % (op, qa, qb), cfg)
        # byte-offset sinks
        for c in b.calls(*U.BYTE_SINKS):
            st = (c.callee.get("self_ty") or "") + " ".join(c.callee.get("targs", [])[:1])
            if not ("str" in st or "String" in st or c.matches(r"core::str::.*", r"std::string::String::.*")):
                continue
            for a in c.args[1:]:
                l = operand_local(a)
                if l is None:
                    continue
                n_sinks += 1
                direct = u.op_q(a)
                parts = {"": direct}
                for fld in ("start", "end"):
                    parts[fld] = set(u.q.get((l, (fld,)), set()))
                for fld, qs in sorted(parts.items()):
                    if U.COLS in qs:
                        # attribute to the defining aggregates per alignment arm
                        arms = cols_def_arms(crate, b, u, l, fld)
                        for arm in arms or ["-"]:
                            ctx.bad(rule, "byte-offset-from-cols:%s@%s" % (fld or "offset", arm), b.name, c.loc(),
                                    "a column count is used as the byte offset `%s` of %s" % (fld or "offset", K.meth(c.path)), cfg)
                    elif qs:
                        ctx.ok(rule, "byte-offset:%s:%s" % (fld or "offset", "+".join(sorted(qs))), b.name, c.loc(),
                               "byte offset is %s-qualified" % "+".join(sorted(qs)), cfg)
        # padding counts: " ".repeat(n)
        for c in b.calls(r"std::str::<impl str>::repeat"):
            if " " not in b.slice_args(c, [0]).consts():
                continue
            qs = u.op_q(c.args[1])
            n_sinks += 1
            ctx.check(U.BYTES not in qs and U.COUNT not in qs, rule, "pad-count:%s" % K.meth(K.owner_fn(crate, b)), b.name, c.loc(),
                      "the number of padding spaces is %s" % ("+".join(sorted(qs)) or "unqualified"),
                      "the number of padding spaces is a %s quantity" % "+".join(sorted(qs)), cfg)
        # field widths
        for (cb, i, j, s) in K.constructions(crate, PSD, bodies=[b]):
            rv = s["rv"]
            op = rv["ops"][rv["fields"].index("width")]
            qs = u.op_q(op)
            n_sinks += 1
            ctx.check(not (qs & {U.BYTES, U.COUNT, U.MIXED}), rule, "field-width:%s" % K.meth(K.owner_fn(crate, b)), b.name, "%s:%d" % (b.file, s.get("line", 0)),
                      "PaddedStringDisplay.width is %s" % ("+".join(sorted(qs)) or "a template width"),
                      "PaddedStringDisplay.width is a %s quantity" % "+".join(sorted(qs)), cfg)
    ctx.floor(rule, n_bodies, 60, cfg, "bodies of style.rs/draw_target.rs analysed")
    ctx.floor(rule, n_q, 25, cfg, "qualified integer places")
    ctx.floor(rule, n_sinks, 4, cfg, "byte-offset / padding / width sinks")
    # the measure used for columns is the wrap-aware console measure
    b = crate.find(r"<style::PaddedStringDisplay<'_> as std::fmt::Display>::fmt")
    if b:
        ctx.check(bool(b[0].calls(r"console::measure_text_width")), rule, "measures-columns", b[0].name, K.fn_loc(b[0]),
                  "content is measured with console::measure_text_width", "content is not measured in columns", cfg)
    else:
        ctx.lost(rule, cfg, "PaddedStringDisplay::fmt not found")


def cols_def_arms(crate, b, u, l, fld):
    """Alignment arms whose definition of (l, fld) is column-qualified."""
    arms = []
    seen = set()

    def walk(local, path, depth):
        if depth > 6 or (local, path) in seen:
            return
        seen.add((local, path))
        for d in b.defs().get(local, ()):
            if d["kind"] != "assign":
                continue
            rv = d["rv"]
            lp = tuple(x for x in d["path"])
            if rv["k"] == "agg":
                names = rv.get("fields") or [str(i) for i in range(len(rv["ops"]))]
                want = path[len(lp):]
                if want and want[0] in names:
                    o = rv["ops"][names.index(want[0])]
                    ol = operand_local(o)
                    if len(want) == 1:
                        if U.COLS in u.op_q(o):
                            # is the qualification created here or inherited from a tuple?
                            sub = []
                            if ol is not None:
                                before = len(arms)
                                walk(ol, tuple(x for x in U.ppath(o["place"])), depth + 1)
                                if len(arms) == before:
                                    arms.append(U.arm_of(crate, b, d["bb"]))
                            else:
                                arms.append(U.arm_of(crate, b, d["bb"]))
                    elif ol is not None:
                        walk(ol, U.ppath(o["place"]) + tuple(want[1:]), depth + 1)
            elif rv["k"] in ("use", "cast") and lp == path[:len(lp)]:
                o = rv["op"]
                ol = operand_local(o)
                if ol is not None:
                    walk(ol, U.ppath(o["place"]) + tuple(path[len(lp):]), depth + 1)

    walk(l, (fld,) if fld else (), 0)
    out = []
    for a in arms:
        if a not in out:
            out.append(a)
    return out


def rule_pad_structure(ctx, crate, rule="R-PAD-STRUCTURE"):
    cfg = crate.config
    bs = crate.find(r"<style::PaddedStringDisplay<'_> as std::fmt::Display>::fmt")
    if not bs:
        ctx.lost(rule, cfg, "PaddedStringDisplay::fmt not found")
        return
    b = bs[0]
    # diff = width.saturating_sub(cols)
    diffs = []
    for c in b.calls(r"core::num::<impl usize>::saturating_sub"):
        s0, s1 = b.slice_args(c, [0], through_calls=False), b.slice_args(c, [1], through_calls=False)
        if s0.has_field("width", PSD) and s1.has_call(r"console::measure_text_width"):
            diffs.append(c)
    ctx.check(len(diffs) == 1, rule, "pad-total", b.name, K.fn_loc(b), "total padding = width.saturating_sub(columns)", "total padding is not width - columns (saturating)", cfg)
    if not diffs:
        return
    # (how the total is split per alignment is decided by R-TRUNC-CONSERVES: left + right = width - columns, on linear forms)
    # over-wide, non-truncating: the whole string is written and nothing else
    ws = b.calls(r"std::fmt::Formatter::<'a>::write_str")
    whole = []
    for c in ws:
        sl = b.slice_args(c, [1], through_calls=False)
        if sl.has_field("str", PSD) and not sl.calls:
            whole.append(c)
    ok = False
    psd_fields = {f_["name"]: f_["ty"] for v_ in crate.adts.get(PSD, {}).get("variants", []) for f_ in v_["fields"]}
    if psd_fields.get("truncate") != "bool":
        ctx.lost(rule, cfg, "PaddedStringDisplay has no bool field named `truncate` any more (fields: %s)" % sorted(psd_fields))
        return
    for c in whole:
        for sb, t in b.switches():
            sl = b.slice(t["op"], at=sb)
            if sl.has_field("truncate", PSD):
                z = [tb for v, tb in t["targets"] if v == 0]
                neg = ("unop", "Not") in sl.atoms
                e = (sb, t["otherwise"]) if neg else ((sb, z[0]) if z else None)
                if e and b.edge_dominates(e, c.bb):
                    ok = True
    ctx.check(ok, rule, "untruncated-when-not-requested", b.name, K.fn_loc(b), "without `!` over-wide content is written whole",
              "over-wide content is shortened although truncation was not requested (or never written whole)", cfg)
    # (what is written around the content, how many and on which side: R-TRUNC-CONSERVES `pads=diff` / `pad-side`)
    # whatever the width (0 included) the content is written - whole, or cut when truncation was requested: no path to a normal
    # return bypasses every write of `self.str`
    contents = [c for c in ws + b.calls(r"std::fmt::Write::write_str") if len(c.args) > 1 and b.slice_args(c, [1]).has_field("str", PSD)]
    err = set()
    for k in b.calls(K.TRY_BRANCH):
        te = K.try_edges(b, k)
        if te:
            err.add((te[0], te[2]))
    leak = b.reach([0], avoid={c.bb for c in contents}, avoid_edges=err) & set(b.return_blocks())
    ctx.check(bool(contents) and not leak, rule, "content-always-written", b.name, K.fn_loc(b), "every path through the padded field writes its content",
              "the padded field can return without writing its content (an early return for a 'degenerate' width): `{msg:0}` without `!` must show the whole message", cfg)


def rule_wide_msg(ctx, crate, rule="R-WIDE-MSG"):
    cfg = crate.config
    bs = crate.find(r"style::WideElement::<'_>::expand")
    if not bs:
        ctx.lost(rule, cfg, "WideElement::expand not found")
        return
    b = bs[0]
    cons = K.constructions(crate, PSD, bodies=[b])
    ctx.floor(rule, len(cons), 1, cfg, "PaddedStringDisplay built for wide_msg")
    for (cb, i, j, s) in cons:
        rv = s["rv"]
        f = dict(zip(rv["fields"], rv["ops"]))
        missing = [k for k in ("truncate", "width", "str", "align") if k not in f]
        if missing:
            ctx.lost(rule, cfg, "PaddedStringDisplay no longer has the field(s) %s this rule names" % missing)
            continue
        ctx.check(is_const(f["truncate"], True), rule, "truncates", b.name, "%s:%d" % (b.file, s.get("line", 0)), "wide_msg always truncates",
                  "wide_msg does not truncate: a long message makes the line wider than the terminal", cfg)
        wsl = b.slice(f["width"], at=i)
        ok = wsl.has_call(r"console::measure_text_width") and wsl.has_call(r"core::num::<impl usize>::saturating_sub") and \
            (any(b.locals[p]["ty"] == "u16" for p in wsl.params()) or any(a[0] == "field" and "width" in str(a[2]) for a in wsl.atoms))
        ctx.check(ok, rule, "width-is-rest-of-line", b.name, "%s:%d" % (b.file, s.get("line", 0)), "width = terminal width - measured rest of the line (saturating)",
                  "wide_msg's width is not the columns left on the line", cfg)
        narrowed = wsl.has_field("message", "state::ProgressState") or wsl.has_call(r"std::cmp::Ord::(min|max|clamp)", r"core::num::<impl usize>::(min|max|clamp)", r"std::cmp::(min|max)")
        ctx.check(not narrowed, rule, "width-is-exactly-rest-of-line", b.name, "%s:%d" % (b.file, s.get("line", 0)),
                  "the field width does not depend on the message and is not narrowed (the alignment pads to the whole rest of the line)",
                  "wide_msg's field width depends on the message or is narrowed with min/max: a short message is no longer padded to the rest of the line on the side chosen by the alignment", cfg)
        ssl = b.slice(f["str"], at=i)
        ctx.check(ssl.has_call(r"state::TabExpandedString::expanded") and ssl.has_field("message"), rule, "shows-message", b.name, "%s:%d" % (b.file, s.get("line", 0)),
                  "wide_msg shows the expanded message", "wide_msg does not show the bar's message", cfg)
        asl = b.slice(f["align"], at=i)
        ctx.check(asl.has_field("align") or any("Alignment" in b.locals[l]["ty"] for l in asl.locals), rule, "keeps-alignment", b.name, "%s:%d" % (b.file, s.get("line", 0)),
                  "the placeholder's alignment is kept", "the placeholder's alignment is ignored", cfg)
    # `left` for wide_bar too
    for c in b.calls(r"style::ProgressStyle::format_bar"):
        wsl = b.slice_args(c, [2])
        ok = wsl.has_call(r"console::measure_text_width") and wsl.has_call(r"core::num::<impl usize>::saturating_sub")
        ctx.check(ok, rule, "wide-bar-width", b.name, c.loc(), "wide_bar is as wide as the columns left on the line", "wide_bar's width is not the columns left on the line", cfg)
    rule_placeholder_fields_forwarded(ctx, crate, rule)


def rule_placeholder_fields_forwarded(ctx, crate, rule="R-PLACEHOLDER-FIELDS-FORWARDED"):
    """format_state: a placeholder with a width goes through PaddedStringDisplay with that width/align/truncate (shared with C10:
    what the template declared is what is rendered)."""
    cfg = crate.config
    fs = crate.body("style::ProgressStyle::format_state")
    n = 0
    if fs:
        for (cb, i, j, s) in K.constructions(crate, PSD, bodies=[fs]):
            rv = s["rv"]
            f = dict(zip(rv["fields"], rv["ops"]))
            # the format fields: those of the padded field that the placeholder declares under the same name
            tp_fields = {fl[1] for cb2, i2, j2, s2 in K.constructions(crate, "style::TemplatePart") for fl in [(None, n_) for n_ in s2["rv"].get("fields", [])]}
            names = [k for k in f if k in tp_fields]
            if len(names) < 3:
                ctx.lost(rule, cfg, "PaddedStringDisplay and TemplatePart::Placeholder share %d field names (%s): cannot pair width/alignment/truncation" % (len(names), names))
                continue
            ok = all(fs.slice(f[k], at=i).has_field(k, "style::TemplatePart")
                     and not fs.slice(f[k], at=i, through_calls=False).calls_matching(r"core::num::.*", r"std::cmp::.*", r"std::ops::.*", r"std::option::Option::<T>::(map|unwrap_or.*|and_then|filter)")
                     and not [a for a in fs.slice(f[k], at=i, through_calls=False).atoms if a[0] in ("binop", "unop")] for k in names)
            ctx.check(ok, rule, "placeholder-fields-forwarded", fs.name, "%s:%d" % (fs.file, s.get("line", 0)),
                      "width, alignment and truncate flag of the placeholder are the ones the template specified",
                      "the padded field does not use the placeholder's own width/alignment/truncate", cfg)
            n += 1
    ctx.floor(rule, n, 1, cfg, "padded fields built in format_state")


def rule_width_always_applied(ctx, crate, rule="R-WIDTH-ALWAYS-APPLIED"):
    """A placeholder that carries a width is always rendered through the padding/truncating field, whatever its content
    (including empty content): within an iteration of format_state's loop every path from the placeholder's value being
    produced to the next part passes the test on the placeholder's `width`, and the Some edge always builds and writes a
    PaddedStringDisplay."""
    cfg = crate.config
    from .c11 import key_arms
    b = K.find_one(ctx, crate, rule, r"style::ProgressStyle::format_state")
    if not b:
        return
    heads = [c for c in b.calls(r"std::iter::Iterator::next") if b.slice_args(c, [0]).has_field("parts")]
    if not heads:
        ctx.lost(rule, cfg, "loop over template parts not found")
        return
    H = heads[0].bb
    wsw = []
    for sb, t, pl, d in K.discr_switches(b):
        if K.head_of_type(pl.get("ty", "")) == "std::option::Option" and b.slice(pl, at=sb).has_field("width", "style::TemplatePart"):
            ev = K.edge_variants(crate, t, "std::option::Option")
            some_t = [tb for tb, vs in ev.items() if vs == {"Some"}]
            if some_t and b.in_loop(sb):
                wsw.append((sb, some_t[0]))
    # the per_sec arm tests width for its own precision: keep only switches that dominate a PaddedStringDisplay construction
    cons = [i for (cb, i, j, s) in K.constructions(crate, PSD, bodies=[b])]
    wsw = [(sb, st) for sb, st in wsw if any(b.edge_dominates((sb, st), i) for i in cons)]
    ctx.check(bool(wsw), rule, "width-test-exists", b.name, K.fn_loc(b), "the placeholder's width is tested and the Some edge builds a PaddedStringDisplay",
              "format_state no longer routes width placeholders through PaddedStringDisplay", cfg)
    if not wsw:
        return
    arms = key_arms(b)
    n = 0
    sw_bbs = [sb for sb, st in wsw]
    for k, (c, reg) in sorted(arms.items()):
        # from the arm's entry, every path back to the loop header passes a width test
        tgt = b.term(c.target)["otherwise"] if c.target is not None else None
        if tgt is None:
            continue
        n += 1
        ok = H not in b.reach([tgt], avoid=sw_bbs) or tgt in sw_bbs
        ctx.check(ok, rule, "arm:%s" % k, b.name, c.loc(), "after `%s` is rendered the width test is reached on every path" % k,
                  "`%s` can skip the width/padding step (e.g. for empty content): the field is not W columns wide" % k, cfg)
    # custom keys too
    for w in [x for x in b.calls() if x.callee.get("trait") == "style::ProgressTracker" and K.meth(x.generic) == "write"]:
        n += 1
        ok = H not in b.reach(b.succ(w.bb), avoid=sw_bbs)
        ctx.check(ok, rule, "custom-key", b.name, w.loc(), "custom keys are padded like built-in ones", "custom keys can skip the width/padding step", cfg)
    for sb, st in wsw:
        ok = b.must_pass([st], cons, to=[H])
        ctx.check(ok, rule, "some-builds-field", b.name, "%s:%d" % (b.file, b.term(sb).get("line", 0)), "with a width, a PaddedStringDisplay is built on every path",
                  "with a width, some path does not build the padded field", cfg)
    ctx.floor(rule, n, 28, cfg, "placeholder arms checked for the width step")


def rule_width_parsed_exact(ctx, crate, rule="R-WIDTH-PARSED-EXACT"):
    """"{key:W} occupies exactly W columns" for every written W, 0 included: whenever the parser has read width digits it
    stores `Some(parsed number)` into the placeholder — the value cannot be turned into "no width" (None) on the way, which
    format_state would then render unpadded / untruncated (or with the default bar width)."""
    cfg = crate.config
    b = K.find_one(ctx, crate, rule, r"style::Template::from_str_with_tab_width")
    if not b:
        return
    n = 0
    for i, j, s in b.assigns():
        if s["lhs"]["p"] != ["*"]:
            continue
        l = s["lhs"]["l"]
        ds = [d for d in b.defs().get(l, ()) if d["kind"] == "assign" and d["rv"]["k"] == "ref"]
        if not ds or not any(f[0] == "style::TemplatePart" and f[2] == "width" for d in ds for f in place_fields(d["rv"]["place"])):
            continue
        n += 1
        rv = s["rv"]
        src = rv
        if rv["k"] == "use":
            dl = operand_local(rv["op"])
            dd = [d for d in b.defs().get(dl, ()) if d["kind"] in ("assign", "call")] if dl is not None else []
            if len(dd) == 1 and dd[0]["kind"] == "assign":
                src = dd[0]["rv"]
            elif len(dd) == 1:
                src = {"k": "call", "call": dd[0]["call"]}
        is_some = src.get("k") == "agg" and src.get("variant") == "Some"
        loc = "%s:%d" % (b.file, s.get("line", 0))
        ctx.check(is_some, rule, "stores-some#%d" % (n - 1), b.name, loc, "the parsed width is stored as Some(width)",
                  "the parsed width goes through %s before it is stored: a written width (e.g. 0) can become `None`, i.e. no width at all" % (
                      src["call"].path if src.get("k") == "call" else "a non-Some value"), cfg)
        if is_some:
            # walk the value chain back from the payload: only `?`, map_err and plain conversions may sit between the
            # payload and str::parse
            parsed, other, cur, steps = False, [], src["ops"][0], 0
            while cur is not None and steps < 12:
                steps += 1
                cl = operand_local(cur)
                dd = [d for d in b.defs().get(cl, ()) if d["kind"] in ("assign", "call")] if cl is not None else []
                if len(dd) != 1:
                    other.append("merge of several values")
                    break
                d = dd[0]
                if d["kind"] == "assign":
                    rv2 = d["rv"]
                    if rv2["k"] in ("use", "cast"):
                        cur = rv2["op"]
                    else:
                        other.append(rv2["k"])
                        break
                else:
                    c = d["call"]
                    if c.matches(r"core::str::<impl str>::parse"):
                        parsed = True
                        break
                    if c.matches(r"std::result::Result::<T, E>::map_err", K.TRY_BRANCH, r"std::convert::(From::from|Into::into)") and c.args:
                        cur = c.args[0]
                    else:
                        other.append(c.path)
                        break
            ctx.check(parsed and not other, rule, "payload-is-parse#%d" % (n - 1), b.name, loc, "the stored width is the number parsed from the digits, unmodified",
                      "the stored width is not the plain parse of the digits (%s)" % other[:2], cfg)
    ctx.floor(rule, n, 1, cfg, "stores to a placeholder's width in the parser")


def space_runs(crate, b):
    """Runs of spaces written by b (padding), each with the number of spaces as a linear form (None when it cannot be
    established): counted repetitions (`for _ in a..n`, `(a..n).try_for_each`) of ' ' or of an all-space constant, single
    writes of an all-space constant, of a prefix `&SPACES[..k]` of one, or of `" ".repeat(k)`. `single` marks a write outside
    a loop: it counts only when it is executed unconditionally (the caller checks that)."""
    from .. import affine as A
    out = []
    WS = K.WRITE_FNS + (r"std::fmt::Formatter::<'a>::pad",)

    def spaces_of(host, c):
        """(per-write count form, is it spaces at all)"""
        a = c.args[1] if len(c.args) > 1 else None
        v = const_val(a) if isinstance(a, dict) else None
        if isinstance(v, str) and v and not v.strip(" "):
            return {1: len(v)}
        cs = A.const_str_of(host, a, c.bb) if isinstance(a, dict) and a.get("k") != "const" else None
        if cs is not None:
            return {1: len(cs)} if cs and not cs.strip(" ") else None
        if not isinstance(a, dict) or a.get("k") == "const":
            return None
        sl = host.slice(a, at=c.bb)
        for k in sl.calls:
            if k.matches(r"core::str::traits::<impl std::ops::Index<I> for str>::index", r"std::ops::Index::index", r"core::str::<impl str>::get") and len(k.args) >= 2:
                base = A.const_str_of(host, k.args[0], k.bb)
                if base is None or base.strip(" "):
                    continue
                rl = operand_local(k.args[1])
                ds = [d for d in host.defs().get(rl, ()) if d["kind"] == "assign" and d["rv"]["k"] == "agg" and host.def_reaches(d, k.bb)] if rl is not None else []
                if len(ds) == 1 and str(ds[0]["rv"].get("adt", "")).endswith("::RangeTo") and len(ds[0]["rv"]["ops"]) == 1:
                    return A.linform(host, ds[0]["rv"]["ops"][0], ds[0]["bb"])
                if len(ds) == 1 and str(ds[0]["rv"].get("adt", "")).endswith("::Range") and len(ds[0]["rv"]["ops"]) == 2:
                    return A.add(A.linform(host, ds[0]["rv"]["ops"][1], ds[0]["bb"]), A.linform(host, ds[0]["rv"]["ops"][0], ds[0]["bb"]), -1)
                return "?"
            if k.matches(r"(alloc|std|core)::str::<impl str>::repeat") and len(k.args) >= 2:
                base = A.const_str_of(host, k.args[0], k.bb)
                if base is None or base.strip(" ") or not base:
                    continue
                return A.scale(A.linform(host, k.args[1], k.bb), len(base))
        return None

    seen = set()
    for r in K.repeated_writes(crate, b):
        c, host = r["call"], r["host"]
        per = spaces_of(host, c)
        if per is None:
            continue
        seen.add((id(host), c.bb))
        cnt = None
        if per != "?" and set(per) <= {1} and r["bound"] is not None:
            trips = A.add(A.linform(b, r["bound"], r["range_bb"]), A.linform(b, r["start"], r["range_bb"]), -1)
            cnt = A.fold_divrem(A.scale(trips, per.get(1, 0)))
        out.append({"call": c, "site": r["site"], "count": cnt, "single": False})
    for c in b.calls(*WS):
        if (id(b), c.bb) in seen or b.in_loop(c.bb):
            continue
        per = spaces_of(b, c)
        if per is None:
            continue
        out.append({"call": c, "site": c.bb, "count": None if per == "?" else per, "single": True})
    return out


def rule_trunc_keeps_width(ctx, crate, rule="R-TRUNC-CONSERVES"):
    """"exactly W columns are kept from the start, the end or the middle": in the truncating branch the slice bounds satisfy
    the conservation law  start + (len - end) = excess  for every alignment (affine value analysis: each bound is
    evaluated to a linear form over {len, columns, width, excess/2}; saturating ops count as plain +/-). Likewise the
    padding:  left + right = width - columns.  (The *unit* of the bounds — columns used as byte offsets — is the known
    finding of R-UNITS and is not judged here.)"""
    from .. import affine as A
    cfg = crate.config
    b = K.find_one(ctx, crate, rule, r"<style::PaddedStringDisplay<'_> as std::fmt::Display>::fmt")
    if not b:
        return
    meas = b.calls(r"console::measure_text_width")
    if not meas:
        ctx.lost(rule, cfg, "PaddedStringDisplay::fmt no longer measures its text")
        return
    cols = A.linform(b, {"k": "copy", "place": {"l": meas[0].dest["l"], "p": []}}, meas[0].target if meas[0].target is not None else meas[0].bb)
    width = {("place", "param1", ("width",)): 1}
    excess = A.add(cols, width, -1)
    diff = A.add(width, cols, -1)
    n = 0
    # anchored at the uses: the bounds of the slice `str.get(start..end)` and the counts of the two runs of spaces, each
    # evaluated on the CFG specialised to one alignment (so tuples, ranges or structs built per arm or after the match,
    # in this function or in an inlined helper, all look the same)
    gets = [c for c in b.calls(r"core::str::<impl str>::get", r"core::str::traits::<impl std::ops::Index<I> for str>::index", r"std::ops::Index::index") if len(c.args) >= 2]
    contents = [c for c in b.calls(*K.WRITE_FNS) if len(c.args) > 1 and b.slice_args(c, [1], through_calls=False).has_field("str", PSD)]
    err_edges = set()
    for k in b.calls(K.TRY_BRANCH):
        te = K.try_edges(b, k)
        if te:
            err_edges.add((te[0], te[2]))
    for v in K.variant_names(crate, "style::Alignment") or []:
        R = K.variant_reach(b, crate, "style::Alignment", v)
        with b.restricted(R):
            for c in gets:
                if c.bb not in R:
                    continue
                rl = operand_local(c.args[1])
                rd, at_bb = [], c.bb
                for _ in range(6):          # the Range aggregate, through plain copies (e.g. a helper's return value)
                    ds_ = [d for d in b.defs().get(rl, ()) if d["kind"] == "assign" and not d["lhs"]["p"] and b.def_reaches(d, at_bb)] if rl is not None else []
                    rd = [d for d in ds_ if d["rv"]["k"] == "agg" and str(d["rv"].get("adt", "")).endswith("::Range")]
                    if rd or len(ds_) != 1 or ds_[0]["rv"]["k"] != "use" or ds_[0]["rv"]["op"].get("k") == "const" or ds_[0]["rv"]["op"]["place"]["p"]:
                        break
                    rl, at_bb = operand_local(ds_[0]["rv"]["op"]), ds_[0]["bb"]
                if len(rd) != 1:
                    continue
                fa, fb = A.linform(b, rd[0]["rv"]["ops"][0], rd[0]["bb"]), A.linform(b, rd[0]["rv"]["ops"][1], rd[0]["bb"])
                lens = [k for k in list(fa) + list(fb) if isinstance(k, tuple) and k[0] == "call" and k[1].endswith("::len")]
                n += 1
                res = A.add(A.add(A.add(fa, {lens[0]: 1} if lens else {}), fb, -1), excess, -1)
                ctx.check(bool(lens) and not res, rule, "cut=excess:%s" % v, b.name, c.loc(),
                          "%s truncation removes exactly the excess: start + (len - end) = columns - width" % v,
                          "%s truncation does not remove exactly the excess columns: start + (len - end) - excess = %s (the field keeps more or fewer than W columns)" % (v, A.show(res)), cfg)
            # the padded write of the content: the content write with runs of spaces around it
            runs = space_runs(crate, b)
            for cw in contents:
                if cw.bb not in R:
                    continue
                after_bbs = b.reach([cw.target] if cw.target is not None else [], avoid_edges=err_edges) & R
                before = [r for r in runs if r["site"] in R and cw.bb in b.reach_after(r["site"]) and r["site"] not in after_bbs]
                after = [r for r in runs if r["site"] in R and r["site"] in after_bbs]
                if not before and not after:
                    continue
                n += 1
                bad = []
                for r in before:
                    if r["count"] is None or (r["single"] and cw.bb in b.reach([0], avoid=[r["site"]], avoid_edges=err_edges)):
                        bad.append(r)
                rets = set(b.return_blocks())
                for r in after:
                    if r["count"] is None or (r["single"] and (b.reach([cw.target], avoid=[r["site"]], avoid_edges=err_edges) & rets)):
                        bad.append(r)
                if bad:
                    ctx.bad(rule, "pads=diff:%s" % v, b.name, bad[0]["call"].loc(),
                            "%s padding: the number of spaces written at this site is not established (a write that is executed only under a condition, or an unrecognised count)" % v, cfg)
                    continue
                sb_, sa_ = {}, {}
                for r in before:
                    sb_ = A.add(sb_, r["count"])
                for r in after:
                    sa_ = A.add(sa_, r["count"])
                sb_, sa_ = A.fold_divrem(sb_), A.fold_divrem(sa_)
                res = A.fold_divrem(A.add(A.add(sb_, sa_), diff, -1))
                ctx.check(not res, rule, "pads=diff:%s" % v, b.name, cw.loc(),
                          "%s padding adds exactly the missing columns: left + right = width - columns" % v,
                          "%s padding does not add up to the missing columns: left + right - (width - columns) = %s" % (v, A.show(res)), cfg)
                # ... on the side(s) the alignment chooses
                half = [{(o, A.freeze(A.add(diff, {1: k} if k else {})), A.freeze({1: 2} if o == "div" else {1: 1})): 1} for o in ("div", "shr") for k in (0, 1)]
                if v == "Left":
                    ok, want = not sb_, "all of it after the content"
                elif v == "Right":
                    ok, want = not sa_, "all of it before the content"
                else:
                    ok, want = any(not A.add(x, h, -1) for x in (sb_, sa_) for h in half), "half of it on each side"
                ctx.check(ok, rule, "pad-side:%s" % v, b.name, cw.loc(), "%s alignment puts %s" % (v, want),
                          "%s alignment must put %s: before = %s, after = %s" % (v, want, A.show(sb_), A.show(sa_)), cfg)
    ctx.floor(rule, n, 6, cfg, "alignment arms (3 truncating, 3 padding)")
