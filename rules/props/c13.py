"""C13 — progress-bar geometry: structural clauses only (cell count, partition into filled / partial / background,
condition of the partial cell, display order, wide_bar width source). The float rounding at particular
(fraction, width, charset) triples is NOT decided."""
import json
import re

from .. import common as K
from ..facts import Call, operand_local, place_fields, const_val
from .c07 import rule_fraction_clamp
from .c09 import bool_source, true_false_edges

EXPLANATION = ("Decides the clauses of C13 that are visible in the shape of format_bar / BarDisplay: the cell count is the integer quotient "
               "width / char_width and the raw width is used for nothing else; the filled count is the truncation of fraction * cells "
               "(no rounding call); the partial-cell flag is true exactly under (fill > 0) and (filled < cells), both strict, and nothing "
               "else; the partial cell exists iff that flag is set and its index derives from the configured characters and the "
               "fractional part of fill only; background = cells - filled - flag with saturating subtraction, drawn with the last "
               "configured character; BarDisplay writes chars[0] `filled` times, then the partial cell once, then the background, in "
               "that order; the fraction handed to format_bar is ProgressState::fraction() (clamped to [0,1], rule shared with C07); "
               "wide_bar's width is the terminal width minus the measured rest of the line.")
UNDECIDED = ("Off-by-one cell counts and partial-cell indices caused by f32 rounding at specific (fraction, width, character-count) "
             "triples, monotonicity of the filled count in the position, and exactness for lengths up to 2^24: these need the values, "
             "i.e. evaluating format_bar over its finite input space, which is not static analysis.")

FB = r"style::ProgressStyle::format_bar"
BD = "style::BarDisplay"
RSD = "style::RepeatedStringDisplay"
PSTY = "style::ProgressStyle"


def root(b, op, depth=0):
    """Root value of an operand through single-definition copies: ('c', v) | ('l', local)."""
    if not isinstance(op, dict):
        return None
    if op.get("k") == "const":
        return ("c", str(op.get("v")))
    pl = op.get("place") if "place" in op else (op if "l" in op and "p" in op else None)
    if pl is None:
        return None
    if pl["p"]:
        return ("p", pl["l"], json.dumps(pl["p"], sort_keys=True))
    l = pl["l"]
    ds = [d for d in b.defs().get(l, ()) if d["kind"] != "param"] if l > b.arg_count else []
    if depth < 6 and len(ds) == 1 and ds[0]["kind"] == "assign" and not ds[0]["lhs"]["p"] and ds[0]["rv"]["k"] == "use":
        return root(b, ds[0]["rv"]["op"], depth + 1)
    return ("l", l)


NEG = {"Lt": "Ge", "Ge": "Lt", "Gt": "Le", "Le": "Gt", "Eq": "Ne", "Ne": "Eq"}
SWAP = {"Lt": "Gt", "Gt": "Lt", "Le": "Ge", "Ge": "Le", "Eq": "Eq", "Ne": "Ne"}


def norm_fact(op, a, c):
    """Normal form: operands ordered; constants on the right."""
    if a is None or c is None:
        return None
    if a[0] == "c" and c[0] != "c" or (a[0] == c[0] and a > c):
        a, c, op = c, a, SWAP[op]
    return (op, a, c)


_depth = [0]


def ref_root(b, op):
    """Root of the value behind a reference operand (`&x` temporaries): the place that is borrowed."""
    l = operand_local(op) if isinstance(op, dict) and op.get("k") != "const" else None
    if l is not None and not op["place"]["p"]:
        ds = [d for d in b.defs().get(l, ()) if d["kind"] != "param"]
        if len(ds) == 1 and ds[0]["kind"] == "assign" and ds[0]["rv"]["k"] == "ref":
            return root(b, ds[0]["rv"]["place"])
        if len(ds) == 1 and ds[0]["kind"] == "assign" and ds[0]["rv"]["k"] == "use":
            return ref_root(b, ds[0]["rv"]["op"])
    return root(b, op)


def edge_facts(b, bb):
    """Comparison facts that hold at bb because of dominating switch edges."""
    out = set()
    for sb, t in b.switches():
        src = bool_source(b, t["op"])
        l = operand_local(t["op"])
        if not src or (l is not None and b.locals[l]["ty"] != "bool" and src[0] != "discr"):
            # a switch directly on an integer value: `match head { 0 => .., _ => .. }`
            if l is not None and not t["op"]["place"]["p"] and b.locals[l]["ty"] in ("usize", "u64", "u32", "u16", "u8", "isize", "i64", "i32"):
                r0 = root(b, t["op"])
                for v, tb in t["targets"]:
                    if b.edge_dominates((sb, tb), bb):
                        out.add(norm_fact("Eq", r0, ("c", str(v))))
                if t.get("otherwise") is not None and b.edge_dominates((sb, t["otherwise"]), bb) and t["otherwise"] not in [tb for v, tb in t["targets"]]:
                    for v, tb in t["targets"]:
                        out.add(norm_fact("Ne", r0, ("c", str(v))))
            elif l is not None and not t["op"]["place"]["p"] and b.locals[l]["ty"] == "bool" and not src:
                # a flag with several definitions (`a > b && c > d` lowered to control flow)
                tf0 = true_false_edges(b, sb, t)
                for e_, fn_ in ((tf0[0], true_facts), (tf0[1], false_facts)) if tf0 else ():
                    if _depth[0] < 3 and b.edge_dominates(e_, bb):
                        _depth[0] += 1
                        try:
                            fs = fn_(b, t["op"], sb)
                        finally:
                            _depth[0] -= 1
                        if fs != ALL:
                            out |= fs
            continue
        tf = true_false_edges(b, sb, t)
        if not tf:
            continue
        te, fe = tf
        if src[2]:
            te, fe = fe, te
        if src[0] == "call" and src[1].matches(r"std::cmp::PartialOrd::(lt|le|gt|ge)", r"std::cmp::PartialEq::(eq|ne)") and len(src[1].args) == 2:
            op = K.meth(src[1].path).capitalize()
            a, c = ref_root(b, src[1].args[0]), ref_root(b, src[1].args[1])
        elif src[0] == "bin" and src[1]["op"] in NEG:
            op, a, c = src[1]["op"], root(b, src[1]["a"]), root(b, src[1]["b"])
        else:
            # a named flag: `let ok = a > b && c > d; if !ok { return }` — on its true edge everything the flag implies holds
            # (te/fe are already swapped for a negated source, so the flag itself is evaluated un-negated: src[3] is its local)
            flag_op = t["op"]
            for e_, fn_ in ((tf[0], true_facts), (tf[1], false_facts)):
                if _depth[0] < 3 and b.edge_dominates(e_, bb):
                    _depth[0] += 1
                    try:
                        fs = fn_(b, flag_op, sb)
                    finally:
                        _depth[0] -= 1
                    if fs != ALL:
                        out |= fs
            continue
        if b.edge_dominates(te, bb):
            f = norm_fact(op, a, c)
            if f:
                out.add(f)
        if b.edge_dominates(fe, bb):
            f = norm_fact(NEG[op], a, c)
            if f:
                out.add(f)
    return out


ALL = "ALL"


def true_facts(b, op, at, depth=0):
    """Set of comparison facts guaranteed whenever the boolean operand is true (ALL = it is never true)."""
    if depth > 6 or not isinstance(op, dict):
        return set()
    if op.get("k") == "const":
        return ALL if op.get("v") is False else set()
    l = operand_local(op)
    if l is None or op["place"]["p"]:
        return set()
    res = None
    for d in b.defs().get(l, ()):
        if d["kind"] == "param":
            return set()
        if d.get("bb", -1) >= 0 and not b.def_reaches(d, at):
            continue
        if d["kind"] == "call" and d["call"].matches(r"std::cmp::PartialOrd::(lt|le|gt|ge)", r"std::cmp::PartialEq::(eq|ne)") and len(d["call"].args) == 2:
            f = norm_fact(K.meth(d["call"].path).capitalize(), ref_root(b, d["call"].args[0]), ref_root(b, d["call"].args[1]))
            fs = {f} if f else set()
        elif d["kind"] != "assign":
            fs = set()
        else:
            rv = d["rv"]
            if rv["k"] == "use":
                fs = true_facts(b, rv["op"], d["bb"], depth + 1)
            elif rv["k"] == "bin" and rv["op"] in NEG:
                f = norm_fact(rv["op"], root(b, rv["a"]), root(b, rv["b"]))
                fs = {f} if f else set()
            elif rv["k"] == "bin" and rv["op"] == "BitAnd":
                x, y = true_facts(b, rv["a"], d["bb"], depth + 1), true_facts(b, rv["b"], d["bb"], depth + 1)
                fs = ALL if ALL in (x, y) else x | y
            elif rv["k"] == "un" and rv.get("op") == "Not":
                fs = false_facts(b, rv.get("a"), d["bb"], depth + 1)
            else:
                fs = set()
        if fs != ALL:
            fs = fs | edge_facts(b, d["bb"])
        if fs == ALL:
            continue
        res = fs if res is None else (res & fs)
    return ALL if res is None else res


def false_facts(b, op, at, depth=0):
    """Set of comparison facts guaranteed whenever the boolean operand is false (ALL = it is never false)."""
    if depth > 6 or not isinstance(op, dict):
        return set()
    if op.get("k") == "const":
        return ALL if op.get("v") is True else set()
    l = operand_local(op)
    if l is None or op["place"]["p"]:
        return set()
    res = None
    for d in b.defs().get(l, ()):
        if d["kind"] == "param":
            return set()
        if d.get("bb", -1) >= 0 and not b.def_reaches(d, at):
            continue
        if d["kind"] == "call" and d["call"].matches(r"std::cmp::PartialOrd::(lt|le|gt|ge)", r"std::cmp::PartialEq::(eq|ne)") and len(d["call"].args) == 2:
            f = norm_fact(NEG[K.meth(d["call"].path).capitalize()], ref_root(b, d["call"].args[0]), ref_root(b, d["call"].args[1]))
            fs = {f} if f else set()
        elif d["kind"] != "assign":
            fs = set()
        else:
            rv = d["rv"]
            if rv["k"] == "use":
                fs = false_facts(b, rv["op"], d["bb"], depth + 1)
            elif rv["k"] == "bin" and rv["op"] in NEG:
                f = norm_fact(NEG[rv["op"]], root(b, rv["a"]), root(b, rv["b"]))
                fs = {f} if f else set()
            elif rv["k"] == "bin" and rv["op"] == "BitOr":
                x, y = false_facts(b, rv["a"], d["bb"], depth + 1), false_facts(b, rv["b"], d["bb"], depth + 1)
                fs = ALL if ALL in (x, y) else x | y
            elif rv["k"] == "un" and rv.get("op") == "Not":
                fs = true_facts(b, rv.get("a"), d["bb"], depth + 1)
            else:
                fs = set()
        if fs != ALL:
            fs = fs | edge_facts(b, d["bb"])
        if fs == ALL:
            continue
        res = fs if res is None else (res & fs)
    return ALL if res is None else res


SUBS = r"core::num::<impl usize>::(saturating_sub|checked_sub|wrapping_sub)"
ADDS = r"core::num::<impl usize>::(saturating_add|checked_add|wrapping_add)"
PASS = (r"std::option::Option::<T>::(unwrap_or|unwrap_or_default|unwrap)", r"std::convert::(From::from|Into::into)", r"std::cmp::(min|max)", r"std::cmp::Ord::(min|max)")


def polarity(b, op, at, stop=(), sign="+", out=None, depth=0, seen=None):
    """local -> set of signs with which it enters the additive expression `op` (sub flips its second operand).
    Locals in `stop` are not expanded (they are the named quantities)."""
    out = {} if out is None else out
    seen = set() if seen is None else seen
    l = operand_local(op) if isinstance(op, dict) and op.get("k") != "const" else None
    if l is None or depth > 12:
        return out
    out.setdefault(l, set()).add(sign)
    if (l, sign) in seen:
        return out
    seen.add((l, sign))
    flip = "-" if sign == "+" else "+"
    for d in b.defs().get(l, ()):
        if d["kind"] == "param" or (d.get("bb", -1) >= 0 and not b.def_reaches(d, at)):
            continue
        if d["kind"] == "assign":
            rv = d["rv"]
            if rv["k"] in ("use", "cast"):
                polarity(b, rv["op"], d["bb"], stop, sign, out, depth + 1, seen)
            elif rv["k"] == "bin" and rv["op"] in ("Sub", "SubWithOverflow", "SubUnchecked"):
                polarity(b, rv["a"], d["bb"], stop, sign, out, depth + 1, seen)
                polarity(b, rv["b"], d["bb"], stop, flip, out, depth + 1, seen)
            elif rv["k"] == "bin" and rv["op"] in ("Add", "AddWithOverflow", "AddUnchecked"):
                polarity(b, rv["a"], d["bb"], stop, sign, out, depth + 1, seen)
                polarity(b, rv["b"], d["bb"], stop, sign, out, depth + 1, seen)
        elif d["kind"] == "call":
            c = d["call"]
            if c.matches(SUBS) and len(c.args) == 2:
                polarity(b, c.args[0], c.bb, stop, sign, out, depth + 1, seen)
                polarity(b, c.args[1], c.bb, stop, flip, out, depth + 1, seen)
            elif c.matches(ADDS) and len(c.args) == 2:
                polarity(b, c.args[0], c.bb, stop, sign, out, depth + 1, seen)
                polarity(b, c.args[1], c.bb, stop, sign, out, depth + 1, seen)
            elif c.matches(*PASS) and c.args:
                polarity(b, c.args[0], c.bb, stop, sign, out, depth + 1, seen)
    # tuple field of a checked op: `_t = SubWithOverflow(a, b); x = move _t.0`
    return out


def run(ctx, crate):
    cfg = crate.config
    K.rule_no_unsafe(ctx, crate)
    b = K.find_one(ctx, crate, "R-BAR-CELL-COUNT", FB)
    if not b:
        return
    # parameters
    wp = [i for i in range(1, b.arg_count + 1) if b.locals[i]["ty"] == "usize"]
    fp = [i for i in range(1, b.arg_count + 1) if b.locals[i]["ty"] in ("f32", "f64")]
    if len(wp) != 1 or len(fp) != 1:
        ctx.lost("R-BAR-CELL-COUNT", cfg, "format_bar no longer has one width and one fraction parameter")
        return
    wp, fp = wp[0], fp[0]

    # ---- R-BAR-CELL-COUNT --------------------------------------------------------------------------------
    rule = "R-BAR-CELL-COUNT"
    divs = []
    for i, j, s in b.assigns():
        rv = s["rv"]
        if rv["k"] == "bin" and rv["op"] == "Div" and not s["lhs"]["p"]:
            na, dn = b.slice(rv["a"], at=i, through_calls=False), b.slice(rv["b"], at=i, through_calls=False)
            if wp in na.params() and dn.has_field("char_width", PSTY):
                divs.append((i, j, s))
    ctx.check(len(divs) == 1, rule, "cells=width/char_width", b.name, K.fn_loc(b),
              "the number of cells is the integer quotient of the width by the cluster width",
              "format_bar does not compute cells = width / char_width exactly once (found %d)" % len(divs), cfg)
    if len(divs) != 1:
        return
    cells = divs[0][2]["lhs"]["l"]
    # the raw width feeds nothing but that quotient
    other = []
    for i, j, s in b.assigns():
        if (i, j) == (divs[0][0], divs[0][1]):
            continue
        rv = s["rv"]
        ops = b.rv_operands(rv)
        for o in ops:
            if root(b, o) == ("l", wp) and not (rv["k"] == "use" and not s["lhs"]["p"] and s["lhs"]["l"] > b.arg_count):
                other.append(s.get("line", 0))
    for c in b.calls():
        for a in c.args:
            if root(b, a) == ("l", wp):
                other.append(c.line)
    ctx.check(not other, rule, "raw-width-unused", b.name, K.fn_loc(b), "the column width is used only to compute the cell count",
              "the raw column width (not the cell count) is used at line(s) %s" % sorted(set(other)), cfg)

    # the constructed BarDisplay
    cons = [(cb, i, j, s) for (cb, i, j, s) in K.constructions(crate, BD) if cb.name == b.name]
    ctx.floor(rule, len(cons), 1, cfg, "BarDisplay constructions in format_bar")
    if len(cons) != 1:
        return
    _, ci, cj, cs = cons[0]
    f = dict(zip(cs["rv"]["fields"], cs["rv"]["ops"]))

    # ---- R-BAR-FILLED ------------------------------------------------------------------------------------
    rule = "R-BAR-FILLED"
    fl = b.slice(f["filled"], at=ci)
    casts = [a for a in fl.atoms if a[0] == "cast"]
    binops = sorted({a[1] for a in fl.atoms if a[0] == "binop"})
    other_calls = [c for c in fl.calls if not c.matches(r"(std|core)::f32::<impl f32>::(floor|trunc)", r"(std|core)::f64::<impl f64>::(floor|trunc)", r"std::convert::(From::from|Into::into)")]
    ok = fp in fl.params() and cells in fl.locals and not other_calls and set(binops) <= {"Mul", "Div"} and "Mul" in binops
    ctx.check(ok, rule, "filled=trunc(fract*cells)", b.name, "%s:%d" % (b.file, cs.get("line", 0)),
              "filled cells = truncation of fraction * cells (no rounding call, no other arithmetic)",
              "the filled count is not the plain truncation of fraction * cells (calls %s, ops %s)" % ([c.path for c in other_calls][:3], binops), cfg)
    filled_root = root(b, f["filled"])
    # fill: the float product
    fill_local = None
    for d in fl.defs:
        if d.get("kind") == "assign" and d["rv"]["k"] == "bin" and d["rv"]["op"] == "Mul" and not d["lhs"]["p"]:
            fill_local = d["lhs"]["l"]
    if fill_local is None or filled_root is None or filled_root[0] != "l":
        ctx.lost(rule, cfg, "cannot identify the fill product / filled count locals")
        return

    # ---- R-BAR-HEAD-CONDITION ----------------------------------------------------------------------------
    rule = "R-BAR-HEAD-CONDITION"
    heads = [c for c in b.calls(r"std::convert::From::from", r"std::convert::Into::into") if c.args and operand_local(c.args[0]) is not None and b.locals[operand_local(c.args[0])]["ty"] == "bool"
             and b.locals[c.dest["l"]]["ty"] == "usize"]
    head_local = heads[0].dest["l"] if len(heads) == 1 else None
    if head_local is None:
        # `if cond { 1 } else { 0 }` form: a usize local whose defs are the constants 0 and 1
        for l, ds in list(b.defs().items()):
            vs = sorted(str(const_val(d["rv"]["op"])) for d in ds if d["kind"] == "assign" and d["rv"]["k"] == "use" and d["rv"]["op"].get("k") == "const")
            if b.locals[l]["ty"] == "usize" and vs == ["0", "1"] and len(ds) == 2:
                head_local = l
    if head_local is None:
        ctx.lost(rule, cfg, "cannot identify the partial-cell flag (bool -> usize)")
        return
    want = {norm_fact("Gt", ("l", fill_local), ("c", "0.0")), norm_fact("Lt", filled_root, ("l", cells))}
    if heads and len(heads) == 1:
        facts = true_facts(b, heads[0].args[0], heads[0].bb)
    else:
        one = [d for d in b.defs()[head_local] if str(const_val(d["rv"]["op"])) == "1"][0]
        facts = edge_facts(b, one["bb"])
    shown = sorted("%s(%s,%s)" % (o, x[-1], y[-1]) for o, x, y in facts) if facts != ALL else ["never"]
    ctx.check(facts != ALL and want <= facts, rule, "requires-nonempty-and-not-full", b.name, K.fn_loc(b),
              "a partial cell is drawn only if fill > 0 and filled < cells (both strict)",
              "the partial-cell flag can be set for an empty or a full bar (guaranteed facts: %s)" % shown, cfg)
    if facts != ALL:
        extra = {x for x in facts if x not in want and not (x[1] == ("l", head_local) or x[2] == ("l", head_local))}
        ctx.check(not extra, rule, "no-further-condition", b.name, K.fn_loc(b),
                  "nothing else conditions the partial cell (it is drawn exactly when the bar is neither empty nor full)",
                  "the partial cell additionally requires %s" % sorted("%s(%s,%s)" % (o, x[-1], y[-1]) for o, x, y in extra), cfg)

    # ---- R-BAR-CUR ----------------------------------------------------------------------------------------
    rule = "R-BAR-CUR"
    cur_l = operand_local(f["cur"])
    somes, nones = [], []
    work, seen = [cur_l], set()
    while work:
        l = work.pop()
        if l in seen or l is None:
            continue
        seen.add(l)
        for d in b.defs().get(l, ()):
            if d["kind"] != "assign":
                continue
            rv = d["rv"]
            if rv["k"] == "use":
                work.append(operand_local(rv["op"]))
            elif rv["k"] == "agg" and rv.get("variant") == "Some":
                somes.append(d)
            elif rv["k"] == "agg" and rv.get("variant") == "None":
                nones.append(d)
    # `(flag == 1).then(|| index)`: Some exactly when the condition holds, payload = the closure's result
    thens = []
    for l in seen:
        for d in b.defs().get(l, ()):
            if d["kind"] == "call" and d["call"].matches(r"core::bool::<impl bool>::then(_some)?") and len(d["call"].args) == 2:
                thens.append(d["call"])
    ctx.floor(rule, len(somes) + len(thens), 1, cfg, "Some(..) values of BarDisplay.cur")
    for k, c in enumerate(thens):
        tfacts = true_facts(b, c.args[0], c.bb)
        okf = tfacts != ALL and (norm_fact("Eq", ("l", head_local), ("c", "1")) in tfacts or norm_fact("Ne", ("l", head_local), ("c", "0")) in tfacts or want <= tfacts)
        # and, being `then`, None exactly when the condition is false: the condition must be nothing more than the flag test
        extra = set() if tfacts == ALL else {x for x in tfacts if x not in want and ("l", head_local) not in (x[1], x[2])}
        ctx.check(okf and not extra, rule, "some-iff-flag#then%d" % k, b.name, c.loc(),
                  "the partial cell is present exactly when the flag is set (bool::then on the flag test)",
                  "bool::then builds the partial cell on a condition that is not the flag test", cfg)
        cl = None
        l2 = operand_local(c.args[1])
        for d in b.defs().get(l2, ()) if l2 is not None else ():
            if d["kind"] == "assign" and d["rv"]["k"] == "agg" and d["rv"].get("ak") == "closure":
                cl = crate.bodies.get(d["rv"]["def"])
        if cl is not None:
            rsl = [cl.slice_rv(d["bb"], {"lhs": d["lhs"], "rv": d["rv"]}) if d["kind"] == "assign" else cl.slice_args(d["call"]) for d in cl.defs().get(0, ()) if d["kind"] in ("assign", "call")]
            src_ok = any(any(a[0] == "field" and (a[2] == "progress_chars" or str(a[2]).endswith("progress_chars")) for a in sl.atoms) for sl in rsl)
            grows = any([a for a in sl.atoms if a[0] == "binop" and a[1] in ("Add", "AddWithOverflow")] or [x for x in sl.calls if x.matches(r"core::num::<impl usize>::(saturating_add|wrapping_add|checked_add)")] for sl in rsl)
            ctx.check(src_ok, rule, "index-from-charset#then%d" % k, b.name, c.loc(), "the partial cell's index derives from the number of configured characters",
                      "the partial cell's index does not derive from progress_chars.len()", cfg)
            ctx.check(not grows, rule, "index-never-grows#then%d" % k, b.name, c.loc(), "the index is obtained by subtraction only", "the partial cell's index is increased", cfg)
    flag1 = norm_fact("Eq", ("l", head_local), ("c", "1"))
    flag0n = norm_fact("Ne", ("l", head_local), ("c", "0"))
    for k, d in enumerate(somes):
        ef = edge_facts(b, d["bb"])
        ok = flag1 in ef or flag0n in ef or want <= ef
        if not ok:
            ok = _flag_true_at(b, heads, d["bb"])
        ctx.check(ok, rule, "some-iff-flag#%d" % k, b.name, "%s:%d" % (b.file, d.get("line", 0)),
                  "the partial cell is present only when the flag is set", "a partial cell can be present although the flag is 0 (the bar would be one cell too wide)", cfg)
        sl = b.slice_rv(d["bb"], {"lhs": d["lhs"], "rv": d["rv"]})
        srcs_ok = sl.has_field("progress_chars", PSTY) or (const_val(d["rv"]["ops"][0]) == 1 and any(
            b.slice_rv(d2["bb"], {"lhs": d2["lhs"], "rv": d2["rv"]}).has_field("progress_chars", PSTY) for d2 in somes))
        ctx.check(srcs_ok, rule, "index-from-charset#%d" % k, b.name, "%s:%d" % (b.file, d.get("line", 0)),
                  "the partial cell's index derives from the number of configured characters (and the fractional fill)",
                  "the partial cell's index does not derive from progress_chars.len()", cfg)
        adds = [a for a in sl.atoms if a[0] == "binop" and a[1] in ("Add", "AddWithOverflow")] + [c for c in sl.calls if c.matches(r"core::num::<impl usize>::(saturating_add|wrapping_add|checked_add)")]
        ctx.check(not adds, rule, "index-never-grows#%d" % k, b.name, "%s:%d" % (b.file, d.get("line", 0)),
                  "the index is obtained by subtraction from the last fine-grained entry only", "the partial cell's index is increased (can leave the configured characters)", cfg)
    def bool_root(op, depth=0):
        """(root bool local, negated) through single-definition copies and `!`"""
        l = operand_local(op) if isinstance(op, dict) else None
        if l is None or (isinstance(op, dict) and op.get("place", {}).get("p")):
            return None
        neg = False
        for _ in range(6):
            ds = [d_ for d_ in b.defs().get(l, ()) if d_["kind"] != "param"]
            if len(ds) == 1 and ds[0]["kind"] == "assign" and ds[0]["rv"]["k"] == "use" and operand_local(ds[0]["rv"]["op"]) is not None and not ds[0]["rv"]["op"]["place"]["p"]:
                l = operand_local(ds[0]["rv"]["op"])
            elif len(ds) == 1 and ds[0]["kind"] == "assign" and ds[0]["rv"]["k"] == "un" and ds[0]["rv"].get("op") == "Not":
                neg = not neg
                l = operand_local(ds[0]["rv"].get("a"))
            else:
                break
        return (l, neg) if l is not None else None

    def flag_value_at(bb):
        """value of the partial-cell flag (the bool converted into `head`) at bb, from dominating tests of the same bool"""
        if not heads or len(heads) != 1:
            return None
        src = bool_root(heads[0].args[0])
        if not src:
            return None
        for sb, t in b.switches():
            r = bool_root(t["op"])
            if not r or r[0] != src[0]:
                continue
            tf = true_false_edges(b, sb, t)
            if not tf:
                continue
            for e_, val in ((tf[0], True), (tf[1], False)):
                if b.edge_dominates(e_, bb):
                    root_val = val != r[1]            # the tested operand is root xor r.neg
                    return root_val != src[1]         # the flag is root xor src.neg
        return None
    for k, d in enumerate(nones):
        ef = edge_facts(b, d["bb"])
        ok = norm_fact("Ne", ("l", head_local), ("c", "1")) in ef or norm_fact("Eq", ("l", head_local), ("c", "0")) in ef or flag_value_at(d["bb"]) is False
        ctx.check(ok, rule, "none-iff-no-flag#%d" % k, b.name, "%s:%d" % (b.file, d.get("line", 0)),
                  "no partial cell only when the flag is 0", "the partial cell is dropped although the flag is 1 (the bar would be one cell short)", cfg)

    then_closures = []
    for c in thens:
        l2 = operand_local(c.args[1])
        for d in b.defs().get(l2, ()) if l2 is not None else ():
            if d["kind"] == "assign" and d["rv"]["k"] == "agg" and d["rv"].get("ak") == "closure" and d["rv"]["def"] in crate.bodies:
                then_closures.append(crate.bodies[d["rv"]["def"]])
    rule_cur_range(ctx, crate, b, somes, then_closures)

    # ---- R-BAR-REST ---------------------------------------------------------------------------------------
    rule = "R-BAR-REST"
    rcons = [(cb, i, j, s) for (cb, i, j, s) in K.constructions(crate, RSD) if cb.name == b.name]
    ctx.floor(rule, len(rcons), 1, cfg, "RepeatedStringDisplay constructions in format_bar")
    for (cb, i, j, s) in rcons:
        rf = dict(zip(s["rv"]["fields"], s["rv"]["ops"]))
        nsl = b.slice(rf["num"], at=i)
        pol = polarity(b, rf["num"], i)
        want_pol = {cells: {"+"}, filled_root[1]: {"-"}, head_local: {"-"}}
        got = {l: pol.get(l, set()) for l in want_pol}
        ctx.check(got == want_pol, rule, "background=cells-filled-flag", b.name, "%s:%d" % (b.file, s.get("line", 0)),
                  "background cells = cells - filled - partial flag (cells enter positively, filled and flag negatively)",
                  "the background count is not cells - filled - flag (polarity cells=%s filled=%s flag=%s)" % (
                      sorted(got[cells]), sorted(got[filled_root[1]]), sorted(got[head_local])), cfg)
        subs = [c for c in nsl.calls if c.matches(r"core::num::<impl usize>::(saturating_sub|checked_sub|wrapping_sub)")]
        ctx.check(not [c for c in subs if c.matches(r".*wrapping_sub")], rule, "background-saturates", b.name, "%s:%d" % (b.file, s.get("line", 0)),
                  "the background count cannot wrap", "the background count uses wrapping subtraction", cfg)
        ssl = b.slice(rf["str"], at=i)
        ok2 = ssl.has_field("progress_chars", PSTY) and ssl.has_call(r"std::vec::Vec::<T, A>::len", r"core::slice::<impl \[T\]>::len", r"core::slice::<impl \[T\]>::last", r"std::ops::Index::index")
        ctx.check(ok2, rule, "background-char-is-last", b.name, "%s:%d" % (b.file, s.get("line", 0)),
                  "the background is drawn with the last configured character", "the background character does not come from progress_chars", cfg)
    # the display receives the whole charset and the rest
    csl = b.slice(f["chars"], at=ci)
    ctx.check(csl.has_field("progress_chars", PSTY), rule, "display-gets-charset", b.name, "%s:%d" % (b.file, cs.get("line", 0)),
              "BarDisplay draws from the configured characters", "BarDisplay.chars is not progress_chars", cfg)

    # ---- R-BAR-DISPLAY-ORDER ------------------------------------------------------------------------------
    rule = "R-BAR-DISPLAY-ORDER"
    d = K.find_one(ctx, crate, rule, r"<style::BarDisplay<'_> as std::fmt::Display>::fmt")
    if d:
        def from_field(sl, host, name, adt):
            """the slice reads field `name` of `adt` — directly, or through a closure capture named after it"""
            return sl.has_field(name, adt) or (host.kind == "Closure" and any(a[0] == "field" and a[1] == "closure" and str(a[2]).endswith("__" + name) for a in sl.atoms))
        ws = d.calls(r"std::fmt::Formatter::<'a>::write_str", r"std::fmt::Write::write_str")
        reps = K.repeated_writes(crate, d)
        part_ws = [c for c in ws if d.slice_args(c, [1]).has_field("cur", BD)]
        # the filled segment: a counted repetition (loop / closure over a range), or one write of str::repeat(..)
        fills = [r for r in reps if r["call"] not in part_ws]
        repeat_ws = [c for c in ws if c not in part_ws and not d.in_loop(c.bb) and [x for x in d.slice_args(c, [1]).calls if x.matches(r"(alloc|std|core)::str::<impl str>::repeat")]]
        rest_calls = [c for c in d.calls() if c.args and d.slice_args(c, [0], through_calls=False).has_field("rest", BD) and K.meth(c.generic) == "fmt"]
        n_fill = len(fills) + len(repeat_ws)
        stray = [c for c in ws if c not in part_ws and c not in repeat_ws and not d.in_loop(c.bb)]
        # the delegation to the background may be spelled once per arm (`match cur { Some => {..; rest.fmt(f)}, None => rest.fmt(f) }`):
        # several sites count as one when no execution passes two of them
        exclusive = all(x.bb not in d.reach_after(y.bb) for x in rest_calls for y in rest_calls if x is not y)
        one_rest = len(rest_calls) >= 1 and exclusive
        ctx.check(n_fill == 1 and len(part_ws) == 1 and one_rest and not stray, rule, "three-segments", d.name, K.fn_loc(d),
                  "one repeated write for the filled segment, one write for the partial cell, one delegation to the background",
                  "BarDisplay::fmt no longer has the three segments (filled writes %d, partial writes %d, rest %d, other writes %d)" % (n_fill, len(part_ws), len(rest_calls), len(stray)), cfg)
        if n_fill == 1 and len(part_ws) == 1 and one_rest:
            ow, rc = part_ws[0], rest_calls[0]
            if fills:
                r = fills[0]
                site, host, wcall = r["site"], r["host"], r["call"]
                bsl = d.slice(r["bound"], at=r["range_bb"]) if r["bound"] is not None else None
                okb = bsl is not None and const_val(r["start"]) == 0 and bsl.has_field("filled", BD) and not [a for a in bsl.atoms if a[0] == "binop"]
            else:
                wcall, host, site = repeat_ws[0], d, repeat_ws[0].bb
                rp = [x for x in d.slice_args(wcall, [1]).calls if x.matches(r"(alloc|std|core)::str::<impl str>::repeat")]
                okb = len(rp) == 1 and d.slice_args(rp[0], [1]).has_field("filled", BD) and not [a for a in d.slice_args(rp[0], [1]).atoms if a[0] == "binop"]
            ctx.check(okb, rule, "filled-times", d.name, wcall.loc(), "the filled character is written `filled` times",
                      "the filled segment is not repeated exactly `filled` times", cfg)
            isl = host.slice_args(wcall, [1])
            ctx.check(0 in [c for c in isl.consts() if isinstance(c, int) and not isinstance(c, bool)] and from_field(isl, host, "chars", BD), rule, "filled-char-is-first", d.name, wcall.loc(),
                      "the filled segment uses chars[0]", "the filled segment does not use the first configured character", cfg)
            osl = d.slice_args(ow, [1])
            ctx.check(not d.in_loop(ow.bb) and osl.has_field("chars", BD) and K.in_variant_region(d, crate, ow.bb, "std::option::Option", {"Some"}), rule, "partial-from-cur", d.name, ow.loc(),
                      "the partial cell is chars[cur], written once and only when cur is Some", "the partial cell is not chars[cur] written once under Some(cur)", cfg)
            ok_order = all((ow.bb not in d.reach_after(rc_.bb)) and (site not in d.reach_after(rc_.bb)) for rc_ in rest_calls) and (site not in d.reach_after(ow.bb))
            # ... and the background follows the partial cell on its success path (not only in the arm without a partial cell)
            ok_order = ok_order and any(rc_.bb in d.reach_after(ow.bb) for rc_ in rest_calls)
            ctx.check(ok_order, rule, "filled-partial-background", d.name, K.fn_loc(d), "segments are written in the order filled, partial, background",
                      "the segments of the bar are written in a different order", cfg)
    r = K.find_one(ctx, crate, rule, r"<style::RepeatedStringDisplay<'_> as std::fmt::Display>::fmt")
    if r:
        ws = r.calls(r"std::fmt::Formatter::<'a>::write_str", r"std::fmt::Write::write_str")
        reps = K.repeated_writes(crate, r)
        ok = False
        if len(reps) == 1 and not [c for c in ws if not r.in_loop(c.bb)]:
            x = reps[0]
            bsl = r.slice(x["bound"], at=x["range_bb"]) if x["bound"] is not None else None
            ssl = x["host"].slice_args(x["call"], [1])
            from_str = ssl.has_field("str", RSD) or (x["host"].kind == "Closure" and any(a[0] == "field" and a[1] == "closure" and str(a[2]).endswith("__str") for a in ssl.atoms))
            ok = bsl is not None and const_val(x["start"]) == 0 and bsl.has_field("num", RSD) and not [a for a in bsl.atoms if a[0] == "binop"] and from_str
        elif not reps and len(ws) == 1:
            sl0 = r.slice_args(ws[0], [1])
            rp = [c for c in sl0.calls if c.matches(r"(alloc|std|core)::str::<impl str>::repeat")]
            ok = len(rp) == 1 and r.slice_args(rp[0], [1]).has_field("num", RSD) and r.slice_args(rp[0], [0]).has_field("str", RSD)
        ctx.check(ok, rule, "background-num-times", r.name, K.fn_loc(r),
                  "the background string is written `num` times", "the background is not written exactly `num` times", cfg)

    # ---- R-BAR-FRACTION-SOURCE ----------------------------------------------------------------------------
    rule = "R-BAR-FRACTION-SOURCE"
    n = 0
    for c in crate.callers().get(b.name, ()):
        n += 1
        sl = c.body.slice_args(c, [1])
        ok = sl.has_call(r"state::ProgressState::fraction") and not [a for a in sl.atoms if a[0] == "binop"]
        ctx.check(ok, rule, "fraction()", c.body.name, c.loc(), "the bar is drawn for ProgressState::fraction(), unmodified",
                  "format_bar is given a fraction that is not ProgressState::fraction()", cfg)
    ctx.floor(rule, n, 2, cfg, "format_bar call sites")
    rule_fraction_clamp(ctx, crate)
    rule_char_width_coherent(ctx, crate)
    rule_cluster_measure(ctx, crate)
    # "{bar:N} always occupies floor(N/c) cells" on the *line*: the bar's text passes through the padding/truncation step, which
    # must neither cut nor pad by anything but display columns (a `{bar:20!.cyan/blue}` whose escape bytes are counted as columns
    # loses cells: seed C13l)
    from .c12 import rule_trunc_keeps_width
    rule_trunc_keeps_width(ctx, crate)
    # "wide_bar makes the line exactly as wide as the terminal, never wider": the bar is spliced in at the marker only - every other
    # text of the line has the marker character removed before it is appended (seed C13m: only after the wide element was seen)
    from .c11 import rule_marker_out_of_band
    rule_marker_out_of_band(ctx, crate)

    # ---- R-WIDE-BAR-WIDTH ---------------------------------------------------------------------------------
    rule = "R-WIDE-BAR-WIDTH"
    w = K.find_one(ctx, crate, rule, r"style::WideElement::<'_>::expand")
    if w:
        cs_ = w.calls(FB)
        ctx.floor(rule, len(cs_), 1, cfg, "format_bar calls in WideElement::expand")
        for c in cs_:
            wsl = w.slice_args(c, [2])
            ok = wsl.has_call(r"console::measure_text_width") and wsl.has_call(r"core::num::<impl usize>::saturating_sub") and \
                (any(w.locals[p]["ty"] == "u16" for p in wsl.params()) or any(a[0] == "field" and "width" in str(a[2]) for a in wsl.atoms))
            ctx.check(ok, rule, "columns-left", w.name, c.loc(), "wide_bar is given the terminal width minus the measured rest of the line (saturating)",
                      "wide_bar's width is not the columns left on the line", cfg)
            adds = [a for a in wsl.atoms if a[0] == "binop" and a[1] in ("Add", "AddWithOverflow", "Mul")]
            ctx.check(not adds, rule, "never-wider", w.name, c.loc(), "nothing is added to the columns left", "the width given to wide_bar is enlarged", cfg)
        # "... then background cells": what replaces the placeholder for a wide *bar* is the rendered bar, untrimmed
        # (background cells may be blanks; trimming them makes the line narrower than the terminal)
        R_bar = K.variant_reach(w, crate, "style::WideElement", "Bar")
        reps = [c for c in w.calls(r"(alloc|std|core)::str::<impl str>::replace") if c.bb in R_bar and len(c.args) >= 3]
        for k, c in enumerate(reps):
            rsl = w.slice_args(c, [2])
            if not (rsl.has_call(FB) or any(x.bb in R_bar and x.matches(r"std::fmt::Write::write_fmt", r"(alloc|std)::fmt::format") for x in rsl.calls)):
                continue
            trims = sorted({x.path for x in rsl.calls if x.matches(r"core::str::<impl str>::(trim|trim_end|trim_start|trim_matches|trim_end_matches|strip_suffix)") and x.bb in R_bar})
            ctx.check(not trims, rule, "bar-untrimmed#%d" % k, w.name, c.loc(), "the rendered wide bar replaces the placeholder unmodified",
                      "the rendered wide bar passes through %s before it is inserted: blank background cells are cut off and the line no longer spans the terminal" % trims, cfg)

    rule_wide_kind_per_key(ctx, crate)


def rule_wide_kind_per_key(ctx, crate, rule="R-WIDE-KIND-PER-KEY"):
    """"wide_bar makes the line exactly as wide as the terminal": the element that replaces a line's marker is the one its own key asked
    for. `format_state` keeps one `Option<WideElement>` across the lines of a template, so the arm of `wide_bar` (`wide_msg`) must *store*
    `Some(WideElement::Bar)` (`::Message`) unconditionally - by assignment, `Option::insert` or `Option::replace` - and not keep an
    earlier line's element (`get_or_insert`: seed C13o, a `{wide_msg}` line above a `{wide_bar}` line draws no bar at all)."""
    from .c11 import key_arms
    cfg = crate.config
    b = K.find_one(ctx, crate, rule, r"style::ProgressStyle::format_state")
    if not b:
        return
    arms = key_arms(b)
    n = 0
    for key, V in (("wide_bar", "Bar"), ("wide_msg", "Message")):
        allc = K.constructions(crate, "style::WideElement", V, bodies=[b])
        if key not in arms or not allc:
            continue  # counted by the floor below
        reg = arms[key][1]
        cons = [(i, j, st) for (_b, i, j, st) in allc if i in reg]
        n += 1
        if not cons:
            continue  # the element is built outside the arm (a refactor this clause does not follow): no verdict
        def is_optw(l):
            return "Option<style::WideElement" in str(b.locals[l]["ty"])
        stores = [st for i, j, st in b.assigns() if i in reg and st["rv"]["k"] == "agg" and st["rv"].get("adt", "").endswith("option::Option")
                  and st["rv"].get("variant") == "Some" and is_optw(st["lhs"]["l"])]
        stores = [(i, st) for i, j, st in b.assigns() if st in stores]
        stores += [(c.bb, c) for c in b.calls(r"(std|core)::option::Option::<T>::(insert|replace)$") if c.bb in reg]
        # ... unconditionally: no test inside the arm decides whether the store happens (`if wide.is_none() { wide = Some(..) }`)
        def conditional(bb):
            for sb, t in b.switches():
                if sb not in reg:
                    continue
                tg = {x for _, x in t["targets"]} | {t["otherwise"]}
                if len(tg) > 1 and any(b.edge_dominates((sb, x), bb) for x in tg):
                    return True
            return False
        stores = [x for x in stores if not conditional(x[0])]
        keeps = sorted({c.path for c in b.calls(r"(std|core)::option::Option::<T>::(get_or_insert|get_or_insert_with|or|or_else|xor)$") if c.bb in reg})
        c0 = arms[key][0]
        ctx.check(bool(stores) and not keeps, rule, "arm:%s" % key, b.name, c0.loc(),
                  "`%s` stores Some(WideElement::%s) unconditionally for its line" % (key, V),
                  "`%s` does not overwrite the wide element kept from an earlier template line%s: a `{wide_msg}` line above a `{wide_bar}` line "
                  "(or the reverse) expands the later marker as the wrong element - no bar cells are drawn" % (key, (" (%s)" % ", ".join(keeps)) if keeps else ""), cfg)
    ctx.floor(rule, n, 2, cfg, "wide arms of format_state")


def rule_char_width_coherent(ctx, crate, rule="R-CHAR-WIDTH-COHERENT"):
    """format_bar divides the width by the *cached* `char_width`: the cache must be the cluster width of the table that is
    stored with it. In every function that stores `progress_chars`, a store of `char_width` exists whose value is
    `width(..)` of the same new table (it derives from the function's text argument / the literal being installed), not of
    the table being replaced."""
    cfg = crate.config
    n = 0
    all_cons = K.constructions(crate, PSTY)
    for b in K.lib_bodies(crate):
        if b.kind == "Closure" or ((b.impl or {}).get("trait") or "").startswith("std::clone::Clone"):
            continue        # a clone copies both fields of a coherent style
        pcs = [(i, j, s) for i, j, s in b.assigns() if [f for f in place_fields(s["lhs"])][-1:] and place_fields(s["lhs"])[-1][0] == PSTY and place_fields(s["lhs"])[-1][2] == "progress_chars"]
        cons = [(i, j, s) for (cb, i, j, s) in all_cons if cb.name == b.name]
        if not pcs and not cons:
            continue
        n += 1
        if pcs:
            cws = [(i, j, s) for i, j, s in b.assigns() if place_fields(s["lhs"])[-1:] and place_fields(s["lhs"])[-1][0] == PSTY and place_fields(s["lhs"])[-1][2] == "char_width"]
            ok = bool(cws)
            why = "the table is replaced without updating the cached cluster width"
            for i, j, s in cws:
                sl = b.slice_rv(i, s)
                new_src = set()
                for pi, pj, ps in pcs:
                    psl = b.slice_rv(pi, ps)
                    new_src |= {c.bb for c in psl.calls} | {("param", p) for p in psl.params() if p != 1}
                got = {c.bb for c in sl.calls} | {("param", p) for p in sl.params() if p != 1}
                if not sl.has_call(r"style::width") or not (new_src & got):
                    ok = False
                    why = "the cached cluster width is not computed from the table being installed (it measures the table that is replaced, or something else)"
            ctx.check(ok, rule, "cache-follows-table", b.name, K.fn_loc(b), "char_width is width() of the progress_chars stored by the same call", why, cfg)
        for i, j, s in cons:
            f = dict(zip(s["rv"]["fields"], s["rv"]["ops"]))
            selfs = [p_ for p_ in range(1, b.arg_count + 1) if b.locals[p_]["ty"] == PSTY]
            if selfs and "progress_chars" in f and K.meth(b.name) != "progress_chars":
                # a builder that consumes a style hands its table on: `{bar:N}` is drawn with the configured characters (and their
                # cell width) whatever builder was called last (seed C13n: `.progress_chars(X).template(T)` fell back to the default table)
                psl_ = b.slice(f["progress_chars"], at=i, through_calls=False)
                keeps = selfs[0] in psl_.params() and not psl_.calls
                ctx.check(keeps, rule, "builder-keeps-table:%s" % K.meth(b.name), b.name, "%s:%d" % (b.file, s.get("line", 0)),
                          "a builder that rebuilds the style keeps the configured progress characters",
                          "%s() rebuilds the style with a progress_chars table that is not the one of the style it was called on: the configured characters "
                          "(and their cell width) are silently replaced" % K.meth(b.name), cfg)
            if "char_width" in f and "progress_chars" in f:
                wsl = b.slice(f["char_width"], at=i)
                psl = b.slice(f["progress_chars"], at=i)
                ok = wsl.has_call(r"style::width") and bool({c.bb for c in psl.calls} & {c.bb for c in wsl.calls})
                if not ok:
                    # struct-update syntax (`Self { template, ..self }`): both fields are moved out of one existing style, which is coherent
                    def src_style(op_):
                        pl_ = op_.get("place") if isinstance(op_, dict) else None
                        fs_ = place_fields(pl_) if pl_ else []
                        return (pl_["l"], tuple(json.dumps(e_, sort_keys=True) for e_ in pl_["p"][:-1])) if fs_ and fs_[-1][0] == PSTY else None
                    a_, b_ = src_style(f["char_width"]), src_style(f["progress_chars"])
                    ok = a_ is not None and a_ == b_ and place_fields(f["char_width"]["place"])[-1][2] == "char_width" and \
                        place_fields(f["progress_chars"]["place"])[-1][2] == "progress_chars"
                ctx.check(ok, rule, "constructor-coherent", b.name, "%s:%d" % (b.file, s.get("line", 0)),
                          "a new style's char_width is width() of its own progress_chars", "a new style's char_width is not computed from its progress_chars", cfg)
    ctx.floor(rule, n, 2, cfg, "functions installing a progress_chars table")


STR_WIDTH = (r"unicode_width::UnicodeWidthStr::width(_cjk)?", r"console::measure_text_width", r"<str as unicode_width::UnicodeWidthStr>::width(_cjk)?")


def rule_cluster_measure(ctx, crate, rule="R-CLUSTER-MEASURE"):
    """"cells of c columns each": c is the number of terminal columns one progress character - a grapheme cluster - takes. The
    cluster is measured as a *string* (`UnicodeWidthStr::width` / `console::measure_text_width` of the whole cluster): a cluster
    can be wider than its first character (an emoji presentation sequence U+2764 U+FE0F is 2 columns, U+2764 alone 1), so a
    per-character shortcut (`s.chars().next()`, a sum over `chars()`) gives a c that is too small and the bar is drawn with
    twice as many columns as asked for. Checked in the helper(s) `style::width` maps over the table (today `style::measure`):
    the result derives from a string-width call on the parameter, and from no per-character width."""
    cfg = crate.config
    w = K.find_one(ctx, crate, rule, r"style::width")
    if not w:
        return
    helpers = set()
    seen, work = {w.name}, [w]
    while work:
        b = work.pop()
        for c in b.calls():
            if c.callee.get("local") and not c.callee.get("trait"):
                for tn in crate.resolve_targets(c):
                    h = crate.bodies.get(tn)
                    if h is not None and h.name not in seen and h.file == w.file:
                        seen.add(h.name)
                        work.append(h)
        for i, j, s_ in b.assigns():
            if s_["rv"]["k"] == "agg" and s_["rv"].get("ak") == "closure" and s_["rv"].get("def") in crate.bodies and s_["rv"]["def"] not in seen:
                seen.add(s_["rv"]["def"])
                work.append(crate.bodies[s_["rv"]["def"]])
    n = 0
    if "unicode-width" not in (crate.features or []):
        ctx.check(True, rule, "no-unicode-width-feature", w.name, K.fn_loc(w), "without the unicode-width feature clusters are counted in chars", "", cfg)
        return
    measured = False
    for name in sorted(seen):
        b = crate.bodies[name]
        strw = b.calls(*STR_WIDTH)
        charw = b.calls(r"unicode_width::UnicodeWidthChar::width(_cjk)?", r"<char as unicode_width::UnicodeWidthChar>::width(_cjk)?")
        # ... also when the per-character width is handed on as a function item (`.and_then(UnicodeWidthChar::width)`)
        fn_items = set()
        for d_ in b.defs().get(0, ()):
            sl_ = b.slice_rv(d_["bb"], {"lhs": d_["lhs"], "rv": d_["rv"]}) if d_["kind"] == "assign" else b.slice_args(d_["call"])
            fn_items |= {a[1] for a in sl_.atoms if a[0] == "fn" and re.search(r"UnicodeWidthChar", a[1])}
        if not strw and not charw and not fn_items:
            continue
        n += 1
        charw = list(charw) + [type("F", (), {"path": f_, "loc": (lambda self_=None, b_=b: K.fn_loc(b_))})() for f_ in sorted(fn_items)]
        measured = measured or bool(strw)
        ok = bool(strw) and not charw and all(b.slice_args(c, [0]).params() for c in strw)
        ctx.check(ok, rule, "string-width:%s" % K.meth(name), name, (strw or charw)[0].loc(),
                  "a progress character is measured as a string (the whole cluster)",
                  "%s measures a cluster through per-character widths (%s): a cluster wider than its first character (emoji presentation sequence, keycap) is under-measured, "
                  "char_width comes out too small and {bar:N} draws twice the columns" % (K.meth(name), ", ".join(sorted({K.meth(c.path) for c in charw})) or "no string width"), cfg)
    ctx.check(measured, rule, "measures-clusters", w.name, K.fn_loc(w), "style::width measures each cluster with a string-width function",
              "no string-width call is reachable from style::width: the cluster width is not measured", cfg)
    ctx.floor(rule, n, 1, cfg, "cluster measuring helpers")


def rule_cur_range(ctx, crate, b, somes, then_closures=(), rule="R-BAR-CUR"):
    """The partial cell is a *partial* glyph: with n fine-grained entries (n = progress_chars.len() - 2 > 1) its index lies in
    1..=n - never 0 (the filled glyph: the bar would show one filled cell too many and look complete before it is) and never
    n+1 (the background). Decided by interval arithmetic over the symbol n on the symbolic value of the index (loop-free
    body): fract(x) in [0,1); c - [a,b) = (c-b, c-a]; [a,b) * n scales; truncation of [0, n) is 0..=n-1 but of (0, n] is 0..=n;
    n (saturating-)minus 0..=n-1 is 1..=n."""
    from ..symval import SymExec
    cfg = crate.config
    sx = SymExec(b)
    if not sx.ok:
        return
    F = lambda a, bb_: (a, bb_)          # a*n + b

    def is_n(e):
        return isinstance(e, tuple) and e[0] == "call" and re.search(r"saturating_sub|wrapping_sub|checked_sub", e[1]) and len(e[2]) == 2 and \
            e[2][1][0] == "const" and e[2][1][1] == 2 and "len" in str(e[2][0][1] if e[2][0][0] == "call" else "")

    def rng(e, depth=0):
        """(lo, lo_open, hi, hi_open, is_int) with lo/hi = (a, b) meaning a*n + b; None = unknown"""
        if depth > 30 or not isinstance(e, tuple):
            return None
        if is_n(e) or (e[0] == "bin" and e[1] in ("Sub", "SubWithOverflow") and is_n(("call", "saturating_sub", (e[2], e[3])))):
            return (F(1, 0), False, F(1, 0), False, True)
        if e[0] == "const":
            v = e[1]
            if isinstance(v, bool):
                return None
            if isinstance(v, int):
                return (F(0, v), False, F(0, v), False, True)
            try:
                fv = float(v)
            except (TypeError, ValueError):
                return None
            return (F(0, fv), False, F(0, fv), False, False)
        if e[0] == "cast":
            r = rng(e[1], depth + 1)
            if r is None:
                return None
            lo, lo_o, hi, hi_o, is_int = r
            to_int = not str(e[2]).startswith("f")
            if is_int and not to_int:
                return (lo, lo_o, hi, hi_o, False)
            if not is_int and to_int:
                # truncation of a non-negative float range: floor of the lower end, hi stays when closed, drops by one when open
                if lo[0] < 0 or (lo[0] == 0 and lo[1] < 0):
                    return None
                nlo = (lo[0], int(lo[1] // 1))
                nhi = (hi[0], hi[1] - 1) if hi_o and float(hi[1]).is_integer() else (hi[0], int(hi[1] // 1))
                return (nlo, False, nhi, False, True)
            return r
        if e[0] == "call" and re.search(r"f(32|64)>::fract$", e[1]):
            return (F(0, 0.0), False, F(0, 1.0), True, False)
        if e[0] == "call" and re.search(r"(saturating_sub|wrapping_sub)$", e[1]) and len(e[2]) == 2 or e[0] == "bin" and e[1] in ("Sub", "SubWithOverflow", "SubUnchecked"):
            x, y = (e[2][0], e[2][1]) if e[0] == "call" else (e[2], e[3])
            rx, ry = rng(x, depth + 1), rng(y, depth + 1)
            if rx is None or ry is None:
                return None
            lo = (rx[0][0] - ry[2][0], rx[0][1] - ry[2][1])
            hi = (rx[2][0] - ry[0][0], rx[2][1] - ry[0][1])
            return (lo, rx[1] or ry[3], hi, rx[3] or ry[1], rx[4] and ry[4])
        if e[0] == "bin" and e[1] in ("Mul", "MulWithOverflow"):
            rx, ry = rng(e[2], depth + 1), rng(e[3], depth + 1)
            if rx is None or ry is None:
                return None
            for p_, q in ((rx, ry), (ry, rx)):
                # q is exactly n (as float), p is a constant range
                if q[0] == F(1, 0) and q[2] == F(1, 0) and p_[0][0] == 0 and p_[2][0] == 0 and p_[0][1] >= 0:
                    return (F(p_[0][1], 0), p_[1], F(p_[2][1], 0), p_[3], p_[4] and q[4])
            return None
        if e[0] == "call" and re.search(r"(min|max)$", e[1]):
            return None
        return None
    n_chk = 0
    # (host body, local holding the index): the payload of `Some(..)`, or the value returned by the closure of `flag.then(|| ..)`
    targets = [(b, sx, operand_local(d["rv"]["ops"][0])) for d in somes]
    for cl in then_closures:
        sxc = SymExec(cl)
        if sxc.ok:
            targets.append((cl, sxc, 0))
    for b, sx, pl in targets:
        if pl is None:
            continue
        # the definitions behind plain copies
        cand, seen_l, work_l = [], set(), [pl]
        while work_l:
            l_ = work_l.pop()
            if l_ in seen_l or l_ is None:
                continue
            seen_l.add(l_)
            for dd in b.defs().get(l_, ()):
                if dd["kind"] == "assign" and dd["rv"]["k"] == "use" and dd["rv"]["op"].get("k") in ("copy", "move") and not dd["rv"]["op"]["place"]["p"]:
                    work_l.append(operand_local(dd["rv"]["op"]))
                elif dd["kind"] in ("assign", "call"):
                    cand.append(dd)
        for dd in cand:
            if dd["kind"] == "call":
                c = dd["call"]
                env = sx.env_at[c.bb]
                e = ("call", c.path, tuple(sx.op(env, a) for a in c.args), c.bb)
                where = c.loc()
            elif dd["kind"] == "assign" and dd["rv"]["k"] in ("cast", "bin"):
                env = dict(sx.env_in[dd["bb"]])
                for st in b.stmts(dd["bb"]):
                    if st.get("k") != "assign":
                        continue
                    if st["lhs"] == dd["lhs"] and st["rv"] is dd["rv"]:
                        break
                    if not st["lhs"]["p"]:
                        env[st["lhs"]["l"]] = sx.rvalue(env, st["rv"])
                e = sx.rvalue(env, dd["rv"])
                where = "%s:%d" % (b.file, dd.get("line", 0))
            else:
                continue
            r = rng(e)
            n_chk += 1
            if r is None:
                ctx.bad(rule, "index-in-1..=n", b.name, where, "the range of the partial cell's index cannot be established (expected n - trunc(fract * n) with n = len - 2)", cfg)
                continue
            lo, lo_o, hi, hi_o, is_int = r
            ge1 = lo[0] > 0 or (lo[0] == 0 and lo[1] >= 1)              # with n >= 2: a*n + b >= 1
            le_n = hi[0] < 1 or (hi[0] == 1 and hi[1] <= 0)
            ctx.check(ge1 and le_n, rule, "index-in-1..=n", b.name, where,
                      "the partial cell's index lies in 1..=n (a partial glyph, never the filled glyph 0 nor the background n+1)",
                      "the partial cell's index ranges over %s*n%+g ..= %s*n%+g: it can be %s - the bar then shows one filled cell too many (it looks complete before position reaches "
                      "the length) or a background cell in the middle" % (lo[0], lo[1], hi[0], hi[1], "0, the filled glyph" if not ge1 else "n+1, the background glyph"), cfg)
    ctx.floor(rule, n_chk, 1, cfg, "computed partial-cell indices (fine-grained branch)")


def _flag_true_at(b, heads, bb):
    """the bool converted into the partial-cell flag is known true at bb (dominating test of the same bool, through `!`/copies)"""
    if not heads or len(heads) != 1:
        return False

    def bool_root(op):
        l = operand_local(op) if isinstance(op, dict) else None
        if l is None or op.get("place", {}).get("p"):
            return None
        neg = False
        for _ in range(6):
            ds = [d_ for d_ in b.defs().get(l, ()) if d_["kind"] != "param"]
            if len(ds) == 1 and ds[0]["kind"] == "assign" and ds[0]["rv"]["k"] == "use" and operand_local(ds[0]["rv"]["op"]) is not None and not ds[0]["rv"]["op"]["place"]["p"]:
                l = operand_local(ds[0]["rv"]["op"])
            elif len(ds) == 1 and ds[0]["kind"] == "assign" and ds[0]["rv"]["k"] == "un" and ds[0]["rv"].get("op") == "Not":
                neg = not neg
                l = operand_local(ds[0]["rv"].get("a"))
            else:
                break
        return (l, neg) if l is not None else None
    src = bool_root(heads[0].args[0])
    if not src:
        return False
    for sb, t in b.switches():
        r = bool_root(t["op"])
        if not r or r[0] != src[0]:
            continue
        tf = true_false_edges(b, sb, t)
        if not tf:
            continue
        for e_, val in ((tf[0], True), (tf[1], False)):
            if b.edge_dominates(e_, bb) and ((val != r[1]) != src[1]) is True:
                return True
    return False
