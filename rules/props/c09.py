"""C09 — rate and ETA estimator: structural skeleton only (zero cases, reset forgetfulness, time-based weights,
guards of the update, no panic edge). The numeric laws are NOT decided."""
import json

from .. import common as K
from .. import ledger as Lg
from ..facts import Call, operand_local, place_fields, const_val

EXPLANATION = ("Decides the clauses of C09 whose truth is in the shape of the code: (zero cases) ProgressState::eta returns a value "
               "computed from the rate only on edges where the bar is unfinished, the length is known and the rate was compared "
               "non-zero, and the zero duration only on the complementary edges; ProgressState::duration is elapsed + eta on its live "
               "path; (forgetfulness) Estimator::reset overwrites every history-carrying field from constants or `now` only, the "
               "estimator's fields are written by new/record/reset only, reset_eta/reset and the backwards-seek edge of record all "
               "reach it; (cadence independence, necessary part) every smoothing weight is a function of an Instant difference "
               "(now - prev_time for the decay, now - start_time for the normalisation), never of a counter, and both "
               "steps_per_second and record divide by a start_time-derived total weight; (update guard) every store of a rate "
               "into the estimator is dominated by edges implying steps and time strictly advanced; (totality) no unaudited panic "
               "edge in the estimator and the three getters.")
UNDECIDED = ("Finiteness, non-negativity, boundedness by the largest observed rate, monotone decay, equality with the true rate for "
             "steady progress: these are laws over float values and update histories; no sound static argument in reach bounds them. "
             "Listed as claimed only for the structural clauses above.")

EST = "state::Estimator"
EST_FIELDS = []        # filled from the ADT facts at run()
PS = "state::ProgressState"
ZERO_CTORS = (r"std::time::Duration::(new|from_secs|from_millis|from_micros|from_nanos|from_secs_f64|from_secs_f32)",)
ENTRIES = [r"state::ProgressState::(eta|duration|per_sec|elapsed)", r"state::Estimator::\w+", r"state::(secs_to_duration|duration_to_secs|estimator_weight)"]


# ---- small condition algebra ------------------------------------------------------------------------------

def src_place(b, op, depth=0):
    """Source place of an operand through single-definition copies and `&place` temporaries."""
    if not isinstance(op, dict) or op.get("k") == "const" or depth > 5:
        return None
    pl = op["place"]
    if pl["p"]:
        return (pl["l"], json.dumps([x for x in pl["p"]], sort_keys=True))
    l = pl["l"]
    ds = b.defs().get(l, ())
    if len(ds) == 1 and ds[0]["kind"] == "assign" and not ds[0]["lhs"]["p"]:
        rv = ds[0]["rv"]
        if rv["k"] == "use":
            r = src_place(b, rv["op"], depth + 1)
            return r if r is not None else (l, "[]")
        if rv["k"] == "ref":
            return (rv["place"]["l"], json.dumps([x for x in rv["place"]["p"]], sort_keys=True))
    return (l, "[]")


def bool_source(b, op, depth=0):
    """What a switch operand tests: ('call', Call, flip) | ('bin', rv, flip, bb) | ('discr', place, False) | None."""
    l = operand_local(op)
    if l is None or depth > 5:
        return None
    ds = b.defs().get(l, ())
    if len(ds) != 1:
        return None
    d = ds[0]
    if d["kind"] == "call":
        return ("call", d["call"], False)
    if d["kind"] != "assign":
        return None
    rv = d["rv"]
    if rv["k"] == "use":
        return bool_source(b, rv["op"], depth + 1)
    if rv["k"] == "un" and rv.get("op") == "Not":
        r = bool_source(b, rv.get("a") or rv.get("x") or rv.get("arg"), depth + 1)
        return (r[0], r[1], not r[2]) + tuple(r[3:]) if r else None
    if rv["k"] == "bin":
        return ("bin", rv, False, d["bb"])
    if rv["k"] == "discr":
        return ("discr", rv["place"], False)
    return None


def true_false_edges(b, sb, t):
    zero = [tb for v, tb in t["targets"] if v == 0]
    if not zero or len(t["targets"]) != 1:
        return None
    return (sb, t["otherwise"]), (sb, zero[0])


def cond_edges(b, crate, pred):
    """Edges on which `pred` holds / does not hold. pred(kind, payload) -> None | 'pos' | 'neg' | set(of variant names for discr).
    Returns (holds_edges, fails_edges)."""
    holds, fails = [], []
    for sb, t in b.switches():
        src = bool_source(b, t["op"])
        if not src:
            continue
        if src[0] == "discr":
            r = pred("discr", src[1])
            if not r:
                continue
            adt, variants = r
            for tgt, vs in K.edge_variants(crate, t, adt).items():
                if vs and vs <= variants:
                    holds.append((sb, tgt))
                elif not (vs & variants):
                    fails.append((sb, tgt))
            continue
        r = pred(src[0], src[1])
        if not r:
            continue
        tf = true_false_edges(b, sb, t)
        if not tf:
            continue
        te, fe = tf
        pos = (r == "pos") != bool(src[2])
        (holds if pos else fails).append(te)
        (fails if pos else holds).append(fe)
    return holds, fails


def is_zero_duration_def(b, d):
    if d["kind"] == "call":
        c = d["call"]
        if c.matches(*ZERO_CTORS):
            return all(const_val(a) in (0, 0.0, "0.0") for a in c.args)
        return c.matches(r"std::default::Default::default", r"<std::time::Duration as std::default::Default>::default")
    if d["kind"] == "assign" and d["rv"]["k"] == "use" and d["rv"]["op"].get("k") == "const":
        o = d["rv"]["op"]
        return bool(o.get("allzero")) or (o.get("cdef") or "").endswith("Duration::ZERO")
    return False


def ret_defs(b):
    return [d for d in b.defs().get(0, ()) if d["kind"] in ("assign", "call") and not d.get("via_ref")]


def def_slice(b, d, **kw):
    if d["kind"] == "call":
        return b.slice_args(d["call"], **kw)
    return b.slice_rv(d["bb"], {"lhs": d["lhs"], "rv": d["rv"]}, **kw)


def dloc(b, d):
    return "%s:%d" % (b.file, d.get("line", 0))


# ---- predicates ---------------------------------------------------------------------------------------------

def p_finished(b):
    def pred(kind, x):
        if kind == "call" and x.matches(r"state::ProgressState::is_finished"):
            return "pos"
        if kind == "discr" and any(n == "status" for a, v, n in place_fields(x)):
            return ("state::Status", {"DoneVisible", "DoneHidden"})
        return None
    return pred


def _copied_from(b, pl):
    """A local that is a plain copy of a place (`let len = self.len; match len {..}`, a split match-scrutinee tuple): that place."""
    for _ in range(4):
        if pl.get("p"):
            return pl
        ds = [d for d in b.defs().get(pl["l"], ()) if d["kind"] != "param"]
        if len(ds) == 1 and ds[0]["kind"] == "assign" and not ds[0]["lhs"]["p"] and ds[0]["rv"]["k"] == "use" and ds[0]["rv"]["op"].get("k") in ("copy", "move"):
            pl = ds[0]["rv"]["op"]["place"]
        else:
            return pl
    return pl


def p_no_len(b):
    def pred(kind, x):
        if kind == "discr" and [n for a, v, n in place_fields(_copied_from(b, x))][-1:] == ["len"]:
            return ("std::option::Option", {"None"})
        if kind == "call" and x.matches(r"std::option::Option::<T>::is_(none|some)"):
            sl = b.slice_args(x, [0], through_calls=False)
            if sl.has_field("len", PS):
                return "pos" if K.meth(x.path) == "is_none" else "neg"
        return None
    return pred


def p_rate_zero(b, rate_calls):
    """Comparisons of the rate with the constant 0.0: 'pos' when the true edge means rate == 0 (or <= 0)."""
    rate_bbs = {c.bb for c in rate_calls}

    def pred(kind, x):
        if kind != "bin" or x["op"] not in ("Eq", "Ne", "Gt", "Lt", "Ge", "Le"):
            return None
        a, c = x["a"], x["b"]
        ca, cc = const_val(a), const_val(c)
        isz = lambda v: v in (0, 0.0, "0.0", "-0.0", "0")
        if isz(cc) and not isinstance(a, dict) is False and a.get("k") != "const":
            val, op = a, x["op"]
        elif isz(ca) and c.get("k") != "const":
            val, op = c, {"Gt": "Lt", "Lt": "Gt", "Ge": "Le", "Le": "Ge"}.get(x["op"], x["op"])
        else:
            return None
        sl = b.slice(val, through_calls=False)
        if not any(k.bb in rate_bbs for k in sl.calls):
            return None
        # op is now relative to `rate OP 0`
        if op in ("Eq", "Le"):
            return "pos"          # true edge: rate is zero (or not positive)
        if op in ("Ne", "Gt"):
            return "neg"          # true edge: rate is non-zero
        return None               # `rate < 0`, `rate >= 0` say nothing about zero
    return pred


def p_nothing_remaining(b):
    """Tests implying `len - pos == 0`: `len.saturating_sub(pos) == 0` (or `<= 0`), `pos >= len`, `pos > len` and their mirror
    images; 'pos' when the true edge implies it, 'neg' when the false edge does."""
    def has_pos(sl):
        return sl.has_field("pos") or sl.has_call(r"state::ProgressState::pos", r"portable_atomic::AtomicU64::load")

    def has_len(sl):
        return sl.has_field("len", PS) or sl.has_call(r"state::ProgressState::len")

    def pred(kind, x):
        if kind != "bin" or x["op"] not in ("Eq", "Ne", "Gt", "Lt", "Ge", "Le"):
            return None
        a, c, op = x["a"], x["b"], x["op"]
        isz = lambda v: v in (0, "0") and not isinstance(v, bool)
        flip = {"Gt": "Lt", "Lt": "Gt", "Ge": "Le", "Le": "Ge"}
        if isz(const_val(c)) or isz(const_val(a)):
            val = a if isz(const_val(c)) else c
            if isz(const_val(a)):
                op = flip.get(op, op)
            if not isinstance(val, dict) or val.get("k") == "const":
                return None
            sl = b.slice(val)
            arith = [t for t in sl.atoms if t[0] == "binop" and t[1] not in ("Sub", "SubWithOverflow", "SubUnchecked")]
            subs = [t for t in sl.atoms if t[0] == "binop"] or [k for k in sl.calls if k.matches(r"core::num::<impl \w+>::(saturating_sub|checked_sub)")]
            other = [k for k in sl.calls if not k.matches(r"core::num::<impl \w+>::(saturating_sub|checked_sub)", r"state::ProgressState::(pos|len)",
                                                          r"portable_atomic::AtomicU64::load", r"std::option::Option::<T>::(unwrap_or|unwrap_or_default|unwrap)",
                                                          r"std::convert::(From::from|Into::into)")]
            if arith or other or not subs or not (has_pos(sl) and has_len(sl)):
                return None
            # op is relative to `remaining OP 0`
            return "pos" if op in ("Eq", "Le") else "neg" if op in ("Ne", "Gt") else None
        if a.get("k") == "const" or c.get("k") == "const":
            return None
        sa, sc = b.slice(a), b.slice(c)
        plain = lambda sl: not [t for t in sl.atoms if t[0] == "binop"] and not [k for k in sl.calls if not k.matches(
            r"state::ProgressState::(pos|len)", r"portable_atomic::AtomicU64::load", r"std::convert::(From::from|Into::into)")]
        if not (plain(sa) and plain(sc)):
            return None
        if has_pos(sa) and not has_len(sa) and has_len(sc) and not has_pos(sc):
            pass                      # pos OP len
        elif has_len(sa) and not has_pos(sa) and has_pos(sc) and not has_len(sc):
            op = flip.get(op, op)     # len OP pos  ->  pos OP' len
        else:
            return None
        return "pos" if op in ("Ge", "Gt", "Eq") else "neg" if op in ("Lt", "Le") and op == "Lt" else None
    return pred


# ---- rules ----------------------------------------------------------------------------------------------------

def rule_eta_zero_cases(ctx, crate, rule="R-ETA-ZERO-CASES"):
    cfg = crate.config
    b = K.find_one(ctx, crate, rule, r"state::ProgressState::eta")
    if not b:
        return
    rate_calls = b.calls(r"state::Estimator::steps_per_second")
    ctx.floor(rule, len(rate_calls), 1, cfg, "steps_per_second calls in eta")
    defs = ret_defs(b)
    live = [d for d in defs if not is_zero_duration_def(b, d)]
    zero = [d for d in defs if is_zero_duration_def(b, d)]
    ctx.floor(rule, len(live), 1, cfg, "rate-derived return values of eta")
    ctx.floor(rule, len(zero), 1, cfg, "zero-duration return values of eta")
    conds = [("finished", p_finished(b)), ("length-unknown", p_no_len(b)), ("rate-zero", p_rate_zero(b, rate_calls))]
    all_holds = []
    for cname, pred in conds:
        holds, fails = cond_edges(b, crate, pred)
        if not holds or not fails:
            for k, d in enumerate(live):
                ctx.bad(rule, "live-value-excludes:%s#%d" % (cname, k), b.name, dloc(b, d),
                        "eta never tests `%s`: it returns a rate-derived value although it holds" % cname, cfg)
            continue
        all_holds += holds
        Rc, _ = K.specialise(b, set(fails), crate)      # what can run while the condition holds (dependent tests folded)
        for k, d in enumerate(live):
            ok = any(b.edge_dominates(e, d["bb"]) for e in fails) or d["bb"] not in Rc
            ctx.check(ok, rule, "live-value-excludes:%s#%d" % (cname, k), b.name, dloc(b, d),
                      "the rate-derived ETA is computed only where `%s` is false" % cname,
                      "eta can return a rate-derived (non-zero) value although `%s` holds" % cname, cfg)
    # remaining == 0 (position at or past the length) is a zero of `remaining / rate` itself: an early return for it is allowed
    all_holds += cond_edges(b, crate, p_nothing_remaining(b))[0]
    for k, d in enumerate(zero):
        r = b.reach([0], avoid_edges=all_holds)
        ctx.check(d["bb"] not in r, rule, "zero-only-when-stated#%d" % k, b.name, dloc(b, d),
                  "the zero ETA is returned only when finished, length unknown, nothing remaining or no progress seen",
                  "eta returns zero on a path where the bar is unfinished, has a length and a non-zero rate", cfg)
    for k, d in enumerate(live):
        sl = def_slice(b, d)
        ok = sl.has_field("len", PS) and any(c.bb in {x.bb for x in rate_calls} for c in sl.calls) and \
            (sl.has_field("pos") or sl.has_call(r"state::ProgressState::pos", r"portable_atomic::AtomicU64::load"))
        ctx.check(ok, rule, "live-value-sources#%d" % k, b.name, dloc(b, d),
                  "the ETA derives from length, position and the estimator's rate",
                  "the ETA value does not derive from all of length, position and steps_per_second", cfg)
        divs = [a for a in sl.atoms if a[0] == "binop" and a[1] == "Div"]
        ctx.check(bool(divs), rule, "live-value-is-quotient#%d" % k, b.name, dloc(b, d),
                  "remaining steps are divided by the rate", "no division in the ETA value (remaining / rate)", cfg)
    # the rate read by eta is taken at a fresh instant
    for c in rate_calls:
        sl = b.slice_args(c, [1])
        ctx.check(sl.has_call(r"std::time::Instant::now"), rule, "rate-at-now", b.name, c.loc(),
                  "eta queries the rate at Instant::now()", "eta queries the rate at an instant that is not now()", cfg)


def rule_duration_sum(ctx, crate, rule="R-DURATION-SUM"):
    cfg = crate.config
    b = K.find_one(ctx, crate, rule, r"state::ProgressState::duration")
    if not b:
        return
    defs = ret_defs(b)
    live = [d for d in defs if not is_zero_duration_def(b, d)]
    zero = [d for d in defs if is_zero_duration_def(b, d)]
    ctx.floor(rule, len(live), 1, cfg, "non-zero return values of duration()")
    for k, d in enumerate(live):
        sl = def_slice(b, d)
        has_eta = sl.has_call(r"state::ProgressState::eta")
        has_el = sl.has_call(r"std::time::Instant::elapsed", r"state::ProgressState::elapsed") and (sl.has_field("started", PS) or sl.has_call(r"state::ProgressState::elapsed"))
        addlike = d["kind"] == "call" and d["call"].matches(r"std::time::Duration::(saturating_add|checked_add)", r"std::ops::Add::add") or \
            sl.has_call(r"std::time::Duration::(saturating_add|checked_add)", r"std::ops::Add::add")
        other = [c.path for c in sl.calls if c.matches(r"std::time::Duration::(mul_f64|mul_f32|div_f64|div_f32|saturating_sub|checked_sub|saturating_mul|checked_mul|checked_div)", r"std::ops::(Sub|Mul|Div)::.*")]
        ctx.check(has_eta and has_el and addlike and not other, rule, "elapsed-plus-eta#%d" % k, b.name, dloc(b, d),
                  "duration() adds eta() to the time elapsed since `started`",
                  "duration() is not elapsed + eta (eta=%s elapsed=%s add=%s other=%s)" % (has_eta, has_el, bool(addlike), other), cfg)
    holds = []
    for pred in (p_finished(b), p_no_len(b)):
        h, f = cond_edges(b, crate, pred)
        holds += h
    for k, d in enumerate(zero):
        r = b.reach([0], avoid_edges=holds)
        ctx.check(d["bb"] not in r, rule, "zero-only-when-stated#%d" % k, b.name, dloc(b, d),
                  "duration() is zero only for a finished bar or an unknown length",
                  "duration() returns zero for an unfinished bar with a known length", cfg)


def rule_per_sec(ctx, crate, rule="R-PER-SEC-SOURCE"):
    cfg = crate.config
    b = K.find_one(ctx, crate, rule, r"state::ProgressState::per_sec")
    if not b:
        return
    calls = b.calls(r"state::Estimator::steps_per_second")
    ctx.floor(rule, len(calls), 1, cfg, "steps_per_second calls in per_sec")
    holds, fails = cond_edges(b, crate, p_finished(b))
    for c in calls:
        sl = b.slice_args(c, [1])
        ctx.check(sl.has_call(r"std::time::Instant::now"), rule, "rate-at-now", b.name, c.loc(),
                  "per_sec queries the rate at Instant::now()", "per_sec queries the rate at an instant that is not now()", cfg)
    # for an in-progress bar the returned value is the estimator's
    for k, d in enumerate(ret_defs(b)):
        if fails and any(b.edge_dominates(e, d["bb"]) for e in fails):
            sl = def_slice(b, d)
            ok = d["kind"] == "call" and d["call"].matches(r"state::Estimator::steps_per_second") or \
                (any(c.bb in {x.bb for x in calls} for c in sl.calls) and not [a for a in sl.atoms if a[0] == "binop"])
            ctx.check(ok, rule, "in-progress-value#%d" % k, b.name, dloc(b, d),
                      "per_sec of an in-progress bar is the estimator's rate, unmodified",
                      "per_sec of an in-progress bar is not the estimator's rate", cfg)
        elif holds and any(b.edge_dominates(e, d["bb"]) for e in holds):
            # "finite and non-negative at every instant strictly after the bar's creation or last reset", also when finished: the
            # average is taken over the time since `started` up to *now* (positive at every such instant), not over a span between two
            # recorded instants, which is zero whenever nothing was recorded in between (seed C09m: `est.prev_time - started`)
            sl = def_slice(b, d)
            divs = [(i, st) for i, j, st in b.assigns() if st["rv"]["k"] == "bin" and st["rv"]["op"] == "Div" and st["lhs"]["l"] in sl.locals | {d.get("lhs", {}).get("l")}]
            if not divs:
                continue
            okd = True
            for i, st in divs:
                dsl = b.slice(st["rv"]["b"], at=i)
                clock = dsl.has_call(r"std::time::Instant::elapsed", r"web_time::Instant::elapsed", r"state::ProgressState::elapsed", r"std::time::Instant::now", r"web_time::Instant::now")
                est = [a for a in dsl.atoms if a[0] == "field" and a[1] == EST]
                okd = okd and clock and not est and dsl.has_field("started", PS)
            ctx.check(okd, rule, "finished-rate-over-elapsed#%d" % k, b.name, dloc(b, d),
                      "per_sec of a finished bar is the position over the time elapsed since `started` (read from the clock)",
                      "per_sec of a finished bar divides by a span that does not end *now* (it involves the estimator's recorded instants): with nothing recorded since "
                      "creation / reset_elapsed() the span is zero and the rate is inf or NaN", cfg)


def est_field_stores(b):
    """(bb, idx, stmt, field) for stores to fields of an Estimator; `*self = Estimator { .. }` counts as a store to every
    field (the statement is then narrowed to that field's operand)."""
    out = []
    for i, j, s in b.assigns():
        hit = False
        for adt, v, name in place_fields(s["lhs"]):
            if adt == EST:
                out.append((i, j, s, name))
                hit = True
        if hit or K.head_of_type(s["lhs"].get("ty", "")) != EST or not s["lhs"]["p"]:
            continue
        # whole-struct store `*self = <Estimator value>`
        rv = s["rv"]
        agg = None
        if rv["k"] == "agg" and rv.get("ak") == "adt" and rv.get("adt") == EST:
            agg = rv
        elif rv["k"] == "use":
            l = operand_local(rv["op"])
            ds = [d for d in b.defs().get(l, ()) if d["kind"] in ("assign", "call")] if l is not None else []
            if len(ds) == 1 and ds[0]["kind"] == "assign" and ds[0]["rv"]["k"] == "agg" and ds[0]["rv"].get("adt") == EST:
                agg = ds[0]["rv"]
                i2 = ds[0]["bb"]
        if agg is not None and agg.get("fields"):
            for n_, o in zip(agg["fields"], agg["ops"]):
                out.append((i, j, {"k": "assign", "lhs": s["lhs"], "rv": {"k": "use", "op": o}, "line": s.get("line", 0)}, n_))
        else:
            for n_ in EST_FIELDS:
                out.append((i, j, s, n_))
    return out


def rule_est_writers(ctx, crate, rule="R-EST-WRITERS"):
    cfg = crate.config
    n = 0
    own = ("state::Estimator::new", "state::Estimator::record", "state::Estimator::reset")
    n_anchor = 0
    for b in K.lib_bodies(crate):
        # where the *position* is reset to zero the estimator starts over with it (a fresh Estimator::new(now): its step anchor is 0
        # like the position); that is the one place outside the estimator's own methods where it may be replaced
        pos_resets = [c.bb for c in b.calls(r"state::AtomicPosition::reset")]
        fresh_ok = set()
        if pos_resets:
            fresh_ok = set(b.reachable()) - b.reach([0], avoid=pos_resets)
        for i, j, s, name in est_field_stores(b):
            n += 1
            ok = b.name in own or (i in fresh_ok and not [a for a in b.slice_rv(i, s).atoms if a[0] == "field" and a[1] == EST])
            ctx.check(ok, rule, "write:%s" % name, b.name, "%s:%d" % (b.file, s.get("line", 0)),
                      "Estimator.%s written by new/record/reset" % name, "Estimator.%s written outside new/record/reset" % name, cfg)
        replaced_at = []
        for i, j, s in b.assigns():
            if any(adt == PS and name == "est" for adt, v, name in place_fields(s["lhs"])[-1:]):
                n += 1
                sl = b.slice_rv(i, s)
                fresh = not [a for a in sl.atoms if a[0] == "field" and a[1] == EST] and not [c for c in sl.calls if not c.matches(r"state::Estimator::new", r"std::time::Instant::.*", r"web_time::Instant::.*")]
                ok = i in fresh_ok and fresh
                replaced_at.append(i)
                ctx.check(ok, rule, "replace-estimator", b.name, "%s:%d" % (b.file, s.get("line", 0)),
                          "the estimator is replaced by a fresh one only where the position itself is reset to zero",
                          "ProgressState.est is overwritten as a whole where the position is not reset to zero (reset_eta / reset_elapsed keep the position: a fresh estimator "
                          "measures the next sample from step 0 and everything done before the reset leaks into the rate)", cfg)
        for pr in pos_resets:
            if b.name.startswith("state::AtomicPosition::"):
                continue
            n_anchor += 1
            anchors = replaced_at + [i for i, j, s, name in est_field_stores(b) if name == "prev_steps"]
            ok = bool(anchors) and b.must_pass(b.succ(pr), anchors)
            ctx.check(ok, rule, "step-anchor-follows-position", b.name, "%s:%d" % (b.file, b.term(pr).get("line", 0)),
                      "where the position is reset to zero the estimator's step anchor is reset with it",
                      "the position is reset to zero but the estimator keeps measuring from the old position (Estimator::reset keeps prev_steps by design): after reset() the first "
                      "update below the old position is discarded as a rewind and later ones are under-counted - set_position(100); reset(); set_position(150) counts 50 steps", cfg)
        # &mut to the estimator handed to anything but its own methods
        for c in b.calls():
            if c.matches(r"state::Estimator::\w+"):
                continue
            for k, a in enumerate(c.args):
                l = operand_local(a)
                if l is not None and b.locals[l]["ty"].startswith("&mut") and b.locals[l].get("head") == EST:
                    ctx.bad(rule, "mut-escape:%s" % K.meth(c.path), b.name, c.loc(), "&mut Estimator passed to %s" % c.path, cfg)
    for (b, i, j, s) in K.constructions(crate, EST):
        n += 1
        prs = [c.bb for c in b.calls(r"state::AtomicPosition::reset")]
        ok = b.name in own or (bool(prs) and i not in b.reach([0], avoid=prs))      # (Estimator::new inlined next to a position reset)
        ctx.check(ok, rule, "construct", b.name, "%s:%d" % (b.file, s.get("line", 0)),
                  "Estimator built by its own new/reset", "Estimator built outside Estimator::new/reset", cfg)
    ctx.floor(rule, n, 8, cfg, "estimator state writes / constructions")
    ctx.floor(rule, n_anchor, 1, cfg, "functions that reset the position to zero")


def rule_est_reset_total(ctx, crate, rule="R-EST-RESET-TOTAL"):
    """After reset(now) no estimate may depend on anything before `now`: every field that carries history (all but the step
    counter, which the doc comment excludes) is overwritten, from constants or `now` only."""
    cfg = crate.config
    b = K.find_one(ctx, crate, rule, r"state::Estimator::reset")
    adt = crate.adts.get(EST)
    if not b or not adt:
        if not adt:
            ctx.lost(rule, cfg, "ADT state::Estimator not found")
        return
    fields = [f["name"] for f in adt["variants"][0]["fields"]]
    ctx.floor(rule, len(fields), 5, cfg, "Estimator fields")
    stores = est_field_stores(b)
    ret_bbs = [i for i in b.reachable() if b.term(i) and b.term(i)["k"] == "return"]
    for f in fields:
        ty = next(x["ty"] for x in adt["variants"][0]["fields"] if x["name"] == f)
        if ty in ("u64", "usize") and "step" in f:
            continue  # "This does not reset the stored position": the step counter is data, not history of rates
        ss = [(i, j, s) for i, j, s, n in stores if n == f]
        on_all = bool(ss) and b.must_pass([0], {i for i, j, s in ss})
        ctx.check(on_all, rule, "overwrites:%s" % f, b.name, K.fn_loc(b),
                  "reset overwrites Estimator.%s on every path" % f, "reset leaves Estimator.%s (history) in place" % f, cfg)
        for i, j, s in ss:
            sl = b.slice_rv(i, s)
            dep = [x for x in sl.atoms if x[0] == "field" and x[1] == EST and x[2] != f and False] or \
                [x for x in sl.atoms if x[0] == "field" and x[1] == EST and not sl.has_call(r"state::Estimator::new")] or \
                [c.path for c in sl.calls if not c.matches(r"state::Estimator::new")]
            ctx.check(not dep, rule, "fresh-value:%s" % f, b.name, "%s:%d" % (b.file, s.get("line", 0)),
                      "the new value of %s comes from a constant or `now`" % f,
                      "the value stored into %s by reset still depends on the old state (%s)" % (f, dep[:2]), cfg)
        if ty == "f64":
            for i, j, s in ss:
                v = const_val(s["rv"].get("op")) if s["rv"]["k"] == "use" else None
                if v is None and b.slice_rv(i, s).has_call(r"state::Estimator::new"):
                    continue   # taken from a fresh estimator (checked at the constructor)
                ctx.check(v in (0, 0.0, "0.0"), rule, "zero-rate:%s" % f, b.name, "%s:%d" % (b.file, s.get("line", 0)),
                          "%s is reset to 0.0 (the weight-less initial value the normalisation assumes)" % f,
                          "%s is reset to a value other than 0.0" % f, cfg)
    # the same for the constructor: a fresh estimator has no history
    nb = K.find_one(ctx, crate, rule, r"state::Estimator::new")
    if nb:
        for (cb, i, j, s) in K.constructions(crate, EST):
            if cb.name != nb.name:
                continue
            names = s["rv"].get("fields") or []
            for n_, o in zip(names, s["rv"]["ops"]):
                ty = next(x["ty"] for x in adt["variants"][0]["fields"] if x["name"] == n_)
                if ty == "f64":
                    ctx.check(const_val(o) in (0, 0.0, "0.0"), rule, "new-zero-rate:%s" % n_, cb.name, "%s:%d" % (cb.file, s.get("line", 0)),
                              "a new estimator starts with %s = 0.0" % n_, "a new estimator starts with a non-zero %s" % n_, cfg)
                elif "Instant" in ty:
                    sl = cb.slice(o, at=i)
                    ctx.check(bool(sl.params()) and not sl.calls, rule, "new-time:%s" % n_, cb.name, "%s:%d" % (cb.file, s.get("line", 0)),
                              "%s starts at the creation instant" % n_, "%s does not start at the instant passed to new()" % n_, cfg)


def rule_reset_triggers(ctx, crate, rule="R-EST-RESET-TRIGGERS"):
    cfg = crate.config
    g = K.callgraph(crate)
    for api in ("progress_bar::ProgressBar::reset_eta", "progress_bar::ProgressBar::reset"):
        b = K.find_one(ctx, crate, rule, api.replace("::", "::"))
        if not b:
            continue
        # every path through BarState::reset reaches Estimator::reset; the API calls BarState::reset
        calls = b.calls(r"state::BarState::reset")
        ctx.check(bool(calls), rule, "api:%s" % K.meth(api), b.name, K.fn_loc(b), "%s calls BarState::reset" % K.meth(api),
                  "%s no longer resets the bar state" % K.meth(api), cfg)
        for c in calls:
            sl = b.slice_args(c, [1])
            ctx.check(sl.has_call(r"std::time::Instant::now"), rule, "api-now:%s" % K.meth(api), b.name, c.loc(),
                      "reset instant is Instant::now()", "reset is given an instant that is not now()", cfg)
    # every reset of the estimator happens "now": a reset at another instant (e.g. a start time moved into the past by
    # with_elapsed) makes the estimator believe in a stall before the first sample
    for cb in K.lib_bodies(crate):
        for c in cb.calls(r"state::BarState::reset"):
            if cb.name in ("progress_bar::ProgressBar::reset_eta", "progress_bar::ProgressBar::reset"):
                continue
            sl = cb.slice_args(c, [1])
            shifted = [x.path for x in sl.calls if x.matches(r"std::time::Instant::(checked_sub|checked_add|sub|add)", r"std::ops::(Sub|Add)::.*")]
            ctx.check(sl.has_call(r"std::time::Instant::now") and not shifted, rule, "reset-at-now:%s" % K.meth(K.owner_fn(crate, cb)), cb.name, c.loc(),
                      "the state is reset at Instant::now()", "BarState::reset is called with an instant that is not now() (%s): the estimator's time anchors are moved" % (shifted[:1] or "no now()"), cfg)
    rb = K.find_one(ctx, crate, rule, r"state::BarState::reset")
    if rb:
        rc = rb.calls(r"state::Estimator::reset")
        rets = [i for i in rb.reachable() if rb.term(i) and rb.term(i)["k"] == "return"]
        ok = bool(rc) and rb.must_pass([0], {c.bb for c in rc})
        ctx.check(ok, rule, "barstate-reset-unconditional", rb.name, K.fn_loc(rb),
                  "BarState::reset resets the estimator for every mode", "BarState::reset can return without resetting the estimator", cfg)
        for c in rc:
            sl = rb.slice_args(c, [1])
            ctx.check(bool(sl.params()) and not sl.calls, rule, "barstate-reset-now", rb.name, c.loc(),
                      "the estimator is reset at the instant given to BarState::reset", "the estimator is reset at a different instant", cfg)
    # backwards seek
    b = K.find_one(ctx, crate, rule, r"state::Estimator::record")
    if not b:
        return
    steps_p = [i for i in range(1, b.arg_count + 1) if b.locals[i]["ty"] == "u64"]
    if len(steps_p) != 1:
        ctx.lost(rule, cfg, "Estimator::record has no unique u64 parameter")
        return
    back_edges = []
    for sb, t in b.switches():
        src = bool_source(b, t["op"])
        if not src or src[0] != "bin" or src[1]["op"] not in ("Lt", "Gt"):
            continue
        a, c = src_place(b, src[1]["a"]), src_place(b, src[1]["b"])
        new = (steps_p[0], "[]")
        isprev = lambda p: p is not None and "prev_steps" in p[1]
        tf = true_false_edges(b, sb, t)
        if not tf:
            continue
        te, fe = tf
        if src[2]:
            te, fe = fe, te
        if src[1]["op"] == "Lt" and a == new and isprev(c) or src[1]["op"] == "Gt" and isprev(a) and c == new:
            back_edges.append(te)
    if not back_edges:
        # the same test spelled with a negation or a named flag (`let back = !(new >= prev); if back {..}`): edges whose
        # implied comparison facts contain new_steps < prev_steps
        from . import c13
        for sb, t in b.switches():
            l = operand_local(t["op"])
            if l is None or b.locals[l]["ty"] != "bool" or t["op"]["place"]["p"]:
                continue
            tf = true_false_edges(b, sb, t)
            if not tf:
                continue
            for e_, fn_ in ((tf[0], c13.true_facts), (tf[1], c13.false_facts)):
                fs = fn_(b, t["op"], sb)
                if fs == c13.ALL:
                    continue
                for f in fs:
                    if f[0] not in ("Lt", "Gt"):
                        continue
                    x, y = (f[1], f[2]) if f[0] == "Lt" else (f[2], f[1])          # x < y
                    if x == ("l", steps_p[0]) and y[0] == "p" and "prev_steps" in y[2] and e_ not in back_edges:
                        back_edges.append(e_)
    ctx.floor(rule, len(back_edges), 1, cfg, "`new_steps < prev_steps` edges in Estimator::record")
    rets = [i for i in b.reachable() if b.term(i) and b.term(i)["k"] == "return"]
    resets = {c.bb for c in b.calls(r"state::Estimator::reset")}
    for k, e in enumerate(back_edges):
        ok = bool(resets) and b.must_pass([e[1]], resets)
        ctx.check(ok, rule, "rewind-resets#%d" % k, b.name, K.fn_loc(b),
                  "a backwards seek resets the estimator", "a backwards seek does not reset the estimator on every path", cfg)
        st = [(i, j, s) for i, j, s, n in est_field_stores(b) if n == "prev_steps" and i in b.reach([e[1]])]
        ok2 = any(b.slice_rv(i, s).params() for i, j, s in st)
        ctx.check(ok2, rule, "rewind-tracks-position#%d" % k, b.name, K.fn_loc(b),
                  "a backwards seek records the new (smaller) step count", "after a backwards seek the stored step count stays ahead of the position", cfg)


def rule_record_guard(ctx, crate, rule="R-EST-RECORD-GUARD"):
    """Every store of a rate (f64 field) in record is dominated by edges implying new_steps > prev_steps and now > prev_time:
    the sample rate is then a positive step count over a positive time (no 0/0, no division by a zero interval)."""
    cfg = crate.config
    b = K.find_one(ctx, crate, rule, r"state::Estimator::record")
    if not b:
        return
    steps_p = [i for i in range(1, b.arg_count + 1) if b.locals[i]["ty"] == "u64"]
    now_p = [i for i in range(1, b.arg_count + 1) if "Instant" in b.locals[i]["ty"]]
    if len(steps_p) != 1 or len(now_p) != 1:
        ctx.lost(rule, cfg, "Estimator::record parameters changed")
        return
    from . import c13 as F      # comparison-fact analysis (dominating edges, named flags, PartialOrd calls)
    TRUE_REL = {"Lt": {"<"}, "Le": {"<", "="}, "Gt": {">"}, "Ge": {">", "="}, "Eq": {"="}, "Ne": {"<", ">"}}
    FLIP = {"<": ">", ">": "<", "=": "="}

    def is_new(r, pp):
        return r == ("l", pp)

    def is_old(r, fld):
        return r is not None and r[0] == "p" and fld in r[-1]

    def advanced(fld, bb):
        pp = steps_p[0] if fld == "prev_steps" else now_p[0]
        poss = {"<", "=", ">"}
        for (op, a, c) in F.edge_facts(b, bb):
            if is_new(a, pp) and is_old(c, fld):
                poss &= TRUE_REL[op]
            elif is_old(a, fld) and is_new(c, pp):
                poss &= {FLIP[x] for x in TRUE_REL[op]}
        return poss == {">"}
    adv_steps = adv_time = None
    adt = crate.adts.get(EST)
    f64_fields = {f["name"] for f in adt["variants"][0]["fields"] if f["ty"] == "f64"} if adt else set()
    n = 0
    rate_bbs = set()
    for i, j, s, name in est_field_stores(b):
        if name not in f64_fields:
            continue
        n += 1
        rate_bbs.add(i)
        ok_s = advanced("prev_steps", i)
        ok_t = advanced("prev_time", i)
        ctx.check(ok_s and ok_t, rule, "rate-store-guarded:%s" % name, b.name, "%s:%d" % (b.file, s.get("line", 0)),
                  "the store of %s happens only when steps and time strictly advanced" % name,
                  "%s can be updated from a sample with %s" % (name, "no time elapsed (division by a zero interval)" if not ok_t else "no forward progress"), cfg)
    ctx.floor(rule, n, 2, cfg, "rate stores in Estimator::record")
    # and an accepted sample advances the reference point: after a rate store, prev_time / prev_steps are stored from the
    # parameters on every path to the return (or were, before it, on every path from the guard)
    for fld, pp in (("prev_time", now_p[0]), ("prev_steps", steps_p[0])):
        st = {i for i, j, s, nme in est_field_stores(b) if nme == fld and pp in b.slice_rv(i, s).params()}
        ok = bool(st) and all(b.must_pass([r], st) or any(b.dominates(x, r) and r in b.reach([x]) for x in st) for r in rate_bbs)
        ctx.check(ok, rule, "advances:%s" % fld, b.name, K.fn_loc(b), "an accepted sample moves %s to the sample" % fld,
                  "an accepted sample does not move %s (the same interval would be counted again)" % fld, cfg)


def weight_calls(crate, b):
    return b.calls(r"state::estimator_weight")


def time_delta_kind(crate, b, c, now_p):
    """Which Instant difference feeds the weight call c: set of estimator field names subtracted from `now`; plus offending atoms."""
    sl = b.slice_args(c, [0])
    subs = [x for x in sl.calls if x.matches(r"std::ops::Sub::sub", r"std::time::Instant::(duration_since|saturating_duration_since|checked_duration_since)")
            and (x.callee.get("targs") or [""])[0].endswith("Instant") or x.matches(r"std::time::Instant::(duration_since|saturating_duration_since)")]
    kinds = set()
    for x in subs:
        s0 = b.slice_args(x, [0], through_calls=False)
        s1 = b.slice_args(x, [1], through_calls=False)
        if now_p in s0.params():
            for f in ("prev_time", "start_time"):
                if s1.has_field(f, EST):
                    kinds.add(f)
    bad = [a for a in sl.atoms if a[0] == "field" and a[1] == EST and a[2] not in ("prev_time", "start_time")]
    bad += [a for a in sl.atoms if a[0] == "cast" and a[1] in ("f64", "f32") and False]
    return kinds, bad, subs


def rule_time_weighted(ctx, crate, rule="R-EST-TIME-WEIGHTED"):
    cfg = crate.config
    n = 0
    for fn in (r"state::Estimator::record", r"state::Estimator::steps_per_second"):
        b = K.find_one(ctx, crate, rule, fn)
        if not b:
            continue
        now_p = [i for i in range(1, b.arg_count + 1) if "Instant" in b.locals[i]["ty"]]
        if len(now_p) != 1:
            ctx.lost(rule, cfg, "%s has no unique Instant parameter" % b.name)
            continue
        wc = weight_calls(crate, b)
        kinds_all = {}
        for k, c in enumerate(wc):
            n += 1
            kinds, bad, subs = time_delta_kind(crate, b, c, now_p[0])
            kinds_all[c.bb] = kinds
            ctx.check(len(kinds) == 1 and not bad, rule, "weight-of-time#%d" % k, b.name, c.loc(),
                      "the weight is a function of now - %s only" % "/".join(sorted(kinds)),
                      "a smoothing weight does not derive from exactly one Instant difference now - prev_time|start_time (got %s, other inputs %s)" % (sorted(kinds), bad[:2]), cfg)
        decay = [bb for bb, ks in kinds_all.items() if ks == {"prev_time"}]
        norm = [bb for bb, ks in kinds_all.items() if ks == {"start_time"}]
        ctx.check(bool(decay), rule, "has-decay-weight", b.name, K.fn_loc(b), "a weight over the time since the previous sample exists",
                  "no weight over now - prev_time: old data is not down-weighted by its age", cfg)
        ctx.check(bool(norm), rule, "has-normalisation-weight", b.name, K.fn_loc(b), "a weight over the time since the start exists",
                  "no weight over now - start_time: the average cannot be normalised", cfg)
        # sinks
        if "steps_per_second" in b.name:
            for kk, d in enumerate(ret_defs(b)):
                sl = def_slice(b, d)
                cb = {c.bb for c in sl.calls if c.matches(r"state::estimator_weight")}
                ctx.check(bool(cb & set(decay)) and bool(cb & set(norm)), rule, "rate-uses-both-weights#%d" % kk, b.name, dloc(b, d),
                          "the reported rate is re-weighted for the stall since the last sample and normalised by the total weight",
                          "the reported rate ignores %s" % ("the stall since the last sample (it would never decay)" if not (cb & set(decay)) else "the normalisation by total weight"), cfg)
                ok_div = rate_divided_by_norm(b, d, norm)
                ctx.check(ok_div, rule, "rate-normalised#%d" % kk, b.name, dloc(b, d),
                          "the reported rate is a quotient whose divisor derives from the start_time weight",
                          "the reported rate is not divided by the total weight", cfg)
                ok_f = sl.has_field("double_smoothed_steps_per_sec", EST) and sl.has_field("smoothed_steps_per_sec", EST)
                ctx.check(ok_f, rule, "rate-reads-both-levels#%d" % kk, b.name, dloc(b, d),
                          "the reported rate reads both smoothing levels", "the reported rate does not read both stored smoothing levels", cfg)
            ctx.check(not est_field_stores(b), rule, "query-is-pure", b.name, K.fn_loc(b), "steps_per_second stores nothing",
                      "steps_per_second modifies the estimator", cfg)
        else:
            adt = crate.adts.get(EST)
            for i, j, s, name in est_field_stores(b):
                if name == "double_smoothed_steps_per_sec":
                    sl = b.slice_rv(i, s)
                    cb = {c.bb for c in sl.calls if c.matches(r"state::estimator_weight")}
                    ctx.check(bool(cb & set(decay)) and bool(cb & set(norm)) and sl.has_field("smoothed_steps_per_sec", EST), rule,
                              "second-level-from-normalised-first", b.name, "%s:%d" % (b.file, s.get("line", 0)),
                              "the second smoothing level is fed from the first level normalised by the total weight",
                              "the second smoothing level is not fed from the normalised first level", cfg)
                if name == "smoothed_steps_per_sec":
                    sl = b.slice_rv(i, s)
                    cb = {c.bb for c in sl.calls if c.matches(r"state::estimator_weight")}
                    ok = bool(cb & set(decay)) and sl.has_field("smoothed_steps_per_sec", EST) and sl.has_field("prev_steps", EST) and bool(sl.params())
                    ctx.check(ok, rule, "first-level-update", b.name, "%s:%d" % (b.file, s.get("line", 0)),
                              "the first level combines its old value and the sample rate with the age weight",
                              "the first smoothing level is not updated from (old value, sample rate, age weight)", cfg)
    ctx.floor(rule, n, 4, cfg, "estimator_weight call sites")
    # both normalisations divide by exactly `1 - weight(now - start_time)`: no clamp, floor or cap on the divisor (a floor on the
    # total weight under-reports the rate by that factor while the true weight is below it - right after creation or a reset - and
    # makes the update and the query disagree)
    nd = 0
    for fn in (r"state::Estimator::record", r"state::Estimator::steps_per_second"):
        b = crate.body(fn.replace("\\", "")) or (crate.find(fn) or [None])[0]
        if not b:
            continue
        for i, j, s_ in b.assigns():
            rv = s_["rv"]
            if rv["k"] != "bin" or rv["op"] != "Div" or b.locals[s_["lhs"]["l"]]["ty"] != "f64":
                continue
            dsl = b.slice(rv["b"], at=i)
            if not dsl.has_call(r"state::estimator_weight"):
                continue
            nd += 1
            clamps = dsl.calls_matching(r"(std|core)::f64::<impl f64>::(max|min|clamp|abs|maximum|minimum)", r"std::cmp::(max|min)", r"std::cmp::Ord::(max|min|clamp)")
            ctx.check(not clamps, rule, "normalisation-unclamped:%s" % K.meth(b.name), b.name, "%s:%d" % (b.file, s_.get("line", 0)),
                      "the rate is divided by the total weight itself",
                      "the total weight the rate is divided by is clamped (%s): while the true weight is smaller - shortly after creation, reset_eta or a rewind - the rate is "
                      "under-reported by that factor (and eta over-reported)" % [K.meth(c.path) for c in clamps][:2], cfg)
    ctx.floor(rule, nd, 2, cfg, "divisions by the total weight")
    wb = K.find_one(ctx, crate, rule, r"state::estimator_weight")
    if wb:
        pw = wb.calls(r"std::f64::<impl f64>::(powf|exp|exp2)", r"core::f64::<impl f64>::(powf|exp|exp2)", r".*::powf", r".*::exp")
        ctx.check(bool(pw) and all(1 in wb.slice_args(c).params() for c in pw), rule, "weight-is-exponential", wb.name, K.fn_loc(wb),
                  "the weight is an exponential of the age", "the weight is not an exponential function of the age", cfg)


def rate_divided_by_norm(b, d, norm_bbs):
    """The value of def d is (a copy of) a Div whose divisor slices to a start_time weight."""
    seen = set()
    work = [d]
    while work:
        d = work.pop()
        if d["kind"] != "assign":
            continue
        rv = d["rv"]
        if rv["k"] == "use":
            l = operand_local(rv["op"])
            for d2 in b.defs().get(l, ()) if l is not None else ():
                if id(d2) not in seen and b.def_reaches(d2, d["bb"]):
                    seen.add(id(d2))
                    work.append(d2)
        elif rv["k"] == "bin" and rv["op"] == "Div":
            sl = b.slice(rv["b"], at=d["bb"])
            if any(c.bb in norm_bbs for c in sl.calls):
                return True
    return False


def rule_sampled_every_update(ctx, crate, rule="R-EST-SAMPLED-EVERY-UPDATE"):
    """"For steady progress the reported rate equals the true rate no matter how often or how irregularly updates arrive": the
    estimator is fed on *every* pass through the shared update path - the `record` call is not control-dependent on anything
    (the draw target being hidden, the limiter, the status): per_sec()/eta()/duration() are public getters and read the
    estimator whether or not anything is painted (seed C09k: no samples for hidden bars). The sampled value is the position atomic."""
    cfg = crate.config
    n = 0
    for b in K.lib_bodies(crate):
        if b.name.startswith("state::Estimator::"):
            continue
        for c in b.calls(r"state::Estimator::record"):
            n += 1
            rets = b.return_blocks()
            ok = bool(rets) and all(b.dominates(c.bb, r) for r in rets)
            ctx.check(ok, rule, "unconditional:%s" % K.meth(K.owner_fn(crate, b)), b.name, c.loc(),
                      "every pass through %s records a sample" % K.meth(b.name),
                      "%s can return without recording a sample: the estimator is fed only under a condition (a hidden target, a refused draw, ..), so the rate read "
                      "through per_sec()/eta()/duration() is 0 or stale although the bar progresses steadily" % K.meth(b.name), cfg)
            sl = b.slice_args(c, [1])
            ctx.check(sl.has_call(r"portable_atomic::AtomicU64::load") or sl.has_call(r"state::ProgressState::pos"), rule, "samples-position:%s" % K.meth(K.owner_fn(crate, b)), b.name, c.loc(),
                      "the sample is the current position", "the recorded sample is not the shared position", cfg)
    ctx.floor(rule, n, 1, cfg, "callers of Estimator::record")


def run(ctx, crate):
    adt = crate.adts.get(EST)
    EST_FIELDS[:] = [f["name"] for f in adt["variants"][0]["fields"]] if adt else []
    K.rule_no_unsafe(ctx, crate)
    rule_eta_zero_cases(ctx, crate)
    rule_duration_sum(ctx, crate)
    rule_per_sec(ctx, crate)
    rule_est_writers(ctx, crate)
    rule_est_reset_total(ctx, crate)
    rule_reset_triggers(ctx, crate)
    rule_record_guard(ctx, crate)
    rule_sampled_every_update(ctx, crate)
    # .. and every public way of changing the position reaches that path unless the steady ticker's thread does the ticking:
    # tick()/inc()/dec()/set_position() through tick_inner, update() through its tick flag (inverted in seed C09l)
    from .c08 import rule_manual_tick_gated
    rule_manual_tick_gated(ctx, crate)
    rule_time_weighted(ctx, crate)
    Lg.run_ledger(ctx, crate, "C09", "R-EST-TOTAL", ENTRIES, floor_edges=1)
