"""C11 — placeholder values reflect the bar state at draw time (dispatch-table agreement)."""
import json
import os
import re

from .. import common as K
from .. import extract
from ..facts import Call, operand_local, place_fields, is_const, const_val

EXPLANATION = ("Decides dispatch agreement: the set of keys documented in src/lib.rs equals the set of arms of format_state's key "
               "dispatch; each arm formats exactly the expected accessor with exactly the expected formatter (pos/len locals are "
               "identified by their defining calls: ProgressState::pos() and len().unwrap_or(pos)); percent uses fraction()*100 at "
               "precision 0/3; spinner shows the final tick string iff finished; custom trackers are consulted before built-ins, "
               "written with the live state, ticked before every draw and reset on Reset::All; the renderer reads the live state.")
UNDECIDED = "That formatter output equals the formatted getter value (C15's domain), and the coincidence of two Instant::now() reads."

FMT = "format::"
ACCESSORS = ("elapsed", "per_sec", "eta", "duration", "fraction")

# key -> expected token set
T = {
    "pos": {"fmt:u64", "src:pos"},
    "human_pos": {"wrap:HumanCount", "src:pos"},
    "len": {"fmt:u64", "src:len"},
    "human_len": {"wrap:HumanCount", "src:len"},
    "bytes": {"wrap:HumanBytes", "src:pos"},
    "total_bytes": {"wrap:HumanBytes", "src:len"},
    "decimal_bytes": {"wrap:DecimalBytes", "src:pos"},
    "decimal_total_bytes": {"wrap:DecimalBytes", "src:len"},
    "binary_bytes": {"wrap:BinaryBytes", "src:pos"},
    "binary_total_bytes": {"wrap:BinaryBytes", "src:len"},
    "elapsed_precise": {"wrap:FormattedDuration", "call:elapsed"},
    "elapsed": {"wrap:HumanDuration", "call:elapsed"},
    "per_sec": {"wrap:HumanFloatCount", "call:per_sec"},
    "bytes_per_sec": {"wrap:HumanBytes", "call:per_sec"},
    "decimal_bytes_per_sec": {"wrap:DecimalBytes", "call:per_sec"},
    "binary_bytes_per_sec": {"wrap:BinaryBytes", "call:per_sec"},
    "eta_precise": {"wrap:FormattedDuration", "call:eta"},
    "eta": {"wrap:HumanDuration", "call:eta"},
    "duration_precise": {"wrap:FormattedDuration", "call:duration"},
    "duration": {"wrap:HumanDuration", "call:duration"},
    "percent": {"fmt:f32", "call:fraction", "x100", "prec:0"},
    "percent_precise": {"fmt:f32", "call:fraction", "x100", "prec:3"},
    "msg": {"expanded:message"},
    "prefix": {"expanded:prefix"},
    "spinner": {"call:current_tick_str"},
    "bar": {"call:format_bar", "call:fraction", "fmt:BarDisplay"},
    "wide_bar": {"wide:Bar"},
    "wide_msg": {"wide:Message"},
}


def documented_keys():
    p = os.path.join(extract.repo_root(), "src", "lib.rs")
    keys = []
    try:
        with open(p) as fh:
            on = False
            for line in fh:
                if "The following keys exist" in line:
                    on = True
                    continue
                if on:
                    m = re.match(r"//! \* `(\w+)`", line)
                    if m:
                        keys.append(m.group(1))
                    elif line.startswith("//! If the list above") or (line.startswith("//!") and line.strip() == "//!" and keys and False):
                        break
                    elif not line.startswith("//!"):
                        break
    except OSError:
        pass
    return keys


def key_arms(b):
    arms = {}
    for c in b.calls(r"std::cmp::PartialEq::eq"):
        key = None
        for a in c.args:
            v = const_val(a)
            if isinstance(v, str):
                key = v
        if key is None or c.target is None:
            continue
        sw = K.switch_on_local(b, c.target)
        if not sw or sw[0] != c.dest["l"]:
            continue
        t = sw[1]
        arms[key] = (c, b.edge_region((c.target, t["otherwise"])))
    return arms


def short_targ(t):
    t = t.replace("&", "").strip()
    t = re.sub(r"<.*$", "", t)
    return t.rsplit("::", 1)[-1]


def fmt_template_precisions(hexs):
    """Literal precisions (`{:.3}`) of the placeholders of a compiled `format_args!` template (the byte string handed to
    fmt::Arguments::new by this toolchain): 0 ends it, n < 0x80 is a literal piece of n bytes, 0xC0|opts is a placeholder whose
    option bits say which fields follow - 0x01 flags (u32), 0x02 width (u16), 0x04 precision (u16), 0x08 argument index (u16);
    0x10 / 0x20 mark width / precision as argument indices. Bit 28 of the flags word says "a precision is given": with no
    precision field that is the literal 0. Unknown bytes end the decoding (nothing is claimed then)."""
    try:
        bs = bytes.fromhex(hexs)
    except ValueError:
        return []
    out, i = [], 0
    while i < len(bs):
        x = bs[i]
        i += 1
        if x == 0:
            break
        if x < 0x80:
            i += x
            continue
        if x < 0xC0:
            return out
        opts = x & 0x3F
        flags = None
        if opts & 0x01:
            flags = int.from_bytes(bs[i:i + 4], "little")
            i += 4
        if opts & 0x02:
            i += 2
        prec = None
        if opts & 0x04:
            prec = int.from_bytes(bs[i:i + 2], "little")
            i += 2
        if opts & 0x08:
            i += 2
        if opts & 0x20:
            continue                      # the precision is an argument (`{:.*}` / `{:.p$}`): reported through that argument
        if prec is not None:
            out.append(prec)
        elif flags is not None and flags & 0x10000000:
            out.append(0)
    return out


def arm_tokens(crate, b, reg, pos_l, len_l):
    toks = set()
    reads = set()
    for bb in reg:
        for s in b.stmts(bb):
            if s["k"] != "assign":
                continue
            rv = s["rv"]
            ops = [rv.get("op") if isinstance(rv.get("op"), dict) else None, rv.get("a"), rv.get("b")] + list(rv.get("ops", []))
            for o in ops:
                l = operand_local(o)
                if l is not None:
                    reads.add(l)
                if isinstance(o, dict) and o.get("k") == "const":
                    if o.get("float") and o.get("v") in ("100.0", "100"):
                        toks.add("x100")
                    if "ref_v" in o:
                        toks.add("prec:%d" % o["ref_v"])
                    if o.get("ref_hex") and "[u8" in o.get("ty", ""):
                        for pr in fmt_template_precisions(o["ref_hex"]):
                            toks.add("prec:%d" % pr)
            if rv.get("place"):
                reads.add(rv["place"]["l"])
            if rv["k"] == "agg" and rv["ak"] == "adt":
                if rv["adt"].startswith(FMT):
                    toks.add("wrap:" + rv["adt"].rsplit("::", 1)[-1])
                if rv["adt"] == "style::WideElement":
                    toks.add("wide:" + rv["variant"])
        t = b.term(bb)
        if t and t["k"] == "call":
            c = Call(b, bb, t)
            for a in c.args:
                l = operand_local(a)
                if l is not None:
                    reads.add(l)
            if c.matches(r"core::fmt::rt::Argument::<'_>::new_\w+"):
                ta = c.callee.get("targs", [])
                if ta:
                    st = short_targ(ta[0])
                    if not st.startswith("Human") and st not in ("FormattedDuration", "DecimalBytes", "BinaryBytes", "StyledObject", "PaddedStringDisplay", "String", "str"):
                        toks.add("fmt:" + st)
            m = K.meth(c.path)
            if c.matches(r"(std|core)::f(32|64)::<impl f(32|64)>::(round|ceil|floor|trunc|round_ties_even)"):
                toks.add("fround:" + m)        # a rounding step between the getter and the formatter changes the value shown
            if c.path.startswith("state::ProgressState::") and m in ACCESSORS:
                toks.add("call:" + m)
            if c.path.startswith("state::ProgressState::") and m in ("pos", "len"):
                toks.add("call:" + m)
            if c.matches(r"style::ProgressStyle::(current_tick_str|format_bar|get_tick_str|get_final_tick_str)"):
                toks.add("call:" + m)
            if c.matches(r"state::TabExpandedString::expanded"):
                sl = b.slice_args(c, [0], through_calls=False)
                for f in ("message", "prefix"):
                    if sl.has_field(f, "state::ProgressState"):
                        toks.add("expanded:" + f)
    if pos_l in reads:
        toks.add("src:pos")
    if len_l in reads:
        toks.add("src:len")
    return toks


def run(ctx, crate):
    cfg = crate.config
    K.rule_no_unsafe(ctx, crate)
    rule_key_table(ctx, crate)
    rule_tick_str(ctx, crate)
    rule_tracker_lifecycle(ctx, crate)
    rule_arm_buffer_fresh(ctx, crate)
    rule_marker_out_of_band(ctx, crate)
    rule_frame_one_sample(ctx, crate)
    from .c05 import rule_paint_reads_live_state
    rule_paint_reads_live_state(ctx, crate)


def rule_key_table(ctx, crate, rule="R-KEY-TABLE"):
    cfg = crate.config
    b = K.find_one(ctx, crate, rule, r"style::ProgressStyle::format_state")
    if not b:
        return
    pos_calls = b.calls(r"state::ProgressState::pos")
    uo = [c for c in b.calls(r"std::option::Option::<T>::(unwrap_or|map_or|map_or_else|unwrap_or_else)") if b.slice_args(c, [0], through_calls=False).has_call(r"state::ProgressState::len")]
    if len(pos_calls) == 1 and not uo:
        # the explicit form: `let len = match state.len() { Some(len) => len, None => pos }`
        alt = _len_by_match(b, pos_calls[0].dest["l"])
        if alt:
            len_c, len_loc, why_some, why_none = alt
            pos_l, len_l = pos_calls[0].dest["l"], len_loc
            ctx.check(why_none is None, rule, "len-defaults-to-pos", b.name, len_c.loc(), "len = match state.len() { Some(l) => l, None => pos }",
                      "a missing length does not render as the position: %s" % why_none, cfg)
            for c, what in ((pos_calls[0], "position"), (len_c, "length default")):
                ctx.check(not b.in_loop(c.bb), rule, "sampled-once-per-frame:%s" % what.split()[0], b.name, c.loc(),
                          "the %s is read once per frame, before the loop over the template parts" % what,
                          "the %s is re-read for every placeholder: an update between two placeholders makes one frame show two different positions" % what, cfg)
            ctx.check(why_some is None, rule, "len-is-the-length", b.name, len_c.loc(), "a known length is rendered unmodified",
                      "the length used by the len/total keys is not ProgressBar::length(): %s" % why_some, cfg)
            for c in pos_calls + [x for x in b.calls(r"state::ProgressState::len")]:
                ctx.check(b.slice_args(c, [0]).params() == {2}, rule, "reads-live-state:%s" % K.meth(c.path), b.name, c.loc(),
                          "%s() is read from the state being drawn" % K.meth(c.path), "%s() is read from another state" % K.meth(c.path), cfg)
            _key_arms_part(ctx, crate, rule, b, pos_l, len_l)
            return
    if len(pos_calls) != 1 or len(uo) != 1:
        ctx.lost(rule, cfg, "cannot identify the pos / len locals of format_state (pos() calls: %d, len() defaulting calls: %d)" % (len(pos_calls), len(uo)))
        return
    pos_l, len_l = pos_calls[0].dest["l"], uo[0].dest["l"]
    # a missing length renders as the position
    sl = b.slice_args(uo[0], [1], through_calls=False)
    ctx.check(any(c.bb == pos_calls[0].bb for c in sl.calls), rule, "len-defaults-to-pos", b.name, uo[0].loc(),
              "len = state.len().unwrap_or(pos)", "a missing length does not render as the position", cfg)
    # ... the same position for every placeholder of the frame: pos is sampled once per draw, not once per template part
    # (otherwise `{pos}/{len}` of a bar without a length can show two different numbers in one line)
    for c, what in ((pos_calls[0], "position"), (uo[0], "length default")):
        ctx.check(not b.in_loop(c.bb), rule, "sampled-once-per-frame:%s" % what.split()[0], b.name, c.loc(),
                  "the %s is read once per frame, before the loop over the template parts" % what,
                  "the %s is re-read for every placeholder: an update between two placeholders makes one frame show two different positions (and `{len}` of an unknown length differ from `{pos}`)" % what, cfg)
    # ... and a known length renders as itself: "equal the getters"
    ident = True
    why = ""
    if K.meth(uo[0].path) in ("map_or", "map_or_else"):
        ident = False
        why = "the closure applied to a known length is not the identity"
        l2 = operand_local(uo[0].args[-1])
        for d in b.defs().get(l2, ()) if l2 is not None else ():
            if d["kind"] == "assign" and d["rv"]["k"] == "agg" and d["rv"].get("ak") == "closure" and d["rv"]["def"] in crate.bodies:
                cb = crate.bodies[d["rv"]["def"]]
                rs = [cb.slice_rv(x["bb"], {"lhs": x["lhs"], "rv": x["rv"]}) if x["kind"] == "assign" else cb.slice_args(x["call"]) for x in cb.defs().get(0, ()) if x["kind"] in ("assign", "call")]
                ident = bool(rs) and all(r.params() == {2} and not r.calls and not [a for a in r.atoms if a[0] in ("binop", "unop", "field")] for r in rs)
    ctx.check(ident, rule, "len-is-the-length", b.name, uo[0].loc(), "a known length is rendered unmodified",
              "the length used by the len/total keys is not ProgressBar::length(): %s" % why, cfg)
    for c in pos_calls + [x for x in b.calls(r"state::ProgressState::len")]:
        ctx.check(b.slice_args(c, [0]).params() == {2}, rule, "reads-live-state:%s" % K.meth(c.path), b.name, c.loc(),
                  "%s() is read from the state being drawn" % K.meth(c.path), "%s() is read from another state" % K.meth(c.path), cfg)
    _key_arms_part(ctx, crate, rule, b, pos_l, len_l)


def _len_by_match(b, pos_l):
    """`match state.len() { Some(l) => l, None => pos }`: (the len() call, the local holding the result, problem with the
    Some arm | None, problem with the None arm | None), or None when the shape is not there."""
    for c in b.calls(r"state::ProgressState::len"):
        L = c.dest["l"]
        if c.dest["p"]:
            continue
        for l, ds in b.defs().items():
            ds = [d for d in ds if d["kind"] == "assign" and not d["lhs"]["p"]]
            if len(ds) != 2 or b.locals[l]["ty"] != "u64":
                continue
            some = [d for d in ds if d["rv"]["k"] == "use" and d["rv"]["op"].get("k") in ("copy", "move") and d["rv"]["op"]["place"]["l"] == L
                    and [e for e in d["rv"]["op"]["place"]["p"] if isinstance(e, dict) and "f" in e]]
            # the payload may first be bound to a pattern local
            if not some:
                for d in ds:
                    ol = operand_local(d["rv"]["op"]) if d["rv"]["k"] == "use" else None
                    dd = [x for x in b.defs().get(ol, ()) if x["kind"] == "assign"] if ol is not None and not d["rv"]["op"]["place"]["p"] else []
                    if len(dd) == 1 and dd[0]["rv"]["k"] == "use" and dd[0]["rv"]["op"].get("k") in ("copy", "move") and dd[0]["rv"]["op"]["place"]["l"] == L \
                            and [e for e in dd[0]["rv"]["op"]["place"]["p"] if isinstance(e, dict) and "f" in e]:
                        some = [d]
            if not some:
                # the Some arm computes something from the payload (`state.len().map_or(pos, |len| len.max(pos))`, inlined): the one
                # definition that depends on the looked-up length
                dep = [d for d in ds if L in b.slice_rv(d["bb"], {"lhs": d["lhs"], "rv": d["rv"]}).locals]
                if len(dep) == 1:
                    some = dep
            none = [d for d in ds if d not in some]
            if len(some) != 1 or len(none) != 1:
                continue
            nd = none[0]
            why_none = None
            sl = b.slice_rv(nd["bb"], {"lhs": nd["lhs"], "rv": nd["rv"]}, through_calls=False)
            if pos_l not in sl.locals or [a for a in sl.atoms if a[0] in ("binop", "unop")] or [k for k in sl.calls if k.dest["l"] != pos_l]:
                why_none = "the None arm does not yield the sampled position unchanged"
            sd = some[0]
            ssl = b.slice_rv(sd["bb"], {"lhs": sd["lhs"], "rv": sd["rv"]}, through_calls=False)
            why_some = None
            ssl_deep = b.slice_rv(sd["bb"], {"lhs": sd["lhs"], "rv": sd["rv"]})
            if [a for a in ssl.atoms if a[0] in ("binop", "unop")] or [k for k in ssl.calls if k.dest["l"] != L] or \
                    [k for k in ssl_deep.calls if k.dest["l"] != L and not k.matches(r"state::ProgressState::len", r"std::ops::Deref::deref")]:
                why_some = "the Some arm modifies the length"
            return c, l, why_some, why_none
    return None


def _key_arms_part(ctx, crate, rule, b, pos_l, len_l):
    cfg = crate.config
    arms = key_arms(b)
    docs = documented_keys()
    ctx.floor(rule, len(arms), 28, cfg, "key arms in format_state")
    ctx.floor(rule, len(docs), 28, cfg, "keys documented in src/lib.rs")
    for k in sorted(set(docs) - set(arms)):
        ctx.bad(rule, "documented-without-arm:%s" % k, b.name, K.fn_loc(b), "documented key `%s` has no arm in format_state (renders as nothing)" % k, cfg)
    for k in sorted(set(arms) - set(docs)):
        ctx.bad(rule, "arm-undocumented:%s" % k, b.name, arms[k][0].loc(), "key `%s` is handled but not documented" % k, cfg)
    for k in sorted(set(T) - set(arms)):
        if k not in docs:
            ctx.bad(rule, "table-key-missing:%s" % k, b.name, K.fn_loc(b), "key `%s` of the rule table has no arm" % k, cfg)
    for k, (c, reg) in sorted(arms.items()):
        want = T.get(k)
        if want is None:
            ctx.bad(rule, "no-table-row:%s" % k, b.name, c.loc(), "key `%s` has no row in the rule table (its rendering is unchecked)" % k, cfg)
            continue
        have = arm_tokens(crate, b, reg, pos_l, len_l)
        # tokens of interest only
        have_i = {t for t in have if t.split(":")[0] in ("wrap", "src", "call", "expanded", "wide", "fmt", "prec", "fround") or t == "x100"}
        if "fmt:u64" not in want:
            have_i.discard("fmt:u64")
        if not any(t.startswith("prec:") for t in want):
            have_i = {t for t in have_i if not t.startswith("prec:")}
        if k == "per_sec":
            have_i = {t for t in have_i if not t.startswith("prec:")}
        ctx.check(have_i == want, rule, "arm:%s" % k, b.name, c.loc(), "`%s` renders %s" % (k, sorted(want)),
                  "`%s` renders %s, expected %s" % (k, sorted(have_i), sorted(want)), cfg)
    # all arms write into the per-placeholder buffer that is then padded/pushed: the arm result is not dropped
    # (structural: each arm region contains a write into the shared buffer local)


def rule_tick_str(ctx, crate, rule="R-TICK-STR"):
    cfg = crate.config
    b = K.find_one(ctx, crate, rule, r"style::ProgressStyle::current_tick_str")
    if not b:
        return
    fin = b.calls(r"style::ProgressStyle::get_final_tick_str")
    run_ = b.calls(r"style::ProgressStyle::get_tick_str")
    edges_true, edges_false = [], []
    for sb, t in b.switches():
        sl = b.slice(t["op"], at=sb)
        if sl.has_call(r"state::ProgressState::is_finished"):
            z = [tb for v, tb in t["targets"] if v == 0]
            neg = ("unop", "Not") in sl.atoms
            te, fe = (sb, t["otherwise"]), (sb, z[0]) if z else None
            if neg:
                te, fe = fe, te
            edges_true.append(te)
            edges_false.append(fe)
    ok = bool(fin) and bool(run_) and all(any(e and b.edge_dominates(e, c.bb) for e in edges_true) for c in fin) and \
        all(any(e and b.edge_dominates(e, c.bb) for e in edges_false) for c in run_)
    ctx.check(ok, rule, "final-iff-finished", b.name, K.fn_loc(b), "final tick string iff is_finished(), running tick string otherwise",
              "the spinner does not show the final tick string exactly when the bar is finished", cfg)
    for c in run_:
        sl = b.slice_args(c, [1])
        ctx.check(sl.has_field("tick", "state::ProgressState"), rule, "tick-index", b.name, c.loc(), "the running tick string is indexed by state.tick",
                  "the running tick string is not indexed by the bar's tick counter", cfg)
    # "the final tick string once finished" - and only then: the running cycle is over all tick strings but the last
    # (`tick % (len - 1)`), the final one is the last (`len - 1`)
    from .. import affine as A_

    def len_minus_one(bd, op, at):
        f = A_.linform(bd, op, at)
        atoms = {k: v for k, v in f.items() if k != 1}
        return f.get(1) == -1 and len(atoms) == 1 and all(v == 1 and isinstance(k, tuple) and k[0] == "call" and k[1].endswith("::len") for k, v in atoms.items())
    g = K.find_one(ctx, crate, rule, r"style::ProgressStyle::get_tick_str")
    if g:
        rems = [(i, s) for i, j, s in g.assigns() if s["rv"]["k"] == "bin" and s["rv"]["op"] == "Rem"]
        ok = bool(rems) and all(len_minus_one(g, s["rv"]["b"], i) for i, s in rems)
        ctx.check(ok, rule, "running-cycle-excludes-final", g.name, K.fn_loc(g),
                  "the running tick string is tick_strings[tick % (len - 1)]: the last string is reserved for the finished state",
                  "the running spinner cycles through all tick strings including the last one (modulus is not len - 1): an unfinished bar shows the final tick "
                  "string every len-th tick (the default spinner goes blank at tick 29, 59, ..) and the animation is phase-shifted afterwards", cfg)
    gf = K.find_one(ctx, crate, rule, r"style::ProgressStyle::get_final_tick_str")
    if gf:
        idx = [c for c in gf.calls(r"std::ops::Index::index", r"<std::vec::Vec<T, A> as std::ops::Index<I>>::index", r"core::slice::index::.*index")]
        ok = bool(idx) and all(len(c.args) > 1 and len_minus_one(gf, c.args[1], c.bb) for c in idx)
        ctx.check(ok, rule, "final-is-last", gf.name, K.fn_loc(gf), "the final tick string is tick_strings[len - 1]",
                  "the final tick string is not the last of the tick strings", cfg)
    bs = K.find_one(ctx, crate, rule, r"state::BarState::tick")
    if bs:
        st = [(i, s) for i, j, s in bs.assigns() if [f[2] for f in place_fields(s["lhs"])][-1:] == ["tick"]]
        ok = bool(st) and all(bs.slice_rv(i, s).has_call(r"core::num::<impl u64>::saturating_add") and bs.slice_rv(i, s).has_field("tick") for i, s in st)
        ctx.check(ok, rule, "tick-advances", bs.name, K.fn_loc(bs), "tick() advances state.tick by saturating_add", "tick() does not advance the tick counter", cfg)


def rule_tracker_lifecycle(ctx, crate, rule="R-TRACKER-LIFECYCLE"):
    cfg = crate.config
    b = K.find_one(ctx, crate, rule, r"style::ProgressStyle::format_state")
    if b:
        gets = [c for c in b.calls(r"std::collections::HashMap::<K, V, S, A>::get") if b.slice_args(c, [0], through_calls=False).has_field("format_map")]
        writes = [c for c in b.calls() if c.callee.get("trait") == "style::ProgressTracker" and K.meth(c.generic) == "write"]
        arms = key_arms(b)
        ok = bool(gets) and bool(writes)
        # the tested Option is the lookup's own result (no filter/and_then in between)
        get_dests = {c.dest["l"] for c in gets}
        tested = [pl["l"] for vs, reg, sb, pl in K.variant_regions(b, crate, "std::option::Option")
                  if b.slice(pl, at=sb).has_call(r"std::collections::HashMap::<K, V, S, A>::get")]
        ok = ok and bool(tested) and all(l in get_dests for l in tested)
        for w in writes:
            # hit region of the lookup
            hit = any(vs == {"Some"} and w.bb in reg and b.slice(pl, at=sb).has_call(r"std::collections::HashMap::<K, V, S, A>::get")
                      for vs, reg, sb, pl in K.variant_regions(b, crate, "std::option::Option"))
            ok = ok and hit and b.slice_args(w, [1]).params() == {2}
        # built-in dispatch only on the miss edge
        for k, (c, reg) in arms.items():
            miss = any(vs == {"None"} and c.bb in reg and b.slice(pl, at=sb).has_call(r"std::collections::HashMap::<K, V, S, A>::get")
                       for vs, reg, sb, pl in K.variant_regions(b, crate, "std::option::Option"))
            ok = ok and miss
        ctx.check(ok, rule, "custom-before-builtin", b.name, K.fn_loc(b), "custom keys are looked up first, written with the live state; built-ins only on a miss",
                  "custom keys are not consulted before the built-in keys / not written with the state being drawn", cfg)
    for fn, meth, cond in ((r"state::BarState::update_estimate_and_draw", "tick", None), (r"state::BarState::reset", "reset", "All")):
        x = K.find_one(ctx, crate, rule, fn)
        if not x:
            continue
        cs = [c for c in x.calls() if c.callee.get("trait") == "style::ProgressTracker" and K.meth(c.generic) == meth]
        ok = bool(cs) and all(x.in_loop(c.bb) for c in cs)
        for c in cs:
            sl = x.slice_args(c, [0])
            ok = ok and sl.has_field("format_map") and sl.has_call(r"std::collections::HashMap::<K, V, S, A>::values_mut|.*::values_mut")
            ok = ok and x.slice_args(c, [1], through_calls=False).has_field("state", "state::BarState")
            if cond:
                ok = ok and K.in_variant_region(x, crate, c.bb, "state::Reset", {cond})
                # trackers are handed the state *after* the bar itself was reset
                st_writes = [k.bb for k in x.calls(r"state::AtomicPosition::reset", r"state::Estimator::reset")] + \
                    [i for i, j, s_ in x.assigns() if [f[2] for f in place_fields(s_["lhs"])][-1:] in (["status"], ["started"])]
                late = [w for w in st_writes if w in x.reach_after(c.bb) and c.bb not in x.reach_after(w)]
                ctx.check(not late, rule, "reset-sees-reset-state", x.name, c.loc(), "trackers are reset after the bar's own state was reset (they receive the current state)",
                          "ProgressTracker::reset is called before the bar's own state is reset: the tracker receives the stale position/status", cfg)
                # "reset together with the bar": on the CFG specialised to Reset::All every path to the return enters the loop over the
                # trackers - whatever the position or status (a tracker's own state, tick counts say, does not depend on them: seed C11n)
                R_all, avoid_all = K.variant_reach(x, crate, "state::Reset", cond, want_avoid=True)
                loop_ = {c.bb} | {y for y in x.reach_after(c.bb) if c.bb in x.reach_after(y)}
                heads = [k.bb for k in x.calls(r"std::iter::Iterator::next") if k.bb in loop_]
                uncond = bool(heads) and not (x.reach([0], avoid=heads, avoid_edges=set(avoid_all)) & set(x.return_blocks()))
                ctx.check(uncond, rule, "reset-unconditional", x.name, c.loc(), "reset() resets the custom trackers on every path",
                          "reset() resets the custom trackers only under a condition on the bar's state (position, status): a tracker with state of its own "
                          "(tick counts, peak rate) keeps its pre-reset value next to freshly reset built-in keys", cfg)
            else:
                rec = x.calls(r"state::Estimator::record")
                late = [r for r in rec if r.bb in x.reach_after(c.bb) and c.bb not in x.reach_after(r.bb)]
                ctx.check(not late, rule, "tick-sees-current-estimate", x.name, c.loc(), "trackers are ticked after the estimator recorded the new position",
                          "ProgressTracker::tick is called before the estimator is updated", cfg)
                draws = x.calls(r"state::BarState::draw")
                ok = ok and bool(draws) and all(d.bb in x.reach_after(c.bb) and c.bb not in x.reach_after(d.bb) for d in draws)
                # "ticked ... together with the bar": whenever the bar is updated and redrawn, finished or not - the loop over the
                # trackers is entered on every path to the draw (a finished bar still redraws on every update)
                loop_ = {c.bb} | {y for y in x.reach_after(c.bb) if c.bb in x.reach_after(y)}
                heads = [k.bb for k in x.calls(r"std::iter::Iterator::next") if k.bb in loop_]
                uncond = bool(heads) and all(not (x.reach([0], avoid=heads) & {d.bb for d in draws}) for _ in [0])
                ctx.check(uncond, rule, "tick-unconditional", x.name, c.loc(), "every update that redraws the bar ticks the custom trackers first",
                          "the trackers are ticked only under a condition on the bar's state (e.g. while it is not finished) although the bar is redrawn on every update: "
                          "after abandon()/finish() a set_length/set_message repaints built-in keys with current values next to a custom key that still shows its last tick", cfg)
        ctx.check(ok, rule, "%s-all-trackers" % meth, x.name, K.fn_loc(x),
                  "every tracker in format_map is %s with the bar's state%s" % ("ticked before the draw" if meth == "tick" else "reset", "" if not cond else " on Reset::All"),
                  "custom trackers are not all %s" % ("ticked before each draw" if meth == "tick" else "reset together with the bar"), cfg)
    # every update path that draws goes through update_estimate_and_draw (so trackers tick with the bar)
    wk = K.find_one(ctx, crate, rule, r"style::ProgressStyle::with_key")
    if wk:
        ins = [c for c in wk.calls(r"std::collections::HashMap::<K, V, S, A>::insert") if wk.slice_args(c, [0], through_calls=False).has_field("format_map")]
        ok = bool(ins) and all(wk.slice_args(c, [1]).params() == {2} and 3 in wk.slice_args(c, [2]).params() for c in ins)
        ctx.check(ok, rule, "with_key-registers", wk.name, K.fn_loc(wk), "with_key(key, tracker) registers the tracker under the key", "with_key does not register the tracker under its key", cfg)


# ---- R-ARM-BUFFER-FRESH ------------------------------------------------------------------------------

STD_WRITES = (r"std::string::String::(push|push_str|insert|insert_str|extend.*|retain|truncate|replace_range)", r"std::fmt::Write::(write_fmt|write_str|write_char)",
              r"<std::string::String as std::fmt::Write>::.*", r"std::iter::Extend::extend")
STD_CLEARS = (r"std::string::String::clear", r"std::mem::take", r"std::string::String::drain")


def buffer_ops(crate, b, target, depth=0):
    """(writes, clears) = calls in b that may leave text in / empty the String at `target` (a local index; for a
    pointer parameter the pointee). Crate callees are summarised by leaves_dirty()."""
    refs = b.ref_origins()
    # aliases: aggregates holding a pointer to target (e.g. TabRewriter(&mut buf, ..))
    alias = {target}
    changed = True
    while changed:
        changed = False
        for i, j, s in b.assigns():
            rv = s["rv"]
            if rv["k"] == "agg" and s["lhs"]["l"] not in alias:
                for o in rv["ops"]:
                    l = operand_local(o)
                    if l is not None and any(tl in alias for tl, tp in refs.get(l, ())):
                        alias.add(s["lhs"]["l"])
                        changed = True
            if rv["k"] == "cast" and s["lhs"]["l"] not in alias:
                l = operand_local(rv["op"])
                if l is not None and (l in alias and b.is_ptr_local(l)):
                    pass
    writes, clears = [], []
    for c in b.calls():
        if c.matches(*b.REF_FORWARD):
            continue
        for k, a in enumerate(c.args):
            l = operand_local(a)
            if l is None or "&mut" not in b.locals[l]["ty"]:
                continue
            if not any(tl in alias for tl, tp in refs.get(l, ())) and l not in alias:
                continue
            if c.matches(*STD_CLEARS):
                clears.append(c)
            elif c.matches(*STD_WRITES) or c.callee.get("trait") == "style::ProgressTracker":
                writes.append(c)
            elif c.callee.get("local") and depth < 3:
                dirty = False
                for t in crate.resolve_targets(c):
                    cb = crate.bodies.get(t)
                    if cb and k + 1 <= cb.arg_count and leaves_dirty(crate, cb, k + 1, depth + 1):
                        dirty = True
                if dirty:
                    writes.append(c)
            break
    return writes, clears


def leaves_dirty(crate, cb, param, depth):
    w, cl = buffer_ops(crate, cb, param, depth)
    cbbs = [c.bb for c in cl]
    rets = set(cb.return_blocks())
    for x in w:
        if cb.reach(cb.succ(x.bb), avoid=cbbs) & rets or (x.bb in rets):
            return True
    return False


def rule_arm_buffer_fresh(ctx, crate, rule="R-ARM-BUFFER-FRESH"):
    """Each placeholder is rendered into a shared scratch String that later code pads and copies: no text left in it by
    an earlier writer (an earlier placeholder, or push_line/expand, which render wide_msg into the same buffer) may
    reach a placeholder's write without an intervening clear."""
    cfg = crate.config
    b = K.find_one(ctx, crate, rule, r"style::ProgressStyle::format_state")
    if not b:
        return
    heads = [c for c in b.calls(r"std::iter::Iterator::next") if b.slice_args(c, [0]).has_field("parts")]
    if not heads:
        ctx.lost(rule, cfg, "loop over template parts not found")
        return
    H = heads[0].bb
    # candidate buffers: String locals that receive placeholder output
    arms = key_arms(b)
    arm_blocks = set()
    for k, (c, reg) in arms.items():
        arm_blocks |= reg
    n = 0
    for L, loc in enumerate(b.locals):
        if loc["ty"] != "std::string::String" or L <= b.arg_count:
            continue
        writes, clears = buffer_ops(crate, b, L)
        arm_writes = [w for w in writes if w.bb in arm_blocks or w.callee.get("trait") == "style::ProgressTracker"]
        if not arm_writes:
            continue
        n += 1
        cbbs = [c.bb for c in clears]
        dirty_sources = [s for s in writes if H in b.reach(b.succ(s.bb), avoid=cbbs)]
        stale = [w for w in arm_writes if w.bb in b.reach(b.succ(H), avoid=cbbs)]
        ok = not (dirty_sources and stale)
        ctx.check(ok, rule, "scratch-buffer:%s" % (loc.get("name") or "tmp"), b.name, (stale[0].loc() if stale else K.fn_loc(b)),
                  "every placeholder write is preceded (within its iteration) by a clear of the scratch buffer, or every earlier writer leaves it empty (%d writers, %d clears)" % (len(writes), len(clears)),
                  "text left in the scratch buffer by %s can reach the placeholder write at line %s without a clear: the placeholder renders on top of stale text" % (
                      sorted({K.meth(s.path) for s in dirty_sources})[:4], stale[0].line if stale else "?"), cfg)
    ctx.floor(rule, n, 1, cfg, "scratch buffers written by placeholder arms")


SEARCHES = (r"(std|core|alloc)::str::<impl str>::(replace|replacen|find|rfind|split|rsplit|split_once|rsplit_once|contains|matches|match_indices|split_terminator|splitn|trim_matches|strip_prefix|strip_suffix)",)


def _body_mentions_char(body, ch):
    """Does a body (a closure) mention the char constant `ch`?"""
    for bb in range(body.n):
        for st in body.stmts(bb):
            if '"char": true' in json.dumps(st) and json.dumps(ch) in json.dumps(st):
                return True
        t = body.term(bb)
        if t and '"char": true' in json.dumps(t) and json.dumps(ch) in json.dumps(t):
            return True
    return False


def _closure_defs(b, op):
    """closure bodies an operand may denote (closure aggregates in its slice)"""
    out = set()
    if isinstance(op, dict) and op.get("k") == "const" and op.get("closure"):
        out.add(op["closure"])           # a closure without captures used as a value
    seen, work = set(), [operand_local(op)]
    while work:                          # through plain copies / moves / reborrows of a named closure (`let is_text = |c| ..; buf.retain(is_text)`)
        l = work.pop()
        if l is None or l in seen or len(seen) > 12:
            continue
        seen.add(l)
        for i, j, s in b.assigns():
            if s["lhs"]["l"] != l or s["lhs"]["p"]:
                continue
            rv = s["rv"]
            if rv["k"] == "agg" and rv.get("ak") == "closure":
                out.add(rv.get("def"))
            elif rv["k"] == "use" and isinstance(rv["op"], dict):
                if rv["op"].get("k") == "const" and rv["op"].get("closure"):
                    out.add(rv["op"]["closure"])
                elif rv["op"].get("k") in ("copy", "move") and not [e for e in rv["op"]["place"]["p"] if e != "*"]:
                    work.append(rv["op"]["place"]["l"])
            elif rv["k"] in ("ref", "copyderef") and not [e for e in rv["place"]["p"] if e != "*"]:
                work.append(rv["place"]["l"])
    return out


def rule_marker_out_of_band(ctx, crate, rule="R-MARKER-OUT-OF-BAND"):
    """The wide element ({wide_bar}, {wide_msg}) is spliced into a line by *searching* the finished line for a marker
    character that `format_state` pushed where the element goes. The marker travels in-band: any other text of the line
    that happens to contain the same character is taken for the marker (the bar is spliced into the message, the line
    overflows the terminal). So whenever the functions behind `format_state` search the line for a character constant that
    `format_state` itself pushes, every other text that enters the line must have that character removed first:
      (a) each append of the per-placeholder buffer to the line is preceded, on every path from the buffer's `clear()`, by a
          filter for the marker (`String::retain`, `str::replace`, `Iterator::filter` with a closure naming it);
      (b) between that filter and the append nothing writes the buffer but the marker push itself;
      (c) template literals are filtered where they are parsed (or where they are appended).
    With a positional design (no search for a pushed constant) the rule has nothing to check."""
    cfg = crate.config
    F = K.find_one(ctx, crate, rule, r"style::ProgressStyle::format_state")
    if not F:
        return
    pushed = {}
    for c in F.calls(r"std::string::String::push"):
        if len(c.args) > 1 and c.args[1].get("k") == "const" and c.args[1].get("char"):
            pushed.setdefault(c.args[1].get("v"), []).append(c)
    # functions behind format_state (crate-local, depth 3)
    seen, work = {F.name}, [(F, 0)]
    searched = {}
    while work:
        b, dep = work.pop()
        for c in b.calls(*SEARCHES):
            if len(c.args) > 1 and c.args[1].get("k") == "const" and c.args[1].get("char") and c.args[1].get("v") in pushed:
                searched.setdefault(c.args[1]["v"], []).append(c)
        if dep < 3:
            for c in b.calls():
                if c.callee.get("local"):
                    for tn in crate.resolve_targets(c):
                        h = crate.bodies.get(tn)
                        if h is not None and h.name not in seen:
                            seen.add(h.name)
                            work.append((h, dep + 1))
    ctx.extra.setdefault("line_markers", {})[cfg] = sorted(json.dumps(m) for m in searched)
    if not searched:
        ctx.check(True, rule, "no-in-band-marker", F.name, "%s:%d" % (F.file, 0), "no character constant pushed by format_state is searched for in the line", "", cfg)
        return
    lines = F.calls(r"style::ProgressStyle::push_line")
    if not lines:
        ctx.lost(rule, cfg, "format_state does not hand its line to push_line any more")
        return

    def origin(op):
        l = operand_local(op)
        if l is None:
            return set()
        o = {tl for tl, tp in F.ref_origins().get(l, ())}
        return o or {l}
    cur_ls = set()
    for c in lines:
        for a in c.args[1:]:
            if isinstance(a, dict) and a.get("k") in ("move", "copy") and a["place"].get("ty", "").replace(" ", "") == "&mutstd::string::String":
                cur_ls |= origin(a)
                break
    for m, pcs in sorted(pushed.items()):
        if m not in searched:
            continue
        buf_ls = set()
        for c in pcs:
            buf_ls |= origin(c.args[0])
        if len(buf_ls) != 1 or len(cur_ls) < 1 or (buf_ls & cur_ls):
            ctx.lost(rule, cfg, "cannot tell the placeholder buffer (%s) from the line (%s)" % (sorted(buf_ls), sorted(cur_ls)))
            continue
        buf_l = next(iter(buf_ls))
        clears = [c for c in F.calls(r"std::string::String::clear") if origin(c.args[0]) == {buf_l}]
        sanit = []
        for c in F.calls(r"std::string::String::retain", r"std::iter::Iterator::filter", *SEARCHES):
            if K.meth(c.path) in ("retain", "filter"):
                ok = any(crate.bodies.get(d) is not None and _body_mentions_char(crate.bodies[d], m) for a in c.args[1:] for d in _closure_defs(F, a))
            else:
                ok = K.meth(c.path) in ("replace", "replacen") and len(c.args) > 1 and c.args[1].get("k") == "const" and c.args[1].get("v") == m
            if ok and buf_l in F.slice_args(c, [0]).locals:
                sanit.append(c)
        s_bbs = {c.bb for c in sanit}
        writers, appends, lit_appends = [], [], []
        next_bbs = {c.bb for c in F.calls(r"std::iter::Iterator::next")}
        in_iter = F.reach([x for c in clears for x in F.succ(c.bb)], avoid=next_bbs)

        def wraps_buf(l, depth=0):
            """local l is (or is an aggregate holding a `&mut` to) the buffer"""
            if l == buf_l:
                return True
            if depth > 3:
                return False
            for i_, j_, s_ in F.assigns():
                if s_["lhs"]["l"] == l and not s_["lhs"]["p"] and s_["rv"]["k"] == "agg":
                    for o in s_["rv"]["ops"]:
                        if isinstance(o, dict) and o.get("k") in ("move", "copy") and o["place"].get("ty", "").startswith("&mut") and any(wraps_buf(x, depth + 1) for x in origin(o)):
                            return True
            return False
        for c in F.calls():
            if c in sanit or c in clears or c in pcs or c.matches(r"style::ProgressStyle::push_line"):
                continue
            muts = [a for a in c.args if isinstance(a, dict) and a.get("k") in ("move", "copy") and a["place"].get("ty", "").startswith("&mut")]
            if not muts:
                continue
            tgt = set()
            for a in muts:
                tgt |= origin(a)
            if tgt and tgt <= cur_ls:
                # appended within the iteration that cleared the buffer = placeholder text; anything else (template literals) = other text
                (appends if c.bb in in_iter else lit_appends).append(c)
            elif any(wraps_buf(x) for x in tgt):
                writers.append(c)
        if not appends or not clears:
            ctx.lost(rule, cfg, "no append of the placeholder buffer to the line / no clear() of the buffer found in format_state")
            continue
        cl_bbs = {c.bb for c in clears}
        for k, a in enumerate(appends):
            ok = bool(s_bbs) and not (F.reach([x for cb in cl_bbs for x in F.succ(cb)], avoid=s_bbs | next_bbs) & {a.bb})
            ctx.check(ok, rule, "buffer-filtered:%s#%d" % (K.meth(a.path), k), F.name, a.loc(),
                      "the placeholder text is filtered for the marker %r before it is appended to the line" % m,
                      "the line is searched for the marker %r (%s), but placeholder text (message, prefix, custom keys) is appended to it unfiltered: a message "
                      "containing that character gets the wide element spliced into it and the line overflows the terminal" % (m, ", ".join(sorted({K.meth(x.path) + "@" + x.body.name.split("::")[-1] for x in searched[m]}))), cfg)
            if ok:
                late = [w for w in writers if any(w.bb in F.reach([F.term(s).get("t")], avoid=cl_bbs) for s in s_bbs if F.term(s).get("t") is not None)
                        and a.bb in F.reach([w.target] if w.target is not None else [], avoid=cl_bbs)]
                ctx.check(not late, rule, "nothing-after-filter:%s#%d" % (K.meth(a.path), k), F.name, a.loc(),
                          "between the filter and the append only the marker itself is written to the buffer",
                          "the buffer is written again after it was filtered for the marker (%s)" % ", ".join("%s L%d" % (w.path, w.line) for w in late[:3]), cfg)
        # (c) literal text
        for k, a in enumerate(lit_appends):
            ok = any(c.matches(r"std::iter::Iterator::filter", *SEARCHES) and K.meth(c.path) in ("filter", "replace", "replacen")
                     and (K.meth(c.path) == "filter" and any(crate.bodies.get(d) is not None and _body_mentions_char(crate.bodies[d], m) for x in c.args[1:] for d in _closure_defs(F, x))
                          or K.meth(c.path) != "filter" and len(c.args) > 1 and c.args[1].get("v") == m)
                     for c in F.slice_args(a, through_calls=False).calls)
            if not ok:
                # filtered where the template is parsed: the loop that builds the literal parts consumes a filtered iterator
                for P in K.lib_bodies(crate):
                    if P.kind == "Closure" or not any(s["rv"]["k"] == "agg" and s["rv"].get("adt") == "style::TemplatePart" and s["rv"].get("variant") == "Literal" for i, j, s in P.assigns()):
                        continue
                    for nx in P.calls(r"std::iter::Iterator::next"):
                        sl = P.slice_args(nx, [0])
                        for c in sl.calls:
                            if c.matches(r"std::iter::Iterator::filter") and any(crate.bodies.get(d) is not None and _body_mentions_char(crate.bodies[d], m) for x in c.args[1:] for d in _closure_defs(P, x)):
                                ok = True
                            if c.matches(*SEARCHES) and K.meth(c.path) in ("replace", "replacen") and len(c.args) > 1 and c.args[1].get("v") == m:
                                ok = True
                    # or the loop skips the character itself: `if c == MARK { continue; }` - on the equal edge nothing happens before the next item is read
                    nxb = {k.bb for k in P.calls(r"std::iter::Iterator::next")}
                    for i_, j_, s_ in P.assigns():
                        rv = s_["rv"]
                        if rv["k"] != "bin" or rv["op"] not in ("Eq", "Ne") or s_["lhs"]["p"]:
                            continue
                        sides = [rv["a"], rv["b"]]
                        cs_ = [x for x in sides if x.get("k") == "const" and x.get("char") and x.get("v") == m]
                        vs_ = [x for x in sides if x.get("k") != "const"]
                        if len(cs_) != 1 or len(vs_) != 1 or not any(k.bb in nxb for k in P.slice(vs_[0], at=i_).calls):
                            continue
                        for sb, t in P.switches():
                            if operand_local(t["op"]) != s_["lhs"]["l"] or t["op"]["place"]["p"]:
                                continue
                            zero = [tb for v, tb in t["targets"] if v == 0]
                            if not zero or zero[0] == t["otherwise"]:
                                continue
                            eq_t = t["otherwise"] if rv["op"] == "Eq" else zero[0]
                            region = P.reach([eq_t], avoid=nxb)
                            if nxb and not any(P.term(x) and P.term(x)["k"] == "call" for x in region) and not any(P.term(x) and P.term(x)["k"] == "return" for x in region):
                                ok = True
            ctx.check(ok, rule, "literal-filtered#%d" % k, F.name, a.loc(),
                      "template literals are free of the marker %r (filtered where the template is parsed)" % m,
                      "template text is appended to the line unfiltered although the line is searched for the marker %r" % m, cfg)
        ctx.extra.setdefault("marker_sites", {})[cfg] = {"appends": len(appends), "literal_appends": len(lit_appends), "filters": len(sanit), "buffer_writers": len(writers)}


def _loads_position(crate, b, depth, seen=None):
    """does body b (or a crate function it calls, `depth` levels down) read the shared position atomic?"""
    seen = seen if seen is not None else set()
    if b.name in seen:
        return False
    seen.add(b.name)
    for c in b.calls(r"portable_atomic::AtomicU64::load"):
        if b.slice_args(c, [0]).has_field("pos", "state::AtomicPosition"):
            return True
    if depth <= 0:
        return False
    for c in b.calls():
        if c.callee.get("local") and not c.callee.get("trait"):
            for tn in crate.resolve_targets(c):
                h = crate.bodies.get(tn)
                if h is not None and _loads_position(crate, h, depth - 1, seen):
                    return True
    return False


def rule_frame_one_sample(ctx, crate, rule="R-FRAME-ONE-SAMPLE"):
    """"renders the value of the bar at the moment of the draw" - one moment: inc/dec/set_position change the position without
    taking the bar's lock, so every read of the shared atomic during the composition of a frame can see a different value. The
    frame samples the position once, before the loop over the template parts (R-KEY-TABLE `sampled-once-per-frame`); every
    placeholder that goes back to the atomic through a getter (`fraction()`, `eta()`, ..) can disagree with {pos} in the same
    frame ("5/10 60%") - a state the bar never had. Checked: inside the loop over the template parts (and in what `push_line`
    calls) no crate function is called that reads the position atomic again."""
    cfg = crate.config
    F = K.find_one(ctx, crate, rule, r"style::ProgressStyle::format_state")
    if not F:
        return
    n = 0
    found = {}
    scopes = [(F, None)]
    for c in F.calls(r"style::ProgressStyle::push_line"):
        for tn in crate.resolve_targets(c):
            if tn in crate.bodies:
                scopes.append((crate.bodies[tn], "push_line"))
    seen_scope = set()
    for b, via in scopes:
        if b.name in seen_scope:
            continue
        seen_scope.add(b.name)
        for c in b.calls():
            if not c.callee.get("local") or c.callee.get("trait"):
                continue
            if b is F and not b.in_loop(c.bb):
                continue            # the one sample taken before the loop
            if c.matches(r"style::ProgressStyle::push_line"):
                continue
            tgt = [crate.bodies[t] for t in crate.resolve_targets(c) if t in crate.bodies]
            if any(_loads_position(crate, h, 3) for h in tgt):
                n += 1
                found.setdefault(K.meth(c.path), c)
    for name, c in sorted(found.items()):
        ctx.bad(rule, "resample:%s" % name, F.name, c.loc(),
                "the frame reads the shared position again through %s() while it is being composed: a concurrent inc() between the sample taken for {pos} and this read "
                "gives one frame two different positions" % name, cfg)
    if not found:
        ctx.check(True, rule, "single-sample", F.name, K.fn_loc(F), "no getter re-reads the position atomic inside the loop over the template parts", "", cfg)
    ctx.extra.setdefault("frame_resamples", {})[cfg] = sorted(found)
