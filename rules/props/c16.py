"""C16 — tabs are always expanded before reaching the terminal."""
import re

from .. import common as K
from ..facts import Call, operand_local, place_fields, is_const, const_val

EXPLANATION = ("Decides cache coherence of tab expansion as pairing/completeness: TabExpandedString values are built only by "
               "its own constructor (which tests for '\\t'); outside its impl the text is only read through expanded(); every text "
               "setter expands with the bar's current tab_width; BarState::set_tab_width stores the width and reaches every holder of "
               "expanded text (holders are derived by a type walk from BarState) and the style's rewriter width; replacing the style "
               "re-applies the bar's width; changing a string's width invalidates its cached expansion; expansion replaces '\\t' by "
               "tab_width spaces; custom-key output passes through a TabRewriter carrying the style's width; message()/prefix() "
               "return expanded text.")
UNDECIDED = "Tabs inside user-supplied tick strings/progress chars (outside the statement); allocation failure for absurd widths."

TES = "state::TabExpandedString"
TES_NEW = r"state::TabExpandedString::new"
TES_SET = r"state::TabExpandedString::set_tab_width"
TES_EXP = r"state::TabExpandedString::expanded"


def run(ctx, crate):
    K.rule_no_unsafe(ctx, crate)
    rule_construction(ctx, crate)
    rule_encapsulation(ctx, crate)
    rule_current_width(ctx, crate)
    rule_propagation(ctx, crate)
    rule_style_replaced(ctx, crate)
    rule_invalidate(ctx, crate)
    rule_expansion(ctx, crate)
    rule_tabrewriter(ctx, crate)
    rule_tab_sources_covered(ctx, crate)
    rule_getters(ctx, crate)
    rule_width_read_and_store_atomic(ctx, crate)


BAR_LOCK = (r"progress_bar::ProgressBar::state", r"std::sync::Mutex::<T>::lock")


def rule_width_read_and_store_atomic(ctx, crate, rule="R-TAB-WIDTH-READ-STORE-ATOMIC"):
    """"Changing the tab width ... in any order re-expands all of them consistently": `set_tab_width` re-expands the texts that are
    stored at the moment it runs, so a text that is expanded with the width read from the bar must be stored under the *same*
    acquisition of the bar's lock. If the width is read under one acquisition and the text stored under another, a width change
    in between is never applied to that text (seed C16k: set_message with a `shorter critical section`). For every store of a
    message/prefix whose value depends on the stored tab width: the lock acquisitions its value depends on are the one the store
    goes through."""
    cfg = crate.config
    n = 0
    for b in K.lib_bodies(crate):
        for i, j, st in b.assigns():
            fs = place_fields(st["lhs"])
            if not fs or fs[-1][0] != "state::ProgressState" or fs[-1][2] not in ("message", "prefix"):
                continue
            vsl = b.slice_rv(i, st)
            if not vsl.has_field("tab_width"):
                continue
            n += 1
            vl = {k.bb for k in vsl.calls if k.matches(*BAR_LOCK)}
            psl = b.slice({"k": "copy", "place": {"l": st["lhs"]["l"], "p": []}}, at=i)
            pl = {k.bb for k in psl.calls if k.matches(*BAR_LOCK)}
            ok = vl <= pl and len(pl) <= 1
            ctx.check(ok, rule, "same-acquisition:%s:%s" % (K.meth(K.owner_fn(crate, b)), fs[-1][2]), b.name, "%s:%d" % (b.file, st.get("line", 0)),
                      "the tab width a text is expanded with is read under the lock acquisition through which the text is stored",
                      "%s reads the tab width under one acquisition of the bar's lock and stores the expanded %s under another: a set_tab_width() in between is never "
                      "applied to it (the text keeps the old width until the width changes again)" % (K.meth(K.owner_fn(crate, b)), fs[-1][2]), cfg)
    ctx.floor(rule, n, 4, cfg, "stores of message/prefix expanded with the bar's tab width")


def in_own_impl(b, crate):
    o = crate.bodies.get(K.owner_fn(crate, b), b)
    return bool(o.impl and o.impl.get("self_head") == TES) or o.name.startswith("state::TabExpandedString::")


def rule_construction(ctx, crate, rule="R-TES-CONSTRUCTION"):
    cfg = crate.config
    n = 0
    for (b, i, j, s) in K.constructions(crate, TES):
        n += 1
        v = s["rv"]["variant"]
        if in_own_impl(b, crate):
            ctx.ok(rule, "construct:%s" % v, b.name, "%s:%d" % (b.file, s.get("line", 0)), "built inside TabExpandedString's own impl", cfg)
            continue
        sl = b.slice_rv(i, s)
        strs = [c for c in sl.consts() if isinstance(c, str)]
        ok = v == "NoTabs" and strs and all("\t" not in x for x in strs) and not sl.params()
        ctx.check(ok, rule, "construct:%s" % v, b.name, "%s:%d" % (b.file, s.get("line", 0)),
                  "NoTabs built from a constant string without a tab", "TabExpandedString::%s built outside its constructor from a non-constant/unchecked string" % v, cfg)
    ctx.floor(rule, n, 3, cfg, "TabExpandedString constructions")
    # the constructor tests for a tab and picks the variant accordingly
    b = K.find_one(ctx, crate, rule, TES_NEW)
    if b:
        cont = [c for c in b.calls(r"core::str::<impl str>::contains") if is_tab_char(c.args[1])]
        ok = bool(cont)
        for (bb, i, j, s) in K.constructions(crate, TES, bodies=[b]):
            v = s["rv"]["variant"]
            want_true = v == "WithTabs"
            g = False
            for sb, t in b.switches():
                sl = b.slice(t["op"], at=sb)
                if sl.has_call(r"core::str::<impl str>::contains"):
                    z = [tb for vv, tb in t["targets"] if vv == 0]
                    neg = ("unop", "Not") in sl.atoms
                    true_edge = (sb, t["otherwise"])
                    false_edge = (sb, z[0]) if z else None
                    has_tab_edge = false_edge if neg else true_edge
                    no_tab_edge = true_edge if neg else false_edge
                    e = has_tab_edge if want_true else no_tab_edge
                    if e and b.edge_dominates(e, i):
                        g = True
            ok = ok and g
        ctx.check(ok, rule, "constructor-tests-tab", b.name, K.fn_loc(b), "new() builds WithTabs exactly when the text contains '\\t'",
                  "new() does not select the variant by the presence of '\\t' (text with tabs stored as NoTabs is never expanded)", cfg)


def has_upvar(sl, name):
    return any(a[0] == "upvar" and (a[1] == name or a[1].endswith("__" + name)) for a in sl.atoms)


def is_tab_char(op):
    return op.get("k") == "const" and op.get("v") == "\t"


def rule_encapsulation(ctx, crate, rule="R-TES-ENCAPSULATED"):
    """Outside its impl nobody matches on the variants or reads `original`/the NoTabs payload."""
    cfg = crate.config
    n = 0
    allowed_calls = (TES_NEW, TES_SET, TES_EXP, r".*::clone", r".*::eq", r".*::ne", r".*::fmt", r"std::mem::(replace|swap|take)", r"std::ptr::drop_in_place.*")
    for b in K.lib_bodies(crate):
        if in_own_impl(b, crate):
            continue
        for sb, t, pl, d in K.discr_switches(b):
            if K.head_of_type(pl.get("ty", "")) == TES:
                n += 1
                ctx.bad(rule, "match-outside-impl", b.name, "%s:%d" % (b.file, t.get("line", 0)),
                        "code outside TabExpandedString's impl matches on its variants (may use the unexpanded original)", cfg)
        for i, j, s in b.assigns():
            rv = s["rv"]
            for pl in [rv.get("place"), (rv.get("op") or {}).get("place") if isinstance(rv.get("op"), dict) else None]:
                if pl and any(f[0] == TES for f in place_fields(pl)):
                    n += 1
                    ctx.bad(rule, "field-read-outside-impl", b.name, "%s:%d" % (b.file, s.get("line", 0)),
                            "a field of TabExpandedString is read outside its impl", cfg)
        for c in b.calls():
            if c.callee.get("self_head") == TES or (c.args and b.locals[operand_local(c.args[0]) or 0].get("head") == TES and c.callee.get("local")):
                n += 1
                ctx.check(c.matches(*allowed_calls), rule, "call:%s" % K.meth(c.path), b.name, c.loc(),
                          "TabExpandedString used through %s" % K.meth(c.path), "TabExpandedString accessed through %s" % c.path, cfg)
    ctx.floor(rule, n, 8, cfg, "uses of TabExpandedString outside its impl")


def rule_current_width(ctx, crate, rule="R-TES-CURRENT-WIDTH"):
    cfg = crate.config
    n = 0
    for b in K.lib_bodies(crate):
        for i, j, s in b.assigns():
            fs = place_fields(s["lhs"])
            if not fs or fs[-1][0] != "state::ProgressState" or fs[-1][2] not in ("message", "prefix"):
                continue
            sl = b.slice_rv(i, s, through_calls=False)
            news = [c for c in sl.calls if c.matches(TES_NEW)]
            if not news:
                if in_own_impl(b, crate) or b.name == "state::ProgressState::new":
                    continue
                ctx.bad(rule, "store-not-from-new:%s" % fs[-1][2], b.name, "%s:%d" % (b.file, s.get("line", 0)),
                        "%s is stored from something other than TabExpandedString::new" % fs[-1][2], cfg)
                continue
            for c in news:
                n += 1
                wsl = b.slice_args(c, [1])
                ok = wsl.has_field("tab_width", "state::BarState") and not wsl.consts()
                ctx.check(ok, rule, "setter:%s:%s" % (K.meth(K.owner_fn(crate, b)), fs[-1][2]), b.name, c.loc(),
                          "the text is expanded with the bar's current tab_width", "the new %s is expanded with a width that is not the bar's current tab_width" % fs[-1][2], cfg)
                # same bar: the store target and the width source have the same base
    ctx.floor(rule, n, 4, cfg, "text setters")
    # parser: literals use the parser's width parameter
    p = K.find_one(ctx, crate, rule, r"style::Template::from_str_with_tab_width")
    if p:
        n_lit = 0
        for k, c in enumerate(p.calls(TES_NEW)):
            n_lit += 1
            wsl = p.slice_args(c, [1])
            ctx.check(wsl.params() == {2} and not wsl.calls, rule, "parser-literal#%d" % k, p.name, c.loc(),
                      "template literals are expanded with the parser's tab_width parameter", "a template literal is expanded with a different width", cfg)
        # literal construction extracted into a private helper of the parser: the helper forwards one of its parameters,
        # and the parser passes its own tab_width there
        for hc in p.calls():
            if not hc.callee.get("local"):
                continue
            for tn in crate.resolve_targets(hc):
                h = crate.bodies.get(tn)
                if h is None or h.api or h.kind == "Closure" or not h.calls(TES_NEW):
                    continue
                for c in h.calls(TES_NEW):
                    n_lit += 1
                    ps = h.slice_args(c, [1]).params()
                    okh = len(ps) == 1 and not h.slice_args(c, [1]).calls
                    okc = okh and p.slice_args(hc, [next(iter(ps)) - 1]).params() == {2} and not p.slice_args(hc, [next(iter(ps)) - 1]).calls
                    ctx.check(okc, rule, "parser-literal-via:%s" % K.meth(h.name), p.name, hc.loc(),
                              "the helper expands the literal with the width the parser passes, which is its tab_width parameter",
                              "a template literal built through %s is expanded with a different width" % h.name, cfg)
        ctx.floor(rule, n_lit, 3, cfg, "literal constructions in the parser")


def holders(crate, root="state::BarState"):
    """Field paths (adt, variant, field) of type TabExpandedString reachable by ownership from root, and
    usize fields named tab_width on the way."""
    out = []
    widths = []
    seen = set()

    def walk(adt, path):
        if adt in seen or adt not in crate.adts:
            return
        seen.add(adt)
        for v in crate.adts[adt]["variants"]:
            for f in v["fields"]:
                p = path + [(adt, v["name"], f["name"])]
                if f.get("head") == TES or TES in f["ty"].replace("&", "") and f.get("head") in (TES, "std::vec::Vec", "std::option::Option", "std::boxed::Box"):
                    if TES in f["ty"]:
                        out.append((adt, v["name"], f["name"]))
                if f["name"] == "tab_width" and f["ty"] == "usize" and adt != TES:
                    widths.append((adt, v["name"], f["name"]))
                for a in f.get("adts", []):
                    if a in crate.adts and a != TES:
                        walk(a, p)
    walk(root, [])
    return out, widths


def rule_propagation(ctx, crate, rule="R-TAB-PROPAGATION"):
    cfg = crate.config
    hs, ws = holders(crate)
    ctx.floor(rule, len(hs), 3, cfg, "holders of expanded text reachable from BarState")
    ctx.floor(rule, len(ws), 2, cfg, "tab_width fields reachable from BarState")
    b = K.find_one(ctx, crate, rule, r"state::BarState::set_tab_width")
    if not b:
        return
    reach = crate.reachable_bodies([b.name])
    # every holder is reached by a set_tab_width call whose receiver slices to that field, with the width parameter
    set_calls = []
    for n in sorted(reach):
        x = crate.bodies[n]
        for c in x.calls(TES_SET):
            set_calls.append((x, c, x.slice_args(c, [0])))
    def via_closure(sl, f, adt):
        # the receiver comes out of an iterator adaptor whose closure projects the field (`parts.iter_mut().filter_map(|p| match p { Literal(s) => Some(s), .. })`)
        for a_ in sl.atoms:
            if a_[0] == "closure" and a_[1] in crate.bodies and crate.bodies[a_[1]].slice([0]).has_field(f, adt):
                return True
        return False
    for (adt, v, f) in hs:
        hit = [(x, c) for x, c, sl in set_calls if sl.has_field(f, adt) or via_closure(sl, f, adt)]
        closure_hits = {id(c) for x, c, sl in set_calls if not sl.has_field(f, adt) and via_closure(sl, f, adt)}
        ok = bool(hit)
        for x, c in hit:
            wsl = x.slice_args(c, [1])
            ok = ok and bool(wsl.params()) and not wsl.consts()
            # unconditional within its function, modulo the variant match
            if adt in ("state::ProgressState",):
                mp = x.must_pass([0], [c.bb])
                if not mp and x.in_loop(c.bb):
                    # `for text in [message, prefix] { text.set_tab_width(w) }`: a loop over a fixed array that holds the field; the loop
                    # itself is on every path (its exits are checked below)
                    loop_ = {c.bb} | {y for y in x.reach_after(c.bb) if c.bb in x.reach_after(y)}
                    for nk in x.calls(r"std::iter::Iterator::next"):
                        if nk.bb not in loop_ or not x.must_pass([0], [nk.bb]):
                            continue
                        for ic in x.slice_args(nk, [0]).calls:
                            if ic.matches(r"std::iter::IntoIterator::into_iter") and ic.args and (ic.args[0].get("place", {}).get("ty") or "").startswith("["):
                                mp = True
                ok = ok and mp
            else:
                ok = ok and x.in_loop(c.bb) and (K.in_variant_region(x, crate, c.bb, adt, {v}) or id(c) in closure_hits)
        # a holder reached inside a loop over a collection (template parts, custom keys) is reached for *every* element: the loop
        # has no exit other than the end of the iteration (an early `break` "once one literal is up to date" leaves the rest stale)
        for x, c in hit:
            if not x.in_loop(c.bb):
                continue
            loop = {c.bb} | {y for y in x.reach_after(c.bb) if c.bb in x.reach_after(y)}
            nexts = [k for k in x.calls(r"std::iter::Iterator::next") if k.bb in loop]
            rets = set(x.return_blocks())
            if nexts and c.target is not None:
                esc = x.reach([c.target], avoid=[k.bb for k in nexts]) & rets
                ok = ok and not esc
        ctx.check(ok, rule, "holder:%s.%s" % (adt.rsplit("::", 1)[-1], f), b.name, hit[0][1].loc() if hit else K.fn_loc(b),
                  "set_tab_width reaches this holder with the new width", "changing the tab width does not re-expand %s::%s.%s" % (adt, v, f), cfg)
    # widths: stored from the parameter on every path
    for (adt, v, f) in ws:
        stores = []
        for n in sorted(reach):
            x = crate.bodies[n]
            xrefs = x.ref_origins()
            for i, j, s in x.assigns():
                fs = place_fields(s["lhs"])
                if fs and fs[-1][0] == adt and fs[-1][2] == f:
                    stores.append((x, i, s))
                elif not fs and s["lhs"]["p"] == ["*"] and x.locals[s["lhs"]["l"]]["ty"].startswith("&mut") and \
                        any(tp and (tp[-1] if isinstance(tp, (list, tuple)) else tp) == f for tl, tp in xrefs.get(s["lhs"]["l"], ())) and \
                        ((x.impl or {}).get("self_head") == adt or x.name.startswith(adt + "::")):
                    stores.append((x, i, s))        # a store through `&mut self.<f>` (destructured `let Self { tab_width, .. } = self`)
        ok = bool(stores) and all(x.slice_rv(i, s).params() and not x.slice_rv(i, s).consts() and x.must_pass([0], [i]) for x, i, s in stores)
        ctx.check(ok, rule, "width:%s.%s" % (adt.rsplit("::", 1)[-1], f), b.name, K.fn_loc(b),
                  "the new width is stored in %s.%s on every path" % (adt.rsplit("::", 1)[-1], f), "%s.%s is not updated by set_tab_width" % (adt, f), cfg)
    # the chain BarState -> ProgressStyle -> Template passes the parameter through, unconditionally
    for fn, callee in ((b.name, r"style::ProgressStyle::set_tab_width"), ("style::ProgressStyle::set_tab_width", r"style::Template::set_tab_width")):
        x = crate.body(fn)
        if not x:
            ctx.lost(rule, cfg, "%s missing" % fn)
            continue
        cs = x.calls(callee)
        ok = bool(cs) and all(x.must_pass([0], [c.bb]) and x.slice_args(c, [1]).params() == {2} and not x.slice_args(c, [1]).calls for c in cs)
        ctx.check(ok, rule, "chain:%s" % K.meth(callee.replace("::set_tab_width", "")), x.name, K.fn_loc(x),
                  "%s forwards the width to %s on every path" % (K.meth(fn), callee), "%s does not forward the new width to %s" % (fn, callee), cfg)
    # public entry points reach BarState::set_tab_width with their argument
    for fn in ("progress_bar::ProgressBar::set_tab_width", "progress_bar::ProgressBar::with_tab_width"):
        x = crate.body(fn)
        if not x:
            ctx.lost(rule, cfg, "%s missing" % fn)
            continue
        cs = x.calls(r"state::BarState::set_tab_width")
        ok = bool(cs) and all(x.must_pass([0], [c.bb]) and x.slice_args(c, [1]).params() == {2} for c in cs)
        ctx.check(ok, rule, "api:%s" % K.meth(fn), x.name, K.fn_loc(x), "%s applies the width to the bar" % K.meth(fn), "%s does not apply its width" % K.meth(fn), cfg)


def rule_style_replaced(ctx, crate, rule="R-STYLE-REPLACED"):
    cfg = crate.config
    n = 0
    for b in K.lib_bodies(crate):
        for i, j, s in b.assigns():
            fs = place_fields(s["lhs"])
            if not (fs and fs[-1][0] == "state::BarState" and fs[-1][2] == "style" and len(fs) == 1):
                continue
            n += 1
            cs = [c for c in b.calls(r"style::ProgressStyle::set_tab_width") if c.bb in b.reach_after(i) or c.bb == i]
            ok = bool(cs) and (i in [c.bb for c in cs] or b.must_pass(b.succ(i), [c.bb for c in cs]))
            for c in cs:
                ok = ok and b.slice_args(c, [1]).has_field("tab_width", "state::BarState") and b.slice_args(c, [0], through_calls=False).has_field("style", "state::BarState")
            ctx.check(ok, rule, "store:%s" % K.meth(b.name), b.name, "%s:%d" % (b.file, s.get("line", 0)),
                      "after replacing the style its tab width is set from the bar's tab_width on every path",
                      "a replaced style keeps its own tab width (literals/custom keys expand with a stale width)", cfg)
    ctx.floor(rule, n, 1, cfg, "stores to BarState::style")
    # construction: style and tab_width start from the same default
    for (b, i, j, s) in K.constructions(crate, "state::BarState"):
        rv = s["rv"]
        tw = rv["ops"][rv["fields"].index("tab_width")]
        v = const_val(tw)
        st = crate.body("style::ProgressStyle::new")
        dv = None
        if st:
            for (sb, si, sj, ss) in K.constructions(crate, "style::ProgressStyle", bodies=[st]):
                op_ = ss["rv"]["ops"][ss["rv"]["fields"].index("tab_width")]
                dv = const_val(op_)
                if dv is None and isinstance(op_, dict) and op_.get("k") in ("copy", "move"):
                    # (named first: `let tab_width = DEFAULT_TAB_WIDTH; Self { .., tab_width }`)
                    sl_ = st.slice(op_, at=si)
                    cs_ = [c_ for c_ in sl_.consts() if isinstance(c_, int) and not isinstance(c_, bool)]
                    if len(cs_) == 1 and not sl_.calls and not sl_.params():
                        dv = cs_[0]
        p = crate.body("style::Template::from_str")
        pv = None
        if p:
            for c in p.calls(r"style::Template::from_str_with_tab_width"):
                pv = const_val(c.args[1])
        ctx.check(v is not None and v == dv == pv, rule, "defaults-agree", b.name, "%s:%d" % (b.file, s.get("line", 0)),
                  "BarState, ProgressStyle::new and Template::from_str start from the same default tab width (%s)" % v,
                  "default tab widths disagree: bar %s, style %s, parser %s" % (v, dv, pv), cfg)
    # routes to the store: only set_style / with_style
    for fn in ("progress_bar::ProgressBar::set_style", "progress_bar::ProgressBar::with_style"):
        x = crate.body(fn)
        if x:
            reach = crate.reachable_bodies([fn])
            ctx.check("state::BarState::set_style" in reach, rule, "api:%s" % K.meth(fn), fn, K.fn_loc(x), "%s goes through BarState::set_style" % K.meth(fn),
                      "%s bypasses BarState::set_style" % K.meth(fn), cfg)


def rule_invalidate(ctx, crate, rule="R-TES-INVALIDATE"):
    cfg = crate.config
    b = K.find_one(ctx, crate, rule, TES_SET)
    if not b:
        return
    stores = []
    refs = b.ref_origins()
    for i, j, s in b.assigns():
        fs = [f[2] for f in place_fields(s["lhs"])]
        tgt = fs[-1:] == ["tab_width"] or ("*" in s["lhs"]["p"] and any(tp[-1:] == ("tab_width",) for tl, tp in refs.get(s["lhs"]["l"], ())))
        if tgt:
            stores.append((i, s))
    ctx.floor(rule, len(stores), 1, cfg, "stores to TabExpandedString::tab_width")
    takes = [c for c in b.calls(r"std::sync::OnceLock::<T>::take", r"std::mem::take", r"std::sync::OnceLock::<T>::new") if b.slice_args(c, [0]).has_field("expanded") or not c.args]
    for i, s in stores:
        ok = bool(takes) and (i in [c.bb for c in takes] or b.must_pass(b.succ(i), [c.bb for c in takes]) or
                              i not in b.reach([0], avoid=[c.bb for c in takes]))
        ctx.check(ok, rule, "store-invalidates", b.name, "%s:%d" % (b.file, s.get("line", 0)),
                  "every path that stores a new width also clears the cached expansion", "the width changes but the cached expansion is kept (stale text is drawn)", cfg)
        ctx.check(b.slice_rv(i, s).params() == {2}, rule, "store-value", b.name, "%s:%d" % (b.file, s.get("line", 0)), "the stored width is the parameter",
                  "the stored width is not the requested one", cfg)
    # the only path that skips the store is `old == new` (or NoTabs)
    reg_ok = True
    for sb, t in b.switches():
        sl = b.slice(t["op"], at=sb)
        if ("binop", "Ne") in sl.atoms or ("binop", "Eq") in sl.atoms:
            reg_ok = reg_ok and 2 in sl.params() and sl.has_field("tab_width")
    ctx.check(reg_ok, rule, "skip-only-if-equal", b.name, K.fn_loc(b), "the update is skipped only when the width is unchanged",
              "the update is skipped under a condition that is not `old == new`", cfg)
    ctx.check(K.in_variant_region(b, crate, stores[0][0], TES, {"WithTabs"}) if stores else False, rule, "withtabs-arm", b.name, K.fn_loc(b),
              "the WithTabs arm is the one updated", "the width store is not in the WithTabs arm", cfg)


def rule_expansion(ctx, crate, rule="R-TES-EXPANSION"):
    cfg = crate.config
    b = K.find_one(ctx, crate, rule, TES_EXP)
    if not b:
        return
    goi = b.calls(r"std::sync::OnceLock::<T>::get_or_init")
    ok = bool(goi)
    for c in goi:
        cl = [a[1] for a in b.slice_args(c, [1]).atoms if a[0] == "closure" and a[1] in crate.bodies]
        for d in cl:
            cb = crate.bodies[d]
            rep = cb.calls(r"std::str::<impl str>::replace")
            rpt = cb.calls(r"std::str::<impl str>::repeat")
            ok = ok and bool(rep) and bool(rpt)
            for r in rep:
                ok = ok and is_tab_char(r.args[1]) and any(x.bb == p.bb for p in rpt for x in cb.slice_args(r, [2]).calls) and \
                    has_upvar(cb.slice_args(r, [0]), "original")
            for p in rpt:
                ok = ok and " " in cb.slice_args(p, [0]).consts() and has_upvar(cb.slice_args(p, [1]), "tab_width")
        ok = ok and bool(cl)
        ok = ok and K.in_variant_region(b, crate, c.bb, TES, {"WithTabs"})
    ctx.check(ok, rule, "expanded-replaces-tabs", b.name, K.fn_loc(b), "expanded() = original.replace('\\t', \" \".repeat(tab_width)), cached",
              "expanded() does not replace every '\\t' by tab_width spaces of the original text", cfg)


def rule_tabrewriter(ctx, crate, rule="R-TABREWRITER"):
    cfg = crate.config
    # the rewriter's width field: the `usize` one (a tuple struct today, named fields are as good)
    tw = (crate.adts.get("style::TabRewriter") or {}).get("variants", [{}])[0].get("fields", [])
    wnames = [f_["name"] for f_ in tw if f_.get("ty") == "usize"] or ["1"]
    b = K.find_one(ctx, crate, rule, r"style::ProgressStyle::format_state")
    if b:
        ws = [c for c in b.calls() if c.callee.get("trait") == "style::ProgressTracker" and K.meth(c.generic) == "write"]
        ctx.floor(rule, len(ws), 1, cfg, "ProgressTracker::write call sites")
        for c in ws:
            sl = b.slice_args(c, [2])
            aggs = [a for a in sl.atoms if a[0] == "agg" and a[1] == "style::TabRewriter"]
            ok = bool(aggs)
            for (bb, i, j, s) in K.constructions(crate, "style::TabRewriter", bodies=[b]):
                flds = s["rv"].get("fields") or []
                widx = flds.index(wnames[0]) if wnames[0] in flds else 1
                wsl = b.slice(s["rv"]["ops"][widx], at=i)
                ok = ok and wsl.has_field("tab_width", "style::ProgressStyle") and not wsl.consts()
            ctx.check(ok, rule, "custom-key-writer", b.name, c.loc(), "custom keys write through a TabRewriter carrying the style's tab_width",
                      "custom-key output reaches the line buffer without tab rewriting (or with a fixed width)", cfg)
    w = K.find_one(ctx, crate, rule, r"<style::TabRewriter<'_> as std::fmt::Write>::write_str")
    if w:
        rep = w.calls(r"std::str::<impl str>::replace")
        rpt = w.calls(r"std::str::<impl str>::repeat")
        ok = bool(rep) and bool(rpt)
        for r in rep:
            ok = ok and is_tab_char(r.args[1]) and 2 in w.slice_args(r, [0]).params()
        for p in rpt:
            ok = ok and " " in w.slice_args(p, [0]).consts() and any(w.slice_args(p, [1]).has_field(n_) for n_ in wnames)
        inner = [c for c in w.calls(r"std::fmt::Write::write_str") if c.bb in {x.bb for x in w.slice([0]).calls}]
        ok = ok and bool(inner) and all(any(x.bb == r.bb for r in rep for x in w.slice_args(c, [1]).calls) for c in inner)
        ctx.check(ok, rule, "rewriter-replaces-tabs", w.name, K.fn_loc(w), "TabRewriter::write_str forwards s.replace('\\t', \" \".repeat(width))",
                  "TabRewriter does not replace tabs in what it forwards", cfg)
    # write_char / write_fmt defaults route through write_str (trait defaults): no override that bypasses
    over = [n for n in crate.bodies if n.startswith("<style::TabRewriter<'_> as std::fmt::Write>::") and not n.endswith("::write_str")]
    ctx.check(not over, rule, "no-bypass-overrides", "style::TabRewriter", "src/style.rs", "TabRewriter overrides only write_str (write_char/write_fmt defaults go through it)",
              "TabRewriter overrides %s which may bypass the rewriting" % over, cfg)


def rule_getters(ctx, crate, rule="R-TES-GETTERS"):
    cfg = crate.config
    for fn, field in (("progress_bar::ProgressBar::message", "message"), ("progress_bar::ProgressBar::prefix", "prefix")):
        b = K.find_one(ctx, crate, rule, re.escape(fn))
        if not b:
            continue
        sl = b.slice([0])
        exp = [c for c in sl.calls if c.matches(TES_EXP)]
        ok = bool(exp) and all(b.slice_args(c, [0], through_calls=False).has_field(field, "state::ProgressState") for c in exp)
        ctx.check(ok, rule, "%s()" % field, b.name, K.fn_loc(b), "%s() returns %s.expanded()" % (field, field), "%s() does not return the expanded %s" % (field, field), cfg)
    # renderer: msg / prefix / literals go through expanded()
    b = crate.body("style::ProgressStyle::format_state")
    if b:
        n = len(b.calls(TES_EXP))
        ctx.floor(rule, n, 3, cfg, "expanded() uses in format_state")
    e = crate.find(r"style::WideElement::<'_>::expand")
    if e:
        ctx.floor(rule, len(e[0].calls(TES_EXP)), 1, cfg, "expanded() uses in WideElement::expand")


def rule_tab_sources_covered(ctx, crate, rule="R-TAB-SOURCES-COVERED"):
    """"No TAB character ever reaches the terminal inside a bar line": besides the four kinds of text the statement lists, a line is
    built from two style tables the user fills with arbitrary strings - the tick strings and the progress characters.
      (a) in `format_state` no string is appended raw: every `push_str` into the placeholder buffer or the line takes its text
          from `TabExpandedString::expanded()` (message, prefix, literals) or from the buffer itself; everything else (custom keys,
          tick strings) goes through `TabRewriter`;
      (b) the progress characters cannot hold a tab: every function that stores `progress_chars` from an argument filters '\t'
          out of it first (a tab is no cell of a bar: `format_bar` writes the clusters as they are, and their width is what the
          geometry is computed from)."""
    cfg = crate.config
    F = K.find_one(ctx, crate, rule, r"style::ProgressStyle::format_state")
    n = 0
    if F:
        for k, c in enumerate(F.calls(r"std::string::String::push_str")):
            if len(c.args) < 2:
                continue
            n += 1
            a = c.args[1]
            l = operand_local(a) if a.get("k") != "const" else None
            origins = {tl for tl, tp in F.ref_origins().get(l, ())} if l is not None else set()
            from_string = any(F.locals[o]["ty"] == "std::string::String" for o in origins)
            sl = F.slice_args(c, [1], through_calls=False)
            ok = a.get("k") == "const" or from_string or sl.has_call(r"state::TabExpandedString::expanded")
            what = "tick string" if F.slice_args(c, [1]).has_call(r"style::ProgressStyle::(current_tick_str|get_tick_str|get_final_tick_str)") else "text"
            ctx.check(ok, rule, "no-raw-push#%d" % k, F.name, c.loc(),
                      "text appended to a bar line is tab-expanded (TabExpandedString::expanded) or already in the buffer",
                      "format_state appends a %s to the line as it is: a tab in it reaches the terminal unexpanded (`tick_strings(&[\"a\\tb\", ..])` with {spinner})" % what, cfg)
    PSTY = "style::ProgressStyle"
    for b in K.lib_bodies(crate):
        if b.kind == "Closure" or ((b.impl or {}).get("trait") or "").startswith("std::clone::Clone"):
            continue
        for i, j, s in b.assigns():
            fs = place_fields(s["lhs"])
            if not fs or fs[-1][0] != PSTY or fs[-1][2] != "progress_chars":
                continue
            sl = b.slice_rv(i, s)
            if not sl.params():
                continue            # installed from a literal
            n += 1
            filt = any(c.matches(r"(std|core|alloc)::str::<impl str>::(replace|replacen)") and len(c.args) > 1 and c.args[1].get("k") == "const" and c.args[1].get("v") == "\t" for c in sl.calls)
            ctx.check(filt, rule, "progress-chars-no-tab:%s" % K.meth(b.name), b.name, "%s:%d" % (b.file, s.get("line", 0)),
                      "tabs are filtered out of the progress characters when they are installed",
                      "%s installs progress characters that may contain a tab: format_bar writes the clusters as they are, so `progress_chars(\"#\\t-\")` sends a TAB to the terminal" % K.meth(b.name), cfg)
    ctx.floor(rule, n, 4, cfg, "raw appends in format_state + progress_chars installers")
