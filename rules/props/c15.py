"""C15 — human-readable formatters are total (totality clause only)."""
from .. import common as K
from .. import ledger as Lg

EXPLANATION = ("Decides totality only: no unaudited panic edge is reachable from the seven Display impls of format.rs "
               "(arithmetic asserts with overflow checks forced on, indexing, Duration operators, unwraps).")
UNDECIDED = "Digit grouping, rounding rule, unit switching and monotonicity are string/number equalities over the input domain; not decided."

ENTRIES = [r"<format::\w+ as std::fmt::Display>::fmt"]


def run(ctx, crate):
    K.rule_no_unsafe(ctx, crate)
    edges, sc = Lg.run_ledger(ctx, crate, "C15", "R-FORMAT-TOTAL", ENTRIES, floor_edges=10)
    ctx.floor("R-FORMAT-TOTAL", len(sc), 7, crate.config, "Display impls in format.rs")
