"""C15 — human-readable formatters are total (totality clause only)."""
from .. import common as K
from .. import ledger as Lg

EXPLANATION = ("Decides totality only: no unaudited panic edge is reachable from the seven Display impls of format.rs "
               "(arithmetic asserts with overflow checks forced on, indexing, Duration operators, unwraps). One structural faithfulness clause: "
               "HumanCount takes its digits from u64's own decimal formatting with no float detour.")
UNDECIDED = "Digit grouping, rounding rule, unit switching and monotonicity are string/number equalities over the input domain; not decided."

ENTRIES = [r"<format::\w+ as std::fmt::Display>::fmt"]


def run(ctx, crate):
    K.rule_no_unsafe(ctx, crate)
    edges, sc = Lg.run_ledger(ctx, crate, "C15", "R-FORMAT-TOTAL", ENTRIES, floor_edges=10)
    ctx.floor("R-FORMAT-TOTAL", len(sc), 7, crate.config, "Display impls in format.rs")
    rule_count_exact(ctx, crate)


def rule_count_exact(ctx, crate, rule="R-COUNT-EXACT"):
    """Necessary condition of "HumanCount prints the standard decimal representation of every u64": its digits come
    from an integer-to-string conversion; the value is never converted to a float on the way (f64 cannot represent
    every u64 above 2^53)."""
    cfg = crate.config
    b = K.find_one(ctx, crate, rule, r"<format::HumanCount as std::fmt::Display>::fmt")
    if not b:
        return
    casts = []
    for i, j, s in b.assigns():
        rv = s["rv"]
        if rv["k"] == "cast" and "IntToFloat" in rv.get("ck", "") and b.slice_rv(i, s).has_field("0", "format::HumanCount"):
            casts.append(s)
    ctx.check(not casts, rule, "no-float-detour", b.name, "%s:%d" % (b.file, casts[0].get("line", 0)) if casts else K.fn_loc(b),
              "the count is never converted to a float", "the u64 count is converted to a float before formatting (inexact above 2^53)", cfg)
    tos = [c for c in b.calls(r"std::string::ToString::to_string", r"core::fmt::rt::Argument::<'_>::new_display") if (c.callee.get("targs") or [""])[0].replace("&", "") == "u64"]
    ctx.check(bool(tos), rule, "integer-digits", b.name, K.fn_loc(b), "the digits come from u64's own decimal formatting",
              "the digits do not come from u64's decimal formatting", cfg)
