"""C15 — human-readable formatters are total (totality clause only)."""
from .. import common as K
from .. import ledger as Lg
from ..facts import operand_local, const_val

EXPLANATION = ("Decides totality only: no unaudited panic edge is reachable from the seven Display impls of format.rs "
               "(arithmetic asserts with overflow checks forced on, indexing, Duration operators, unwraps). One structural faithfulness clause: "
               "HumanCount takes its digits from u64's own decimal formatting with no float detour.")
UNDECIDED = "Digit grouping, rounding rule, unit switching and monotonicity are string/number equalities over the input domain; not decided."

ENTRIES = [r"<format::\w+ as std::fmt::Display>::fmt"]


def run(ctx, crate):
    K.rule_no_unsafe(ctx, crate)
    edges, sc = Lg.run_ledger(ctx, crate, "C15", "R-FORMAT-TOTAL", ENTRIES, floor_edges=10)
    ctx.floor("R-FORMAT-TOTAL", len(sc), 7, crate.config, "Display impls in format.rs")
    rule_count_exact(ctx, crate)
    rule_int_digits_untrimmed(ctx, crate)
    rule_bytes_unit_delegated(ctx, crate)


def rule_count_exact(ctx, crate, rule="R-COUNT-EXACT"):
    """Necessary condition of "HumanCount prints the standard decimal representation of every u64": its digits come
    from an integer-to-string conversion; the value is never converted to a float on the way (f64 cannot represent
    every u64 above 2^53)."""
    cfg = crate.config
    b = K.find_one(ctx, crate, rule, r"<format::HumanCount as std::fmt::Display>::fmt")
    if not b:
        return
    casts = []
    for i, j, s in b.assigns():
        rv = s["rv"]
        if rv["k"] == "cast" and "IntToFloat" in rv.get("ck", "") and b.slice_rv(i, s).has_field("0", "format::HumanCount"):
            casts.append(s)
    ctx.check(not casts, rule, "no-float-detour", b.name, "%s:%d" % (b.file, casts[0].get("line", 0)) if casts else K.fn_loc(b),
              "the count is never converted to a float", "the u64 count is converted to a float before formatting (inexact above 2^53)", cfg)
    tos = [c for c in b.calls(r"std::string::ToString::to_string", r"core::fmt::rt::Argument::<'_>::new_display") if (c.callee.get("targs") or [""])[0].replace("&", "") == "u64"]
    ctx.check(bool(tos), rule, "integer-digits", b.name, K.fn_loc(b), "the digits come from u64's own decimal formatting",
              "the digits do not come from u64's decimal formatting", cfg)


LOSSY_STR = (r"core::str::<impl str>::(trim|trim_end|trim_start|trim_matches|trim_end_matches|trim_start_matches|strip_suffix|strip_prefix|"
             r"replace|replacen|rsplit_once|rsplit|get|split_at)", r"std::string::String::(truncate|pop|remove|drain|split_off|retain)")


def rule_int_digits_untrimmed(ctx, crate, rule="R-COUNT-EXACT"):
    """Necessary condition of "HumanCount / HumanFloatCount print the standard decimal representation ... with a comma after
    every third integer digit": the string whose characters are written with the grouping commas (the integer digits)
    does not pass through an operation that can remove characters (trim*, strip*, replace, truncate ...). Removing
    trailing zeros is for the fractional part only."""
    cfg = crate.config
    n = 0
    for pat in (r"<format::HumanFloatCount as std::fmt::Display>::fmt", r"<format::HumanCount as std::fmt::Display>::fmt"):
        b = K.find_one(ctx, crate, rule, pat)
        if not b:
            continue
        for c in b.calls(r"core::str::<impl str>::chars"):
            # the chars() feeding the loop that writes ','
            if not any(b.in_loop(w.bb) and "," in [str(x) for x in b.slice_args(w).consts()] for w in b.calls(r"std::fmt::Write::write_char", r"std::fmt::Formatter::<'a>::write_char", r"std::fmt::Formatter::<'a>::write_str", r"std::fmt::Write::write_str")):
                continue
            n += 1
            sl = b.slice_args(c, [0])
            lossy = sorted({x.path for x in sl.calls if x.matches(*LOSSY_STR)})
            ctx.check(not lossy, rule, "integer-digits-untrimmed:%s" % b.name.split("::")[1].split(" ")[0], b.name, c.loc(),
                      "the grouped integer digits are the formatted digits, with nothing removed",
                      "the integer digits pass through %s before grouping: significant digits (e.g. trailing zeros of 1200) can be removed" % lossy, cfg)
    ctx.floor(rule, n, 2, cfg, "digit-grouping loops (HumanCount, HumanFloatCount)")


def rule_bytes_unit_delegated(ctx, crate, rule="R-BYTES-UNIT-DELEGATED"):
    """"HumanBytes, BinaryBytes and DecimalBytes print value and unit with the largest fitting prefix": the choice of the unit
    is made by `NumberPrefix::binary` (1024-based) for HumanBytes/BinaryBytes and by `NumberPrefix::decimal` (1000-based) for
    DecimalBytes, and by nothing else: the byte count itself is never compared with a constant in these formatters (a
    private helper shared by them is inlined before this check, so a threshold hidden in it is seen here)."""
    cfg = crate.config
    want = {"HumanBytes": "binary", "BinaryBytes": "binary", "DecimalBytes": "decimal"}
    n = 0
    for ty, ctor in sorted(want.items()):
        b = K.find_one(ctx, crate, rule, r"<format::%s as std::fmt::Display>::fmt" % ty)
        if not b:
            continue
        n += 1
        direct = b.calls(r"number_prefix::NumberPrefix::<\\w+>::%s" % ctor, r"number_prefix::NumberPrefix::<.*>::%s" % ctor)
        other = b.calls(r"number_prefix::NumberPrefix::<.*>::%s" % ("decimal" if ctor == "binary" else "binary"))
        fnptr = wrongptr = False
        for blk in b.blocks:
            for o in _consts_of(blk):
                f = o.get("fn") or ""
                if f.startswith("number_prefix::NumberPrefix") and f.endswith("::" + ctor):
                    fnptr = True
                if f.startswith("number_prefix::NumberPrefix") and f.endswith("::" + ("decimal" if ctor == "binary" else "binary")):
                    wrongptr = True
        # delegation to a sibling wrapper with the same base, built from the same count
        deleg = False
        for sib, sc in want.items():
            if sib != ty and sc == ctor:
                for c in b.calls(r"<format::%s as std::fmt::Display>::fmt" % sib):
                    sl = b.slice_args(c, [0])
                    if sl.has_field("0", "format::" + ty) and any(a[0] == "agg" and a[1] == "format::" + sib for a in sl.atoms):
                        deleg = True
        ctx.check((bool(direct) or fnptr or deleg) and not other and not wrongptr, rule, "prefix-base:%s" % ty, b.name, K.fn_loc(b),
                  "%s chooses its unit with NumberPrefix::%s" % (ty, ctor), "%s does not (only) use NumberPrefix::%s to choose its unit" % (ty, ctor), cfg)
        cmps = []
        for sb, t in b.switches():
            l = operand_local(t["op"])
            for d in b.defs().get(l, ()) if l is not None else ():
                if d["kind"] == "assign" and d["rv"]["k"] == "bin" and d["rv"]["op"] in ("Lt", "Le", "Gt", "Ge", "Eq", "Ne"):
                    for side, oth in ((d["rv"]["a"], d["rv"]["b"]), (d["rv"]["b"], d["rv"]["a"])):
                        if b.slice(side, at=sb, through_calls=False).has_field("0", "format::" + ty) and isinstance(const_val(oth), (int, float, str)):
                            base = 1000 if ctor == "decimal" else 1024
                            own_boundary = d["rv"]["op"] in ("Lt", "Ge") and side is d["rv"]["a"] and str(const_val(oth)) in (str(base), str(float(base)))
                            if not own_boundary:       # `bytes < base` is the unit's own first boundary (a harmless fast path)
                                cmps.append((t.get("line", 0), const_val(oth)))
        ctx.check(not cmps, rule, "no-own-threshold:%s" % ty, b.name, K.fn_loc(b), "the byte count is not compared with a constant of the formatter's own",
                  "%s compares the byte count with the constant %s itself: a unit boundary other than the %s one decides the output" % (
                      ty, cmps[0][1] if cmps else "", "1000-based" if ctor == "decimal" else "1024-based"), cfg)
    ctx.floor(rule, n, 3, cfg, "byte formatters")


def _consts_of(x):
    if isinstance(x, dict):
        if x.get("k") == "const":
            yield x
        for v in x.values():
            yield from _consts_of(v)
    elif isinstance(x, list):
        for v in x:
            yield from _consts_of(v)
