"""C15 — human-readable formatters are total (totality clause only)."""
import re
from .. import common as K
from .. import ledger as Lg
from ..facts import operand_local, const_val

EXPLANATION = ("Decides totality only: no unaudited panic edge is reachable from the seven Display impls of format.rs "
               "(arithmetic asserts with overflow checks forced on, indexing, Duration operators, unwraps). One structural faithfulness clause: "
               "HumanCount takes its digits from u64's own decimal formatting with no float detour.")
UNDECIDED = "Digit grouping, rounding rule, unit switching and monotonicity are string/number equalities over the input domain; not decided."

ENTRIES = [r"<format::\w+ as std::fmt::Display>::fmt"]


def run(ctx, crate):
    K.rule_no_unsafe(ctx, crate)
    edges, sc = Lg.run_ledger(ctx, crate, "C15", "R-FORMAT-TOTAL", ENTRIES, floor_edges=10)
    ctx.floor("R-FORMAT-TOTAL", len(sc), 7, crate.config, "Display impls in format.rs")
    rule_count_exact(ctx, crate)
    rule_int_digits_untrimmed(ctx, crate)
    rule_bytes_unit_delegated(ctx, crate)
    rule_duration_fields(ctx, crate)
    rule_human_duration_forms_agree(ctx, crate)
    rule_floatcount_one_source(ctx, crate)
    rule_hduration_exact_quotient(ctx, crate)
    rule_display_no_own_error(ctx, crate)
    rule_digits_only_grouped(ctx, crate)
    rule_group_length_of_iterated(ctx, crate)


def rule_digits_only_grouped(ctx, crate, rule="R-DIGITS-ONLY-GROUPED"):
    """"a comma after every third integer digit": the integer digits of HumanCount / HumanFloatCount reach the formatter only
    through the grouping loop (character by character). A `write_str` that hands a run of digits to the formatter wholesale
    skips the grouping; that is right only when the run is known to be short *as a string* (a test of its `len()`), not when a
    shortcut is keyed on the numeric value: the digits are those of the rounded representation, and rounding can carry 999.99996
    to "1000" (seed C15k). What may be written wholesale: constants, and the fraction (the part run through `trim_end_matches`)."""
    cfg = crate.config
    n = 0
    for pat in (r"<format::HumanFloatCount as std::fmt::Display>::fmt", r"<format::HumanCount as std::fmt::Display>::fmt"):
        b = crate.body(pat)
        if not b:
            continue
        for c in b.calls(r"std::fmt::Formatter::<'\w+>::write_str", r"<std::fmt::Formatter<'\w+> as std::fmt::Write>::write_str", r"std::fmt::Write::write_str"):
            if len(c.args) < 2 or c.args[1].get("k") == "const":
                continue
            sl = b.slice_args(c, [1])
            if sl.has_call(r"core::str::<impl str>::trim_end_matches") or not (sl.calls or sl.params()):
                continue
            n += 1
            short = False
            for sb, t in b.switches():
                if any(b.edge_dominates((sb, x), c.bb) for x in b.succ(sb)):
                    ssl = b.slice_switch(sb)
                    if ssl.has_call(r"core::str::<impl str>::len", r"std::string::String::len") and not [l for l in ssl.locals if b.locals[l]["ty"] in ("f64", "f32")]:
                        short = True
            ctx.check(short, rule, "wholesale-digits:%s" % K.meth(K.owner_fn(crate, b)), b.name, c.loc(),
                      "digits handed to the formatter as a whole string are known to be at most three (a test of the string's length)",
                      "a run of integer digits is written without grouping under a condition that is not the length of that run (a shortcut on the numeric value): "
                      "the digits are those of the *rounded* representation - 999.99996 prints `1000` instead of `1,000`", cfg)
    ctx.check(True, rule, "scanned", "format.rs", "src/format.rs:0", "%d wholesale digit writes examined" % n, "", cfg)


def rule_group_length_of_iterated(ctx, crate, rule="R-GROUP-LENGTH-OF-DIGITS"):
    """"a comma after every third integer digit": the comma positions are counted from the end of the digit string, so the length
    they are computed from is the length of the very string whose characters are written - not of a string that still carries the
    sign (seed C15n: `-123` prints `-1,23`), a fraction or anything else."""
    cfg = crate.config
    n = 0
    for pat in (r"<format::HumanFloatCount as std::fmt::Display>::fmt", r"<format::HumanCount as std::fmt::Display>::fmt"):
        b = crate.body(pat)
        if not b:
            continue
        chars = [c for c in b.calls(r"core::str::<impl str>::(chars|bytes|char_indices)")]
        lens = [c for c in b.calls(r"core::str::<impl str>::len", r"std::string::String::len")]
        if not chars or not lens:
            continue

        def roots(c):
            """The named variable whose text the call reads: back from the receiver through unnamed single-definition temporaries
            (reborrows, copies, the implicit `String -> str` deref)."""
            l = operand_local(c.args[0])
            for _ in range(12):
                if l is None:
                    return set()
                if b.locals[l].get("name") or l <= b.arg_count:
                    return {l}
                ds = [d for d in b.defs().get(l, ()) if d["kind"] in ("assign", "call")]
                if len(ds) != 1:
                    return {l}
                d = ds[0]
                if d["kind"] == "assign" and not d["lhs"]["p"]:
                    rv = d["rv"]
                    if rv["k"] in ("use", "cast") and isinstance(rv.get("op"), dict) and rv["op"].get("k") in ("copy", "move") and not [e for e in rv["op"]["place"]["p"] if e != "*"]:
                        l = rv["op"]["place"]["l"]
                        continue
                    if rv["k"] in ("ref", "copyderef") and not [e for e in rv["place"]["p"] if e != "*"]:
                        l = rv["place"]["l"]
                        continue
                elif d["kind"] == "call" and d["call"].matches(r"<std::string::String as std::ops::Deref>::deref", r"std::ops::Deref::deref") and d["call"].args:
                    l = operand_local(d["call"].args[0])
                    continue
                return {l}
            return {l}
        croots = set()
        for c in chars:
            croots |= roots(c)
        for L in lens:
            # only lengths that position the separators: they feed a subtraction / a range / a remainder by 3
            used = False
            for i, j, st in b.assigns():
                rv = st["rv"]
                if rv["k"] == "bin" and rv["op"] in ("Sub", "SubWithOverflow", "Rem") and L.dest["l"] in b.slice_rv(i, st, through_calls=False).locals | {operand_local(rv["a"]), operand_local(rv["b"])}:
                    used = True
            for i, j, st in b.assigns():
                if st["rv"]["k"] == "agg" and st["rv"].get("adt") in ("std::ops::Range", "core::ops::Range") and L.dest["l"] in b.slice_rv(i, st, through_calls=False).locals:
                    used = True
            if not used:
                continue
            n += 1
            ctx.check(bool(roots(L) & croots), rule, "len-of-iterated:%s" % ("float" if "Float" in pat else "count"), b.name, L.loc(),
                      "the separators are positioned with the length of the digit string that is written",
                      "the comma positions are computed from the length of a different string than the digits that are written (one that still has the sign, say): "
                      "negative values are grouped one place off (`-123` prints `-1,23`)", cfg)
    ctx.floor(rule, n, 2, cfg, "digit-string lengths that position separators")


def rule_display_no_own_error(ctx, crate, rule="R-DISPLAY-NO-OWN-ERROR"):
    """`fmt::Error` means "the underlying writer failed", never "this value cannot be formatted": `to_string()`, `format!` and the
    template renderer (`write_fmt(..).unwrap()` into a String, audited in the panic ledger as "writing into a String cannot fail")
    all panic on an `Err` that did not come from the writer. So no library code *creates* a `fmt::Error` value - errors of the
    formatter are only propagated (seed C14k: HumanFloatCount returned `fmt::Error` for a rate above u64::MAX and `{per_sec}`
    panicked inside a draw)."""
    cfg = crate.config
    n = 0
    for b in K.lib_bodies(crate):
        fmtish = "std::fmt::Error" in json_tys(b)
        if not fmtish:
            continue
        n += 1
        made = []
        for i, j, st in b.assigns():
            rv = st["rv"]
            if rv["k"] == "agg" and rv.get("ak") == "adt" and rv.get("adt") in ("std::fmt::Error", "core::fmt::Error"):
                made.append(st.get("line", 0))
            for o in ([rv.get("op")] if rv.get("op") else []) + list(rv.get("ops") or []) + [rv.get("a"), rv.get("b")]:
                if isinstance(o, dict) and o.get("k") == "const" and o.get("ty") in ("std::fmt::Error", "core::fmt::Error"):
                    made.append(st.get("line", 0))
        for c in b.calls():
            for a in c.args:
                if isinstance(a, dict) and a.get("k") == "const" and a.get("ty") in ("std::fmt::Error", "core::fmt::Error"):
                    made.append(c.line)
        ctx.check(not made, rule, "creates-fmt-error", b.name, "%s:%d" % (b.file, made[0] if made else 0),
                  "fmt::Error values are only propagated from the formatter",
                  "%s creates a fmt::Error of its own: Display::to_string()/format! and the template renderer's `write_fmt(..).unwrap()` panic when an impl "
                  "reports an error the writer did not cause" % b.name, cfg)
    ctx.floor(rule, n, 8, cfg, "bodies handling fmt::Error")


def json_tys(b):
    return {l["ty"] for l in b.locals} | {t for l in b.locals for t in re.findall(r"std::fmt::Error", l["ty"])}


def rule_count_exact(ctx, crate, rule="R-COUNT-EXACT"):
    """Necessary condition of "HumanCount prints the standard decimal representation of every u64": its digits come
    from an integer-to-string conversion; the value is never converted to a float on the way (f64 cannot represent
    every u64 above 2^53)."""
    cfg = crate.config
    b = K.find_one(ctx, crate, rule, r"<format::HumanCount as std::fmt::Display>::fmt")
    if not b:
        return
    casts = []
    for i, j, s in b.assigns():
        rv = s["rv"]
        if rv["k"] == "cast" and "IntToFloat" in rv.get("ck", "") and b.slice_rv(i, s).has_field("0", "format::HumanCount"):
            casts.append(s)
    ctx.check(not casts, rule, "no-float-detour", b.name, "%s:%d" % (b.file, casts[0].get("line", 0)) if casts else K.fn_loc(b),
              "the count is never converted to a float", "the u64 count is converted to a float before formatting (inexact above 2^53)", cfg)
    tos = [c for c in b.calls(r"std::string::ToString::to_string", r"core::fmt::rt::Argument::<'_>::new_display") if (c.callee.get("targs") or [""])[0].replace("&", "") == "u64"]
    ctx.check(bool(tos), rule, "integer-digits", b.name, K.fn_loc(b), "the digits come from u64's own decimal formatting",
              "the digits do not come from u64's decimal formatting", cfg)


LOSSY_STR = (r"core::str::<impl str>::(trim|trim_end|trim_start|trim_matches|trim_end_matches|trim_start_matches|strip_suffix|strip_prefix|"
             r"replace|replacen|rsplit_once|rsplit|get|split_at)", r"std::string::String::(truncate|pop|remove|drain|split_off|retain)")


def rule_int_digits_untrimmed(ctx, crate, rule="R-COUNT-EXACT"):
    """Necessary condition of "HumanCount / HumanFloatCount print the standard decimal representation ... with a comma after
    every third integer digit": the string whose characters are written with the grouping commas (the integer digits)
    does not pass through an operation that can remove characters (trim*, strip*, replace, truncate ...). Removing
    trailing zeros is for the fractional part only."""
    cfg = crate.config
    n = 0
    for pat in (r"<format::HumanFloatCount as std::fmt::Display>::fmt", r"<format::HumanCount as std::fmt::Display>::fmt"):
        b = K.find_one(ctx, crate, rule, pat)
        if not b:
            continue
        for c in b.calls(r"core::str::<impl str>::chars"):
            # the chars() feeding the loop that writes ','
            if not any(b.in_loop(w.bb) and "," in [str(x) for x in b.slice_args(w).consts()] for w in b.calls(r"std::fmt::Write::write_char", r"std::fmt::Formatter::<'a>::write_char", r"std::fmt::Formatter::<'a>::write_str", r"std::fmt::Write::write_str")):
                continue
            n += 1
            sl = b.slice_args(c, [0])
            # (taking the sign off - `strip_prefix('-')` - removes no digit: the sign is written separately, see `sign-not-grouped`)
            def sign_only(x):
                return K.meth(x.path) in ("strip_prefix", "trim_start_matches") and len(x.args) > 1 and x.args[1].get("k") == "const" and x.args[1].get("v") in ("-", "+")
            lossy = sorted({x.path for x in sl.calls if x.matches(*LOSSY_STR) and not sign_only(x)})
            if "HumanFloatCount" in b.name:
                signed = any(sign_only(x) for x in sl.calls)
                ctx.check(signed, rule, "sign-not-grouped:HumanFloatCount", b.name, c.loc(),
                          "the sign of a negative value is taken off before the digits are grouped",
                          "a leading '-' is counted as a digit by the grouping loop: HumanFloatCount(-123.0) prints \"-,123\" (a comma after the sign whenever the number of integer digits is a multiple of 3)", cfg)
            ctx.check(not lossy, rule, "integer-digits-untrimmed:%s" % b.name.split("::")[1].split(" ")[0], b.name, c.loc(),
                      "the grouped integer digits are the formatted digits, with nothing removed",
                      "the integer digits pass through %s before grouping: significant digits (e.g. trailing zeros of 1200) can be removed" % lossy, cfg)
    ctx.floor(rule, n, 2, cfg, "digit-grouping loops (HumanCount, HumanFloatCount)")


def rule_bytes_unit_delegated(ctx, crate, rule="R-BYTES-UNIT-DELEGATED"):
    """"HumanBytes, BinaryBytes and DecimalBytes print value and unit with the largest fitting prefix": the choice of the unit
    is made by `NumberPrefix::binary` (1024-based) for HumanBytes/BinaryBytes and by `NumberPrefix::decimal` (1000-based) for
    DecimalBytes, and by nothing else: the byte count itself is never compared with a constant in these formatters (a
    private helper shared by them is inlined before this check, so a threshold hidden in it is seen here)."""
    cfg = crate.config
    want = {"HumanBytes": "binary", "BinaryBytes": "binary", "DecimalBytes": "decimal"}
    n = 0
    for ty, ctor in sorted(want.items()):
        b = K.find_one(ctx, crate, rule, r"<format::%s as std::fmt::Display>::fmt" % ty)
        if not b:
            continue
        n += 1
        direct = b.calls(r"number_prefix::NumberPrefix::<\\w+>::%s" % ctor, r"number_prefix::NumberPrefix::<.*>::%s" % ctor)
        other = b.calls(r"number_prefix::NumberPrefix::<.*>::%s" % ("decimal" if ctor == "binary" else "binary"))
        fnptr = wrongptr = False
        for blk in b.blocks:
            for o in _consts_of(blk):
                f = o.get("fn") or ""
                if f.startswith("number_prefix::NumberPrefix") and f.endswith("::" + ctor):
                    fnptr = True
                if f.startswith("number_prefix::NumberPrefix") and f.endswith("::" + ("decimal" if ctor == "binary" else "binary")):
                    wrongptr = True
        # delegation to a sibling wrapper with the same base, built from the same count
        deleg = False
        for sib, sc in want.items():
            if sib != ty and sc == ctor:
                for c in b.calls(r"<format::%s as std::fmt::Display>::fmt" % sib):
                    sl = b.slice_args(c, [0])
                    if sl.has_field("0", "format::" + ty) and any(a[0] == "agg" and a[1] == "format::" + sib for a in sl.atoms):
                        deleg = True
        ctx.check((bool(direct) or fnptr or deleg) and not other and not wrongptr, rule, "prefix-base:%s" % ty, b.name, K.fn_loc(b),
                  "%s chooses its unit with NumberPrefix::%s" % (ty, ctor), "%s does not (only) use NumberPrefix::%s to choose its unit" % (ty, ctor), cfg)
        cmps = []
        for sb, t in b.switches():
            l = operand_local(t["op"])
            for d in b.defs().get(l, ()) if l is not None else ():
                if d["kind"] == "assign" and d["rv"]["k"] == "bin" and d["rv"]["op"] in ("Lt", "Le", "Gt", "Ge", "Eq", "Ne"):
                    for side, oth in ((d["rv"]["a"], d["rv"]["b"]), (d["rv"]["b"], d["rv"]["a"])):
                        if b.slice(side, at=sb, through_calls=False).has_field("0", "format::" + ty) and isinstance(const_val(oth), (int, float, str)):
                            base = 1000 if ctor == "decimal" else 1024
                            own_boundary = d["rv"]["op"] in ("Lt", "Ge") and side is d["rv"]["a"] and str(const_val(oth)) in (str(base), str(float(base)))
                            if not own_boundary:       # `bytes < base` is the unit's own first boundary (a harmless fast path)
                                cmps.append((t.get("line", 0), const_val(oth)))
        ctx.check(not cmps, rule, "no-own-threshold:%s" % ty, b.name, K.fn_loc(b), "the byte count is not compared with a constant of the formatter's own",
                  "%s compares the byte count with the constant %s itself: a unit boundary other than the %s one decides the output" % (
                      ty, cmps[0][1] if cmps else "", "1000-based" if ctor == "decimal" else "1024-based"), cfg)
    ctx.floor(rule, n, 3, cfg, "byte formatters")


def _consts_of(x):
    if isinstance(x, dict):
        if x.get("k") == "const":
            yield x
        for v in x.values():
            yield from _consts_of(v)
    elif isinstance(x, list):
        for v in x:
            yield from _consts_of(v)


INT_BITS = {"u8": 8, "u16": 16, "u32": 32, "u64": 64, "u128": 128, "usize": 64, "i8": 7, "i16": 15, "i32": 31, "i64": 63, "i128": 127, "isize": 63}
FIELDS = {"days": (86400, None), "hours": (3600, 24), "minutes": (60, 60), "seconds": (1, 60)}


def _const_secs(e):
    """Whole seconds of a constant Duration expression (`DAY`, `&DAY`), from the bytes the driver recorded."""
    import json
    if e[0] != "const" or not e[2]:
        return None
    o = json.loads(e[2])
    hx = o.get("ref_hex") or o.get("hex")
    if not hx or "Duration" not in o.get("ty", "") or len(hx) < 16:
        return None
    return int.from_bytes(bytes.fromhex(hx[:16]), "little")      # field 0 (secs: u64) is at offset 0 (driver: foff)


def _norm(e, depth=0):
    """(`S`, a, b) for (whole_seconds div a) mod b (b None = no modulus), ('k', n) for a constant, None otherwise."""
    if depth > 40 or not isinstance(e, tuple):
        return None
    if e[0] == "const":
        return ("k", e[1]) if isinstance(e[1], int) and not isinstance(e[1], bool) else None
    if e[0] == "call" and e[1] == "std::time::Duration::as_secs" and len(e[2]) == 1:
        a = e[2][0]
        if a[0] == "ref" and a[1] == 1 and a[2] in ('["*", {"adt": "format::FormattedDuration", "f": 0, "fty": "std::time::Duration", "n": "0", "v": "FormattedDuration"}]',):
            return ("S", 1, None)
        if a[0] == "ref" and a[1] == 1:
            import json
            pr = json.loads(a[2])
            if len(pr) == 2 and pr[0] == "*" and isinstance(pr[1], dict) and pr[1].get("f") == 0 and pr[1].get("adt") == "format::FormattedDuration":
                return ("S", 1, None)
        k = _const_secs(a)
        return ("k", k) if k is not None else None
    if e[0] == "cast":
        n = _norm(e[1], depth + 1)
        bits = INT_BITS.get(e[2])
        if n is None or bits is None:
            return None
        if n[0] == "k":
            return n if 0 <= n[1] < 2 ** bits else None
        # the value is below 2^64 (a u64 count of seconds), or below its modulus
        bound = n[2] if n[2] is not None else 2 ** 64 // n[1] + 1
        return n if bound <= 2 ** bits else None
    if e[0] == "bin" and e[1] in ("Div", "Rem"):
        x, k = _norm(e[2], depth + 1), _norm(e[3], depth + 1)
        if x is None or k is None or k[0] != "k" or k[1] <= 0:
            return None
        k = k[1]
        if x[0] == "k":
            return ("k", x[1] // k if e[1] == "Div" else x[1] % k)
        _, a, m = x
        if e[1] == "Div":
            if m is None:
                return ("S", a * k, None)
            return ("S", a * k, m // k) if m % k == 0 else None
        if m is None or m % k == 0:
            return ("S", a, k)
        return None
    if e[0] == "bin" and e[1] in ("Mul", "MulWithOverflow"):
        x, y = _norm(e[2], depth + 1), _norm(e[3], depth + 1)
        if x and y and x[0] == "k" and y[0] == "k":
            return ("k", x[1] * y[1])
    return None


def rule_duration_fields(ctx, crate, rule="R-DURATION-FIELDS"):
    """"FormattedDuration prints [Dd ]HH:MM:SS of the whole seconds": every number handed to the formatter is, as a value
    of the whole seconds S = self.0.as_secs(), one of S/86400, (S/3600)%24, (S/60)%60, S%60 (symbolic evaluation of the
    loop-free body in statement order, div/mod chains normalised to (S div a) mod b; a narrowing cast must be lossless for
    every u64), on every path they appear in the order [days,] hours, minutes, seconds, and the days are left out only on
    an edge where days == 0. The literal text between the numbers (`d `, `:`) and the zero padding are not decided."""
    from ..symval import SymExec
    cfg = crate.config
    b = K.find_one(ctx, crate, rule, r"<format::FormattedDuration as std::fmt::Display>::fmt")
    if not b:
        return
    sx = SymExec(b)
    if not sx.ok:
        ctx.bad(rule, "fields-established", b.name, K.fn_loc(b), "FormattedDuration::fmt has a loop: the displayed fields cannot be established", cfg)
        return
    inv = {v: k for k, v in FIELDS.items()}
    shown = {}          # bb of the Argument::new_* call -> field name | None
    for c in b.calls(r"core::fmt::rt::Argument::<'_>::new_\w+"):
        env = sx.env_at[c.bb]
        a = sx.op(env, c.args[0])
        val = sx.place(env, {"l": a[1], "p": __import__("json").loads(a[2])}) if a[0] == "ref" else a
        n = _norm(val)
        name = inv.get((n[1], n[2])) if n and n[0] == "S" else None
        shown[c.bb] = name
        ctx.check(name is not None, rule, "field-value#%d" % len(shown), b.name, c.loc(),
                  "the displayed number is the %s field of the whole seconds" % name,
                  "a displayed number is not one of S/86400, S/3600%%24, S/60%%60, S%%60 of the whole seconds S (value: %s)" % (str(n) if n else "not a div/mod chain of self.0.as_secs(), or a lossy cast"), cfg)
    ctx.floor(rule, len(shown), 3, cfg, "numbers handed to the formatter in FormattedDuration::fmt")
    # order on every path, and the guard of the short form
    err = set()
    for k in b.calls(K.TRY_BRANCH):
        te = K.try_edges(b, k)
        if te:
            err.add((te[0], te[2]))
    zero_edges = set()
    for sb, t in b.switches():
        env = sx.env_at[sb]
        v = sx.op(env, t["op"])
        zt = [tb for vv, tb in t["targets"] if vv == 0]
        if v[0] == "bin" and v[1] in ("Gt", "Ne", "Eq", "Ge", "Lt", "Le") and zt:
            x, y = _norm(v[2]), _norm(v[3])
            if x and y and x[0] == "S" and (x[1], x[2]) == FIELDS["days"] and y[0] == "k":
                if (v[1], y[1]) in (("Gt", 0), ("Ne", 0), ("Ge", 1)):
                    zero_edges.add((sb, zt[0]))
                elif (v[1], y[1]) in (("Eq", 0), ("Lt", 1), ("Le", 0)):
                    zero_edges.add((sb, t["otherwise"]))
        else:
            x = _norm(v)
            if x and x[0] == "S" and (x[1], x[2]) == FIELDS["days"] and zt:
                zero_edges.add((sb, zt[0]))
    paths = []

    def walk(x, seq, zero, seen):
        if len(paths) > 64:
            return
        if x in shown:
            seq = seq + [shown[x]]
        t = b.term(x)
        if t and t["k"] == "return":
            paths.append((seq, zero))
            return
        for s_ in b.succ(x):
            if (x, s_) in err or s_ in seen:
                continue
            walk(s_, seq, zero or (x, s_) in zero_edges, seen | {s_})
    walk(0, [], False, {0})
    ctx.floor(rule, len(paths), 1, cfg, "paths of FormattedDuration::fmt")
    for i, (seq, zero) in enumerate(paths):
        if None in seq:
            continue
        full, short = ["days", "hours", "minutes", "seconds"], ["hours", "minutes", "seconds"]
        ok = seq == full or (seq == short and zero)
        ctx.check(ok, rule, "field-order:%s" % ("+".join(x[0] for x in seq) or "none"), b.name, K.fn_loc(b),
                  "a path prints %s" % seq,
                  "a path prints %s%s: expected [days,] hours, minutes, seconds with the days left out only when they are zero" % (seq, "" if zero or seq != short else " without testing days == 0"), cfg)


def reaching_defs_at(b, local, site_bb):
    """Definitions of `local` (assignments and call results, as (bb, k) ids) that reach the *end* of block site_bb: classic
    forward dataflow with kills, one local."""
    gen = {}
    for bb in b.reachable():
        last = None
        for k, st in enumerate(b.stmts(bb)):
            if st.get("k") == "assign" and st["lhs"]["l"] == local and not st["lhs"]["p"]:
                last = (bb, k)
        t = b.term(bb)
        if t and t["k"] == "call" and t["dest"]["l"] == local and not t["dest"]["p"]:
            last = (bb, "call")
        if last:
            gen[bb] = last
    IN = {bb: set() for bb in b.reachable()}
    OUT = {bb: ({gen[bb]} if bb in gen else set()) for bb in b.reachable()}
    changed = True
    while changed:
        changed = False
        for bb in b.reachable():
            i = set()
            for p_ in b.pred(bb):
                if p_ in OUT:
                    i |= OUT[p_]
            o = {gen[bb]} if bb in gen else i
            if i != IN[bb] or o != OUT[bb]:
                IN[bb], OUT[bb] = i, o
                changed = True
    return OUT.get(site_bb, set())


def rule_human_duration_forms_agree(ctx, crate, rule="R-HDURATION-FORMS-AGREE"):
    """HumanDuration's rounding rule ("never '1 unit' above seconds", switch to the smaller unit just below 1.5 units) is
    stated for the value, not for one spelling of it: the short form `{:#}` (which the library itself uses for {elapsed},
    {eta}, {duration}) and the long form must print the same count. Necessary structural condition: every site that hands the
    count to the formatter is reached by the same set of definitions of it (reaching definitions with kills) - a form that
    returns before the `max(t, 2)` clamp prints the unclamped count."""
    cfg = crate.config
    b = K.find_one(ctx, crate, rule, r"<format::HumanDuration as std::fmt::Display>::fmt")
    if not b:
        return
    sites = []
    for c in b.calls(r"core::fmt::rt::Argument::<'_>::new_display"):
        ta = c.callee.get("targs") or []
        if not ta or ta[0] not in ("usize", "u64", "u128", "u32"):
            continue
        # the local the reference points to
        roots = {tl for tl, tp in b.ref_origins().get(operand_local(c.args[0]), ()) if not tp}
        l = operand_local(c.args[0])
        for _ in range(6):
            ds = [d for d in b.defs().get(l, ()) if d["kind"] == "assign"] if l is not None else []
            if len(ds) == 1 and ds[0]["rv"]["k"] in ("ref", "copyderef") and not [e for e in ds[0]["rv"]["place"]["p"] if e != "*"]:
                l = ds[0]["rv"]["place"]["l"]
            elif len(ds) == 1 and ds[0]["rv"]["k"] == "use" and operand_local(ds[0]["rv"]["op"]) is not None:
                pl_ = ds[0]["rv"]["op"]["place"]
                if pl_["p"] and isinstance(pl_["p"][0], dict) and isinstance(pl_["p"][0].get("f"), int):
                    # a component of the argument tuple built by format_args!
                    td = [d for d in b.defs().get(pl_["l"], ()) if d["kind"] == "assign" and d["rv"]["k"] == "agg"]
                    if len(td) == 1 and pl_["p"][0]["f"] < len(td[0]["rv"]["ops"]):
                        l = operand_local(td[0]["rv"]["ops"][pl_["p"][0]["f"]])
                        continue
                    break
                l = pl_["l"]
            else:
                break
        if l is not None and b.locals[l]["ty"] in ("usize", "u64", "u128", "u32") and len([d for d in b.defs().get(l, ()) if d["kind"] in ("assign", "call")]) >= 1:
            sites.append((c, l))
    ctx.floor(rule, len(sites), 2, cfg, "sites that hand the count to the formatter")
    if len(sites) < 2:
        return
    counts = {l for c, l in sites}
    if len(counts) != 1:
        ctx.bad(rule, "one-count", b.name, K.fn_loc(b), "the forms display different locals as the count (%d): they are computed separately" % len(counts), cfg)
        return
    t = next(iter(counts))
    rd = [(c, frozenset(reaching_defs_at(b, t, c.bb))) for c, l in sites]
    ref = rd[0][1]
    for k, (c, s_) in enumerate(rd):
        ctx.check(s_ == ref and bool(s_), rule, "same-count#%d" % k, b.name, c.loc(), "every form prints the count after the same adjustments",
                  "this form prints the count as defined at %s while another form prints it as defined at %s: the short ({:#}) and the long form disagree "
                  "(e.g. one of them skips the `max(t, 2)` clamp and prints \"1m\" where the other prints \"89 seconds\")" % (sorted(s_), sorted(ref)), cfg)
    clamp = [k for k in b.calls(r"std::cmp::Ord::max", r"core::num::<impl \w+>::max", r"std::cmp::max")
             if any(const_val(a) == 2 for a in k.args) and t in b.slice_args(k, through_calls=False).locals]
    ctx.check(bool(clamp), rule, "clamp-exists", b.name, K.fn_loc(b), "the count is clamped to at least 2 for units above seconds", "the `max(count, 2)` clamp is gone", cfg)


def rule_floatcount_one_source(ctx, crate, rule="R-FLOATCOUNT-ONE-SOURCE"):
    """HumanFloatCount prints the *rounded* fixed-precision representation: integer digits and fraction digits are the two
    halves of one formatted string (`format!("{:.*}", precision, value)` split at the dot). If the integer digits come from
    somewhere else (`value.trunc()`) the two halves disagree whenever rounding carries into the integer part (1999.99999 at
    precision 4 is "2000.0000": "1,999" + "" instead of "2,000"). Checked on the CFG specialised to `split_once('.') = Some`:
    the digits that are grouped derive from the split result and not from a truncation of the value."""
    cfg = crate.config
    b = K.find_one(ctx, crate, rule, r"<format::HumanFloatCount as std::fmt::Display>::fmt")
    if not b:
        return
    splits = b.calls(r"core::str::<impl str>::split_once", r"core::str::<impl str>::(split|splitn|find|rsplit_once)")
    ctx.floor(rule, len(splits), 1, cfg, "split of the formatted number at the decimal point")
    if not splits:
        return
    sp = splits[0]
    is_split = lambda pl: b.slice({"k": "copy", "place": {"l": pl["l"], "p": []}}, through_calls=False).has_call(r"core::str::<impl str>::split_once") or pl["l"] == sp.dest["l"]
    R = K.variant_reach(b, crate, "std::option::Option", "Some", is_split)
    groups = [c for c in b.calls(r"core::str::<impl str>::chars", r"core::str::<impl str>::(bytes|char_indices|len)") if b.in_loop(c.bb) or c.matches(r".*::chars")]
    n = 0
    with b.restricted(R):
        for c in b.calls(r"core::str::<impl str>::chars"):
            if c.bb not in R:
                continue
            sl = b.slice_args(c, [0])
            n += 1
            from_split = any(k.bb == sp.bb for k in sl.calls)
            trunc = sl.calls_matching(r"(std|core)::f64::<impl f64>::(trunc|floor|ceil|round)")
            ctx.check(from_split and not trunc, rule, "integer-digits-from-rounded-string", b.name, c.loc(),
                      "with a decimal point present, the grouped integer digits are the part of the formatted string before it",
                      "the integer digits do not come from the rounded string (%s) while the fraction digits do: when rounding carries into the integer part the two halves "
                      "disagree (1999.99999 prints 1,999)" % ("from %s()" % K.meth(trunc[0].path) if trunc else "not from the split"), cfg)
    ctx.floor(rule, n, 1, cfg, "digit iterations under split_once = Some")
    # without a decimal point (precision 0, inf, NaN) the digits are the formatted string itself - still the rounded one
    Rn = K.variant_reach(b, crate, "std::option::Option", "None", is_split)
    m = 0
    with b.restricted(Rn):
        for c in b.calls(r"core::str::<impl str>::chars"):
            if c.bb not in Rn:
                continue
            sl = b.slice_args(c, [0])
            m += 1
            from_fmt = sl.has_call(r"(alloc|std)::fmt::format", r"std::string::ToString::to_string") and any(
                k.matches(r"(alloc|std)::fmt::format") for k in sl.calls)
            trunc = sl.calls_matching(r"(std|core)::f64::<impl f64>::(trunc|floor|ceil)")
            ctx.check(from_fmt and not trunc, rule, "no-point-digits-from-rounded-string", b.name, c.loc(),
                      "without a decimal point the grouped digits are the rounded formatted string",
                      "at precision 0 the digits are %s instead of the formatted (rounded) string: `{:.0}` of 1234.7 prints 1,234 where the standard formatter prints 1235"
                      % ("the value's truncation" if trunc else "not the formatted string"), cfg)
    ctx.floor(rule, m, 1, cfg, "digit iterations under split_once = None")


LOSSY_DURATION = (r"std::time::Duration::(div_duration_f64|div_duration_f32|as_secs_f32|as_nanos|as_micros|subsec_nanos|subsec_micros|mul_f32|div_f32)",
                  r"core::time::Duration::(div_duration_f64|div_duration_f32|as_secs_f32|as_nanos|as_micros)")


def rule_hduration_exact_quotient(ctx, crate, rule="R-HDURATION-EXACT-QUOTIENT"):
    """"nearest count ... we go from n+1 units to n units exactly at (n + 1/2) units", for every Duration: the count is the rounded
    quotient of the duration by the unit. A necessary condition for the half-unit boundaries to fall where they should is that
    the two operands reach the division *exactly* for whole-second durations: `Duration::as_secs_f64` is exact up to 2^53 s
    (285 million years). Conversions through nanoseconds (`div_duration_f64`, `as_nanos() as f64`) hold whole nanoseconds
    only up to 2^53 ns = 104 days, through f32 up to 2^24: beyond that an exact n.5 lands one ulp below the boundary and is
    rounded down ("9359 years" for 9359.5 years). Decided: the value handed to `f64::round` is a quotient whose operands come
    from `as_secs_f64` (or integer seconds), and no lossy conversion is in its slice; not the rounding itself."""
    cfg = crate.config
    b = K.find_one(ctx, crate, rule, r"<format::HumanDuration as std::fmt::Display>::fmt")
    if not b:
        return
    rounds = [c for c in b.calls(r"std::f64::<impl f64>::(round|round_ties_even|floor|ceil|trunc)", r"core::f64::<impl f64>::(round|floor|ceil|trunc)")]
    if not rounds:
        ctx.lost(rule, cfg, "HumanDuration::fmt no longer rounds an f64 quotient")
        return
    for k, c in enumerate(rounds):
        sl = b.slice_args(c, [0])
        lossy = sorted({K.meth(x.path) for x in sl.calls if x.matches(*LOSSY_DURATION)})
        f32 = [a for a in sl.atoms if a[0] == "cast" and "f32" in str(a)] if any(a[0] == "cast" for a in sl.atoms) else []
        exact = sl.has_call(r"std::time::Duration::as_secs_f64", r"core::time::Duration::as_secs_f64", r"std::time::Duration::as_secs", r"core::time::Duration::as_secs")
        ctx.check(exact and not lossy and not f32, rule, "quotient-of-seconds#%d" % k, b.name, c.loc(),
                  "the rounded quotient is formed from the durations in seconds as f64 (exact for whole seconds up to 2^53 s)",
                  "the count is rounded from a quotient formed through a lossy conversion (%s): whole nanoseconds fit an f64 only up to 104 days, so exact half-unit "
                  "durations above that can land one ulp below n.5 and round down" % (", ".join(lossy) or ("f32" if f32 else "no as_secs_f64 operand")), cfg)
