"""C18 — terminal I/O failures never panic, poison or corrupt logical state (error discipline)."""
import re

from .. import common as K
from ..facts import operand_local, place_str, op_str

EXPLANATION = ("Decides the error-discipline clause: no io::Result is unwrapped/expected or matched into a "
               "panic anywhere in library code (outside the in_memory test double); every io::Result-valued call "
               "result is propagated (?/tail) or explicitly discarded; the Err exits of every `?` on an io::Result "
               "are pure (no state store, no panic edge); in the paint routine the row-count commit is dominated by "
               "the success edge of flush; public io::Result-returning APIs return the draw result.")
UNDECIDED = "Panics inside a user-supplied TermLike implementation; value-level equality of getters after a fault (covered structurally by non-interference, see C06)."

STATE_ADTS = ("state::ProgressState", "state::BarState", "state::AtomicPosition", "multi::MultiState",
              "multi::MultiStateMember", "draw_target::TargetKind", "draw_target::ProgressDrawTarget",
              "draw_target::DrawState", "style::ProgressStyle")


def io_err_targs(call):
    ta = call.callee.get("targs", [])
    return len(ta) >= 2 and ta[1] == "std::io::Error"


N_MATCH_EXITS = [0]


def run(ctx, crate):
    cfg = crate.config
    N_MATCH_EXITS[0] = 0
    K.rule_no_unsafe(ctx, crate)
    bodies = K.lib_bodies(crate)

    # ---- R-IO-NO-UNWRAP -----------------------------------------------------------------------
    rule = "R-IO-NO-UNWRAP"
    n_results = 0
    for b in bodies:
        for c in b.calls():
            # (1) direct unwrap/expect-family call on Result<_, io::Error>
            if c.matches(r"std::result::Result::<T, E>::(unwrap|expect|unwrap_err|expect_err|unwrap_unchecked|into_ok|unwrap_or_else|unwrap_or_default)") and io_err_targs(c):
                m = K.meth(c.path)
                if m in ("unwrap_or_else", "unwrap_or_default"):
                    continue
                # instance key: the producer of the unwrapped value
                sl = b.slice_args(c, [0], through_calls=False)
                prod = sorted({x.path for x in sl.calls if K.is_plain_io_result(b.locals[x.dest["l"]])}) or ["?"]
                ctx.bad(rule, "%s(%s)" % (m, ",".join(prod)), b.name, c.loc(),
                        "io::Result from %s is consumed by Result::%s: an I/O error panics here (while locks are held => poison)" % (",".join(prod), m),
                        cfg, witness=["%s = %s(%s)" % (place_str(c.dest), c.path, ", ".join(op_str(a) for a in c.args))])
        # (2) every io::Result-valued call result: how is it consumed?
        for c in b.calls():
            if c.matches(K.TRY_BRANCH, K.FROM_RESIDUAL):
                continue
            d = c.dest
            if d["p"] or not K.is_plain_io_result(b.locals[d["l"]]):
                continue
            if c.matches(r"std::result::Result::<T, E>::.*", r"std::result::Result::Ok", r"std::result::Result::Err"):
                continue
            n_results += 1
            verdict, how = consumption(b, d["l"], set())
            key = "result-of:%s#%d" % (c.path, sum(1 for x in b.calls() if x.path == c.path and x.bb < c.bb))
            if verdict == "unwrap":
                continue  # reported by (1) with the precise site
            ctx.check(verdict in ("propagated", "discarded", "returned", "passed"), rule, key, b.name, c.loc(),
                      "io::Result %s (%s)" % (verdict, how), "io::Result consumed in an unrecognised way: %s" % how, cfg)
        # (3) explicit match on an io::Result whose Err arm reaches a panic
        for sb, t in b.switches():
            # find `discriminant(P)` feeding the switch, with P an io::Result local
            l = operand_local(t["op"])
            if l is None:
                continue
            for d in b.defs().get(l, ()):
                if d["kind"] == "assign" and d["rv"]["k"] == "discr":
                    pl = d["rv"]["place"]
                    if not pl["p"] and K.is_plain_io_result(b.locals[pl["l"]]):
                        err_t = [tb for v, tb in t["targets"] if v == 1] or [t["otherwise"]]
                        reg = b.edge_region((sb, err_t[0]))
                        pb = K.region_reaches_panic(b, reg)
                        ctx.check(pb is None, rule, "match-err-arm", b.name, "%s:%d" % (b.file, t.get("line", 0)),
                                  "Err arm of an explicit match on io::Result has no panic edge",
                                  "Err arm of a match on io::Result reaches a panic edge at bb%s" % pb, cfg)
                        # the Err arm of an explicit match is an error exit like the Break edge of `?`: it must be pure
                        # when the function goes on to return that error (region reaches a return with an Err stored)
                        if K.is_plain_io_result(b.locals[0]) and b.file not in K.TEST_DOUBLE_FILES:
                            only_err = reg - b.reach([x for x in b.succ(sb) if x != err_t[0]])
                            problems = []
                            for bb in sorted(only_err):
                                for s_ in b.stmts(bb):
                                    if s_["k"] == "assign" and s_["lhs"]["l"] != 0 and any(x == "*" for x in s_["lhs"]["p"]):
                                        problems.append("store through a reference: %s (L%d)" % (place_str(s_["lhs"], b), s_.get("line", 0)))
                                    if s_["k"] == "assign" and any(isinstance(x, dict) and x.get("adt") in STATE_ADTS for x in s_["lhs"]["p"]):
                                        problems.append("store to state field: %s" % place_str(s_["lhs"], b))
                            N_MATCH_EXITS[0] += 1
                            ctx.check(not problems, "R-ERR-EXIT-PURE", "match-err-arm", b.name, "%s:%d" % (b.file, t.get("line", 0)),
                                      "the Err arm of an explicit match on io::Result writes no state",
                                      "Err arm of a match on io::Result is not pure: " + "; ".join(problems[:3]), cfg)
        # (4) the same for `if result.is_err() {..}` / `if !result.is_ok() {..}`: what runs only after a failed terminal operation
        #     writes no state (a draw target swapped for a hidden one "because the terminal is gone" silences the bar for good
        #     after one transient error)
        for sb, t in b.switches():
            l = operand_local(t["op"])
            neg = False
            src = None
            for _ in range(4):
                ds = [d for d in b.defs().get(l, ()) if d["kind"] in ("assign", "call")] if l is not None else []
                if len(ds) != 1:
                    break
                d = ds[0]
                if d["kind"] == "call":
                    if d["call"].matches(r"std::result::Result::<T, E>::is_(err|ok)") and io_err_targs(d["call"]):
                        src = d["call"]
                    break
                if d["rv"]["k"] == "un" and d["rv"].get("op") == "Not":
                    neg = not neg
                    l = operand_local(d["rv"].get("a"))
                elif d["rv"]["k"] == "use":
                    l = operand_local(d["rv"]["op"])
                else:
                    break
            if src is None or b.file in K.TEST_DOUBLE_FILES:
                continue
            zero = [tb for v, tb in t["targets"] if v == 0]
            if not zero or zero[0] == t["otherwise"]:
                continue
            is_err = K.meth(src.path) == "is_err"
            err_edge = (sb, t["otherwise"]) if (is_err != neg) else (sb, zero[0])
            reg = b.edge_region(err_edge)
            problems = []
            for bb in sorted(reg):
                for s_ in b.stmts(bb):
                    if s_["k"] == "assign" and s_["lhs"]["l"] != 0 and any(x == "*" for x in s_["lhs"]["p"]):
                        problems.append("store through a reference: %s (L%d)" % (place_str(s_["lhs"], b), s_.get("line", 0)))
                    if s_["k"] == "assign" and any(isinstance(x, dict) and x.get("adt") in STATE_ADTS for x in s_["lhs"]["p"]):
                        problems.append("store to state field: %s" % place_str(s_["lhs"], b))
                pbk = K.block_panics(b, bb)
                if pbk:
                    problems.append("panic edge at bb%d" % bb)
            N_MATCH_EXITS[0] += 1
            ctx.check(not problems, "R-ERR-EXIT-PURE", "is_err-arm", b.name, "%s:%d" % (b.file, t.get("line", 0)),
                      "what runs only after a failed terminal operation writes no state and cannot panic",
                      "code that runs only when an io::Result is an error is not pure: " + "; ".join(problems[:3]), cfg)
    ctx.floor(rule, n_results, 18, cfg, "io::Result-valued call results in library code")

    # ---- R-IO-REPORTED (a): inside a fn that itself returns io::Result, no io::Result is swallowed ------
    rule = "R-IO-REPORTED"
    n_rep = 0
    for b in bodies:
        if b.kind == "Closure" or not K.is_plain_io_result(b.locals[0]):
            continue
        for c in b.calls():
            if c.matches(K.TRY_BRANCH, K.FROM_RESIDUAL):
                continue
            d = c.dest
            if d["p"] or not K.is_plain_io_result(b.locals[d["l"]]):
                continue
            if c.matches(r"std::result::Result::<T, E>::.*", r"std::result::Result::Ok", r"std::result::Result::Err"):
                continue
            n_rep += 1
            verdict, how = reported(b, d["l"], 0)
            key = "reported:%s#%d" % (c.path, sum(1 for x in b.calls() if x.path == c.path and x.bb < c.bb))
            ctx.check(verdict, rule, key, b.name, c.loc(), "io::Result of %s reaches the caller (%s)" % (c.path, how),
                      "io::Result of %s is swallowed inside a function that returns io::Result: %s" % (c.path, how), cfg)
    ctx.floor(rule, n_rep, 20, cfg, "io::Result-valued call results inside io::Result-returning fns")

    # ---- R-ERR-EXIT-PURE ----------------------------------------------------------------------
    rule = "R-ERR-EXIT-PURE"
    n_try = 0
    for b in bodies:
        for c in b.calls(K.TRY_BRANCH):
            ta = c.callee.get("targs", [])
            if not ta or "std::io::Error" not in ta[0]:
                continue
            e = K.try_edges(b, c)
            if not e:
                ctx.lost(rule, cfg, "cannot find the Continue/Break switch of a `?` in %s" % b.name)
                continue
            sb, cont, brk = e
            n_try += 1
            reg = b.edge_region((sb, brk))
            problems = []
            for bb in sorted(reg):
                for s in b.stmts(bb):
                    if s["k"] == "assign" and any(x == "*" for x in s["lhs"]["p"]):
                        problems.append("store through a reference: %s (L%d)" % (place_str(s["lhs"], b), s.get("line", 0)))
                    if s["k"] == "assign" and any(isinstance(x, dict) and x.get("adt") in STATE_ADTS for x in s["lhs"]["p"]):
                        problems.append("store to state field: %s" % place_str(s["lhs"], b))
                t = b.term(bb)
                if t["k"] == "call":
                    cc = K.Call(b, bb, t)
                    if not cc.matches(K.FROM_RESIDUAL, r"std::convert::From::from", r"std::convert::Into::into",
                                      r"std::task::Poll::Ready", r"std::result::Result::Err"):
                        problems.append("call %s on the error exit" % cc.path)
                elif t["k"] == "assert":
                    problems.append("assert (%s) on the error exit" % t["msg"])
            key = "?#%d:%s" % (sum(1 for x in b.calls(K.TRY_BRANCH) if x.bb < c.bb), producer_of(b, c))
            ctx.check(not problems, rule, key, b.name, c.loc(),
                      "Err exit region (%d blocks) contains only residual conversion, drops and the return" % len(reg),
                      "Err exit of `?` is not pure: " + "; ".join(problems), cfg)
    ctx.floor(rule, n_try + N_MATCH_EXITS[0], 12, cfg, "error exits on io::Result (`?` sites + explicit match Err arms)")

    # ---- R-DRAW-COMMIT-ON-SUCCESS (shared with C01) ----------------------------------------------
    rule_commit_on_success(ctx, crate)
    rule_io_no_retry(ctx, crate)
    rule_screen_model_no_panic(ctx, crate)
    rule_ok_means_attempted(ctx, crate)
    # queued println text is *moved* into the frame of the draw that takes it, whatever that draw's result: text kept (or copied)
    # for "the next frame" after a failure is printed twice after a late fault and piles up, forcing every sibling's draw, while the
    # terminal is down (seed C18m)
    from .c03 import rule_orphan_moved
    rule_orphan_moved(ctx, crate)
    # a hand-over of rows between the two counters (Clear/Keep + the matching zombie_lines_count store) completes on every
    # exit, the error exits of the terminal calls included: a failure in between leaves rows owned twice
    from .c03 import rule_row_transfer_pairing
    rule_row_transfer_pairing(ctx, crate)
    # "later calls on the same bar keep working": an I/O failure never ends the steady-tick thread
    from .c08 import rule_ticker_exit_conditions
    rule_ticker_exit_conditions(ctx, crate)

    # ---- R-IO-REPORTED -----------------------------------------------------------------------
    rule = "R-IO-REPORTED"
    chain = [
        (r"multi::MultiProgress::println", [r"multi::MultiState::println"]),
        (r"multi::MultiProgress::clear", [r"multi::MultiState::clear"]),
        (r"multi::MultiState::println", [r"multi::MultiState::draw"]),
        (r"multi::MultiState::clear", [r"draw_target::Drawable::<'_>::clear"]),
        (r"multi::MultiState::draw", [r"draw_target::Drawable::<'_>::draw"]),
        (r"draw_target::Drawable::<'_>::clear", [r"draw_target::Drawable::<'_>::draw"]),
        (r"draw_target::Drawable::<'_>::draw", [r"draw_target::DrawState::draw_to_term", r"multi::MultiState::draw"]),
        (r"state::BarState::draw", [r"draw_target::Drawable::<'_>::draw"]),
    ]
    api_io = [f for f in crate.fns.values() if f["api"] and K.is_plain_io_result(f["ret"]) and not f.get("impl_trait")
              and not f.get("in_trait") and f["file"] not in K.TEST_DOUBLE_FILES]
    ctx.floor(rule, len(api_io), 2, cfg, "public inherent fns returning io::Result")
    chain_heads = {c[0] for c in chain}
    for f in api_io:
        if not any(re.fullmatch(h, f["def"]) for h in chain_heads):
            ctx.bad(rule, "unlisted-api", f["def"], "%s:%d" % (f["file"], f["line"]),
                    "public fn returning io::Result is not covered by the reporting chain table", cfg)
    for pat, downs in chain:
        b = K.find_one(ctx, crate, rule, pat)
        if not b:
            continue
        # every Ok(..) the function can return must come from the downstream call on the paths
        # where that call was made: the return slot's slice must contain the downstream result,
        # and no return block may be reached after a downstream call with _0 not depending on it.
        downs_calls = b.calls(*downs)
        if not downs_calls:
            ctx.lost(rule, cfg, "%s no longer calls %s" % (b.name, downs))
            continue
        for dc in downs_calls:
            # all defs of _0 reachable after dc must depend on dc
            after = b.reach([dc.target]) if dc.target is not None else set()
            bad = []
            # `down()?; ..; Ok(())`: the failure left through the Break edge of the `?`; what is stored on the Continue
            # side needs no further tie to the call
            reported_by_try = set()
            if not dc.dest["p"]:
                for tc in b.calls(K.TRY_BRANCH):
                    if tc.args and operand_local(tc.args[0]) == dc.dest["l"] and not tc.args[0]["place"]["p"]:
                        e = K.try_edges(b, tc)
                        if e:
                            reported_by_try |= b.reach([e[1]]) - b.edge_region((e[0], e[2]))
            for d in b.defs().get(0, ()):
                if d.get("bb") in reported_by_try:
                    continue
                if d.get("bb") in after or d.get("bb") == dc.bb:
                    if d["kind"] == "call" and d["call"].bb == dc.bb:
                        continue
                    src = d["rv"] if d["kind"] == "assign" else None
                    sl = b.slice(b.rv_operands(d["rv"]) if src else [a for a in d["call"].args], through_calls=True, at=d.get("bb"))
                    if not any(x.bb == dc.bb for x in sl.calls):
                        # allowed: error propagation of an *earlier* failure (from_residual)
                        if d["kind"] == "call" and d["call"].matches(K.FROM_RESIDUAL):
                            sl2 = b.slice_args(d["call"])
                            if any(K.is_plain_io_result(b.locals[x.dest["l"]]) or "ControlFlow" in b.locals[x.dest["l"]]["ty"] for x in sl2.calls):
                                continue
                        bad.append("bb%d" % d.get("bb"))
            key = "returns:%s" % K.meth(dc.path)
            ctx.check(not bad, rule, key, b.name, dc.loc(),
                      "every value stored to the return slot after the call derives from its result",
                      "return value assigned at %s after calling %s does not derive from its io::Result (error swallowed)" % (bad, dc.path), cfg)


ERR_PRESERVING = r"std::result::Result::<T, E>::(map|and_then|inspect|inspect_err|map_err|and)"


def reported(b, l, depth):
    """Does the io::Result in local l reach the caller on its Err side? `?`, the return slot, or an
    Err-preserving combinator whose own result does."""
    v, how = consumption(b, l, set())
    if v in ("propagated", "returned"):
        return True, how
    if v == "passed" and depth < 4:
        for c in b.calls():
            if c.args and operand_local(c.args[0]) == l and not c.args[0]["place"]["p"] and c.matches(ERR_PRESERVING):
                if c.dest["p"]:
                    return False, "result of %s stored into a projection" % c.path
                ok, h2 = reported(b, c.dest["l"], depth + 1)
                return ok, "%s, then %s" % (K.meth(c.path), h2)
        if how == "matched (Err arm checked separately)":
            return True, how
    return False, how


def producer_of(b, trycall):
    sl = b.slice_args(trycall, [0], through_calls=False)
    ps = sorted({K.meth(x.generic) for x in sl.calls})
    return ",".join(ps) or "?"


def consumption(b, l, seen):
    """How an io::Result-valued local is consumed. Returns (verdict, description)."""
    if l in seen:
        return "passed", "cyclic move"
    seen = seen | {l}
    if l == 0:
        return "returned", "stored in the return slot"
    uses = []
    for bb in sorted(b.reachable()):
        for s in b.stmts(bb):
            if s["k"] != "assign":
                continue
            rv = s["rv"]
            ops = []
            if rv["k"] in ("use", "cast"):
                ops = [rv["op"]]
            elif rv["k"] == "agg":
                ops = rv["ops"]
            for o in ops:
                if operand_local(o) == l and not o["place"]["p"]:
                    uses.append(("move", s["lhs"]))
            if rv["k"] in ("ref",) and rv["place"]["l"] == l:
                uses.append(("ref", s["lhs"]))
            if rv["k"] == "discr" and rv["place"]["l"] == l:
                uses.append(("match", s["lhs"]))
        t = b.term(bb)
        if t["k"] == "call":
            for a in t["args"]:
                if operand_local(a) == l and not a["place"]["p"]:
                    uses.append(("call", K.Call(b, bb, t)))
        elif t["k"] == "drop" and t["place"]["l"] == l and not t["place"]["p"]:
            uses.append(("drop", None))
    verdicts = []
    for k, x in uses:
        if k == "drop":
            verdicts.append(("discarded", "dropped (let _ = ...)"))
        elif k == "call":
            if x.matches(K.TRY_BRANCH):
                verdicts.append(("propagated", "`?`"))
            elif x.matches(r"std::result::Result::<T, E>::(unwrap|expect|unwrap_err|expect_err|unwrap_unchecked|into_ok)"):
                verdicts.append(("unwrap", x.path))
            elif x.matches(r"std::result::Result::<T, E>::(ok|is_ok|is_err|err|map|map_err|and_then|or_else|unwrap_or|unwrap_or_default)", r"std::mem::drop", r"std::task::Poll::Ready", r".*"):
                verdicts.append(("passed", "argument of %s" % x.path))
        elif k == "move":
            if not x["p"] or True:
                v = consumption(b, x["l"], seen)
                verdicts.append(v)
        elif k == "ref":
            verdicts.append(("passed", "borrowed"))
        elif k == "match":
            verdicts.append(("passed", "matched (Err arm checked separately)"))
    if not uses:
        return "discarded", "never used (ZST Ok payload / dead)"
    for pref in ("unwrap", "propagated", "returned", "discarded", "passed"):
        for v in verdicts:
            if v[0] == pref:
                return v
    return "other", str(uses)


def rule_commit_on_success(ctx, crate, rule="R-DRAW-COMMIT-ON-SUCCESS"):
    """In every emitter: each store through a `&mut VisualLines` parameter is dominated by the
    Continue edge of the `?` applied to the result of TermLike::flush, and no `?` Break edge is
    reachable after the store."""
    cfg = crate.config
    em = K.emitters(crate)
    n = 0
    for name in sorted(em):
        b = crate.bodies[name]
        vl_params = [i for i in range(1, b.arg_count + 1) if b.locals[i]["ty"].startswith("&mut") and b.locals[i].get("head") == "draw_target::VisualLines"]
        # ... or the count reached through a pattern binding of the Drawable's `last_line_count` (an emitting helper inlined into
        # Drawable::clear / Drawable::draw)
        for i_, j_, s_ in b.assigns():
            l_ = s_["lhs"]["l"]
            if not s_["lhs"]["p"] and b.locals[l_]["ty"].startswith("&mut") and b.locals[l_].get("head") == "draw_target::VisualLines" and l_ not in vl_params:
                src_ = s_["rv"].get("place") or (s_["rv"].get("op") or {}).get("place") or {}
                if any(isinstance(e, dict) and e.get("n") == "last_line_count" for e in src_.get("p", [])):
                    vl_params.append(l_)
        if not vl_params:
            continue
        # reborrows and copies of those references (`_8 = &mut *_4`, `_9 = move _8`)
        alias = set(vl_params)
        for _ in range(6):
            grew = False
            for i_, j_, s_ in b.assigns():
                l_ = s_["lhs"]["l"]
                if s_["lhs"]["p"] or l_ in alias or not b.locals[l_]["ty"].startswith("&mut") or b.locals[l_].get("head") != "draw_target::VisualLines":
                    continue
                rv_ = s_["rv"]
                src_l = None
                if rv_["k"] == "ref" and rv_["place"]["p"] == ["*"]:
                    src_l = rv_["place"]["l"]
                elif rv_["k"] == "use" and rv_["op"].get("k") in ("move", "copy") and not rv_["op"]["place"]["p"]:
                    src_l = rv_["op"]["place"]["l"]
                if src_l in alias:
                    alias.add(l_)
                    grew = True
            if not grew:
                break
        flushes = [c for c in b.calls() if c.callee.get("trait") == K.TERMLIKE and K.meth(c.generic) == "flush"]
        if not flushes:
            ctx.bad(rule, "no-flush", b.name, K.fn_loc(b), "emitter never calls TermLike::flush", cfg)
            continue
        # Continue edges of the `?` on each flush result
        cont_edges = []
        for f in flushes:
            for tc in b.calls(K.TRY_BRANCH):
                sl = b.slice_args(tc, [0], through_calls=False)
                if any(x.bb == f.bb for x in sl.calls):
                    e = K.try_edges(b, tc)
                    if e:
                        cont_edges.append((e[0], e[1]))
        for f in flushes:
            if not f.dest["p"]:
                for sb, t, pl, d in K.discr_switches(b):
                    if pl["l"] == f.dest["l"] or f.dest["l"] in {tl for tl, tp in b.ref_origins().get(pl["l"], ())}:
                        for tgt, vs in K.edge_variants(crate, t, "std::result::Result").items():
                            if vs == {"Ok"}:
                                cont_edges.append((sb, tgt))
        stores = []
        refs = b.ref_origins()
        for i, j, s in b.assigns():
            if s["lhs"]["l"] in alias and "*" in s["lhs"]["p"]:
                stores.append((i, s, "direct store"))
        for c in b.calls():
            for a in c.args:
                l = operand_local(a)
                if l is None:
                    continue
                tgts = refs.get(l, [])
                if b.locals[l]["ty"].startswith("&mut") and b.locals[l].get("head") == "draw_target::VisualLines":
                    if l in alias or any(t[0] in vl_params for t in tgts):
                        stores.append((c.bb, None, "passed &mut to %s" % c.path))
        for bb, s, how in stores:
            n += 1
            dom = any(b.edge_dominates(e, bb) for e in cont_edges)
            after = b.reach(b.succ(bb))
            later_try = [tc for tc in b.calls(K.TRY_BRANCH) if tc.bb in after]
            ctx.check(dom and not later_try, rule, "commit-store#%d" % (n - 1), b.name,
                      "%s:%d" % (b.file, s.get("line", 0) if s else b.term(bb).get("line", 0)),
                      "row-count store is dominated by the success edge of flush()? and is the last fallible step",
                      "row count committed %s" % ("on a path that has not passed a successful flush" if not dom else "before a later fallible terminal call"), cfg)
    ctx.floor(rule, n, 1, cfg, "row-count commit stores in the emitter")


REFUSALS = (r"draw_target::ProgressDrawTarget::\w+", r"draw_target::TargetKind::\w+", r"std::thread::panicking", r"draw_target::RateLimiter::allow",
            r"multi::MultiState::(width|is_hidden)", r"draw_target::Drawable::<'_>::\w+")
BOOKKEEPING_ADTS = ("multi::MultiState", "multi::MultiStateMember", "state::BarState", "state::ProgressState", "draw_target::DrawState")


def rule_ok_means_attempted(ctx, crate, rule="R-IO-OK-MEANS-ATTEMPTED"):
    """"explicit io::Result-returning calls report the error": an `Ok(())` that such a function produces itself (rather than
    handing on the result of the operation it wraps) is produced either *after* a fallible terminal operation was attempted on that
    path, or because the draw target refused the draw (hidden / not a terminal / rate limited / panicking) - never because the
    library's own bookkeeping says "nothing to do". The bookkeeping is exactly what goes stale when an earlier draw failed: the row
    count still holds lines the slot table no longer knows, and a `clear()` that skips the terminal when `members` is empty answers
    Ok on a dead terminal and leaves the stale line (seed C18k)."""
    cfg = crate.config
    n = 0
    for b in K.lib_bodies(crate):
        if b.file in K.TEST_DOUBLE_FILES or not K.is_plain_io_result(b.locals[0]):
            continue
        attempts = [k for k in b.calls() if not k.dest["p"] and K.is_plain_io_result(b.locals[k.dest["l"]])
                    and not k.matches(K.TRY_BRANCH, K.FROM_RESIDUAL, r"std::result::Result::<T, E>::.*")]
        # locals that flow into the return place
        ret_ls, work = {0}, [0]
        while work:
            x = work.pop()
            for d in b.defs().get(x, ()):
                if d["kind"] == "assign" and d["rv"]["k"] == "use" and d["rv"]["op"].get("k") in ("copy", "move") and not d["rv"]["op"]["place"]["p"]:
                    y = d["rv"]["op"]["place"]["l"]
                    if y not in ret_ls:
                        ret_ls.add(y)
                        work.append(y)
        for i, j, st in b.assigns():
            rv = st["rv"]
            if not (rv["k"] == "agg" and rv.get("ak") == "adt" and rv.get("adt") == "std::result::Result" and rv.get("variant") == "Ok"
                    and st["lhs"]["l"] in ret_ls and not st["lhs"]["p"]):
                continue
            n += 1
            attempted = any(b.dominates(k.bb, i) and k.bb != i for k in attempts)
            refused, why = False, []
            for sb, t in b.switches():
                if not any(b.edge_dominates((sb, x), i) for x in b.succ(sb)):
                    continue
                # the test *decides* about this Ok only if one of its outcomes avoids it (the exit test of a loop that comes
                # first does not: the other edge leads back to the test)
                if all(i in b.reach([y]) for y in b.succ(sb)):
                    continue
                # what the test reads itself: results of calls are taken as they are (the draw target's verdict is the verdict,
                # whatever force flag it was asked with)
                sl = b.slice_switch(sb, stop_at_calls=REFUSALS)
                book = sorted({"%s.%s" % (a.rsplit("::", 1)[-1], f) for a, f in sl.fields() if a in BOOKKEEPING_ADTS and f not in ("draw_target",)} |
                              {k.path for k in sl.calls if k.callee.get("local") and not k.matches(*REFUSALS) and
                               k.path.startswith(("multi::MultiState::", "state::BarState::", "state::ProgressState::"))})
                if book:
                    why += book
                elif any(k.matches(*REFUSALS) for k in sl.calls) or sl.has_field("draw_target"):
                    refused = True
            ok = attempted or (refused and not why) or (not why and not b.switches())
            if not attempted and not refused and not why:
                ok = True       # an unconditional Ok (nothing to attempt: e.g. a no-op implementation)
            ctx.check(ok, rule, "ok#%d:%s" % (sum(1 for i2, j2, s2 in b.assigns() if (i2, j2) < (i, j) and s2["rv"].get("variant") == "Ok" and s2["rv"].get("adt") == "std::result::Result"),
                                                K.meth(K.owner_fn(crate, b))), b.name, "%s:%d" % (b.file, st.get("line", 0)),
                      "an Ok(()) of its own is returned after an attempted terminal operation, or because the draw target refused",
                      "%s answers Ok(()) without having attempted any terminal operation because of the library's own bookkeeping (%s): after a failed draw that bookkeeping "
                      "is stale - the call reports success on a dead terminal and skips work the screen still needs" % (K.meth(b.name), ", ".join(why[:4]) or "?"), cfg)
    ctx.floor(rule, n, 4, cfg, "Ok(()) values produced by io::Result-returning library functions")


def rule_io_no_retry(ctx, crate, rule="R-IO-NO-RETRY"):
    """"later calls on the same and on sibling bars keep working": a failed terminal operation is never re-issued from its
    own error edge. Draws run under the bar's mutex (and the MultiProgress write lock); a terminal that keeps failing
    would make such a loop spin forever with those locks held."""
    cfg = crate.config
    n = 0
    for b in K.lib_bodies(crate):
        for c in b.calls():
            if c.dest["p"] or not K.is_plain_io_result(b.locals[c.dest["l"]]) or c.matches(r"std::result::Result::<T, E>::.*", K.TRY_BRANCH, K.FROM_RESIDUAL):
                continue
            if not b.in_loop(c.bb):
                continue
            n += 1
            err_edges = []
            for tc in b.calls(K.TRY_BRANCH):
                if any(x.bb == c.bb for x in b.slice_args(tc, [0], through_calls=False).calls):
                    e = K.try_edges(b, tc)
                    if e:
                        err_edges.append((e[0], e[2]))
            for sb, t, pl, d in K.discr_switches(b):
                if pl["l"] == c.dest["l"] or c.dest["l"] in {tl for tl, tp in b.ref_origins().get(pl["l"], ())}:
                    for tgt, vs in K.edge_variants(crate, t, "std::result::Result").items():
                        if "Err" in vs:
                            err_edges.append((sb, tgt))
            again = [e for e in err_edges if c.bb in b.reach([e[1]])]
            ctx.check(not again, rule, "retry:%s" % K.meth(c.generic), b.name, c.loc(),
                      "the error edge of %s leaves the loop" % K.meth(c.generic),
                      "%s is re-issued from its own error edge: with a persistently failing terminal the call never returns "
                      "(and holds the bar/multi locks forever)" % c.path, cfg)
    ctx.floor(rule, n, 3, cfg, "io::Result-valued calls inside loops")


def rule_screen_model_no_panic(ctx, crate, rule="R-SCREEN-MODEL-NO-PANIC"):
    """The record of what is on the screen (the row count handed to the paint routine, committed only after a successful
    flush) lags behind the logical state by an arbitrary amount once a draw has failed. So no panic may depend on it: no
    assertion / explicit panic whose controlling condition reads it, no unwrap/expect of a value derived from it, no
    non-saturating subtraction of row counts involving it unless a comparison of the same operands dominates it.
    "Derived" is a fixpoint: fields stored from a derived value and functions returning one are derived too."""
    cfg = crate.config
    bodies = [b for b in K.lib_bodies(crate)]
    paint = crate.find(r"draw_target::DrawState::draw_to_term")
    if not paint:
        ctx.lost(rule, cfg, "paint routine draw_to_term not found")
        return
    # (1) the model fields: what callers pass as the row-count argument of the paint routine
    M = set()
    tparams = set()
    for b in bodies:
        for c in b.calls(r"draw_target::DrawState::draw_to_term"):
            for k, a in enumerate(c.args):
                l = operand_local(a)
                if l is not None and "VisualLines" in b.locals[l]["ty"]:
                    tparams.add((paint[0].name, k + 1))
                    for f in b.slice_args(c, [k]).fields():
                        if f[0] not in ("tuple",) and "VisualLines" in str(f[-1] if len(f) > 2 else "") or True:
                            M.add((f[0], f[1]))
    M = {(a, n) for a, n in M if n and a and a.startswith(("draw_target::", "multi::"))}
    names = {n for a, n in M}
    # same-named fields of the borrowed view (Drawable) alias the owner's
    for adt, info in crate.adts.items() if hasattr(crate, "adts") else ():
        pass
    ctx.floor(rule, len(M), 1, cfg, "screen-model fields (row count passed to the paint routine)")

    def tainted_slice(b, sl):
        for c in sl.calls:
            for t in [c.path] + crate.resolve_targets(c):
                if t in TF:
                    return "derives from %s()" % K.meth(t)
        for f in sl.fields():
            if (f[0], f[1]) in M or (f[1] in names and str(f[0]).startswith("draw_target::")):
                return "reads %s.%s" % (f[0].rsplit("::", 1)[-1], f[1])
        for p_ in sl.params():
            if (b.name, p_) in tparams:
                return "reads the row-count parameter"
        return None

    # (2) fixpoint over functions returning a derived value and fields stored from one
    TF = set()
    for _ in range(6):
        changed = False
        for b in bodies:
            if b.name not in TF and b.kind != "Closure":
                for d in b.defs().get(0, ()):
                    if d["kind"] not in ("assign", "call"):
                        continue
                    sl = b.slice_args(d["call"]) if d["kind"] == "call" else b.slice_rv(d["bb"], {"lhs": d["lhs"], "rv": d["rv"]})
                    own = d["kind"] == "call" and any(t in TF for t in [d["call"].path] + crate.resolve_targets(d["call"]))
                    if "VisualLines" not in b.locals[0]["ty"] and b.locals[0]["ty"] not in ("usize",):
                        continue
                    if own or tainted_slice(b, sl):
                        TF.add(b.name)
                        changed = True
                        break
            for i, j, s_ in b.assigns():
                fs = [x for x in s_["lhs"]["p"] if isinstance(x, dict) and "f" in x and x.get("adt")]
                if not fs or (fs[-1]["adt"], fs[-1].get("n")) in M:
                    continue
                if "VisualLines" not in str(fs[-1].get("fty", "")):
                    continue
                if tainted_slice(b, b.slice_rv(i, s_)):
                    M.add((fs[-1]["adt"], fs[-1].get("n")))
                    names.add(fs[-1].get("n"))
                    changed = True
            for c in b.calls(r"<draw_target::VisualLines as std::ops::AddAssign>::add_assign", r"std::ops::AddAssign::add_assign"):
                if len(c.args) == 2 and tainted_slice(b, b.slice_args(c, [1])):
                    for f in b.slice_args(c, [0], through_calls=False).fields():
                        if (f[0], f[1]) not in M and str(f[0]).startswith(("multi::", "draw_target::")):
                            M.add((f[0], f[1]))
                            names.add(f[1])
                            changed = True
        if not changed:
            break
    ctx.extra.setdefault("screen_model", {})[cfg] = {"fields": sorted("%s.%s" % x for x in M), "derived_fns": sorted(TF)}
    # (3) the hazards
    n = 0
    for b in bodies:
        if b.file in K.TEST_DOUBLE_FILES:
            continue
        R_ = b.reachable()
        if not any(K.block_panics(b, bb) for bb in R_):
            div = []
        else:
            rets = set(b.return_blocks())
            # blocks from which no return can be reached: the failure arm of an assertion
            doomed = {bb for bb in R_ if not (b.reach([bb]) & rets) and any(K.block_panics(b, x) for x in b.reach([bb]))}
            div = [1]
        for _D in div:
            for sb, t in b.switches():
                if sb in doomed:
                    continue
                tg = {tb for v, tb in t["targets"]} | {t["otherwise"]}
                tg = {tb for tb in tg if not (b.term(tb) or {}).get("k") == "unreachable"}
                ctl = [tb for tb in tg if tb in doomed]
                if not ctl or len(ctl) == len(tg):
                    continue
                n += 1
                why = tainted_slice(b, b.slice_switch(sb))
                ctx.check(why is None, rule, "assert-on-screen-model", b.name, "%s:%d" % (b.file, t.get("line", 0)),
                          "the condition guarding this panic does not read the on-screen row count",
                          "a panic is guarded by a condition that %s: after a failed draw the on-screen row count is stale, so the "
                          "assertion fires and poisons the locks held here" % why, cfg)
        for c in b.calls(*K.UNWRAPS):
            if io_err_targs(c):
                continue
            why = tainted_slice(b, b.slice_args(c, [0]))
            n += 1
            ctx.check(why is None, rule, "unwrap-on-screen-model", b.name, c.loc(), "the unwrapped value does not derive from the on-screen row count",
                      "unwrap/expect of a value that %s (stale after a failed draw)" % why, cfg)
        for c in b.calls(r"<draw_target::VisualLines as std::ops::Sub>::sub", r"std::ops::Sub::sub"):
            if "VisualLines" not in b.locals[c.dest["l"]]["ty"] or len(c.args) != 2:
                continue
            why = tainted_slice(b, b.slice_args(c, [0])) or tainted_slice(b, b.slice_args(c, [1]))
            if not why:
                continue
            n += 1
            # a comparison of the same two operands must dominate the subtraction
            a0, a1 = (src_key(b, c.args[0], c.bb), src_key(b, c.args[1], c.bb))
            guarded = False
            for k in b.calls(r"std::cmp::PartialOrd::(lt|le|gt|ge)", r"<draw_target::VisualLines as std::cmp::PartialOrd>::(lt|le|gt|ge)"):
                if len(k.args) != 2:
                    continue
                ks = {src_key(b, k.args[0], k.bb), src_key(b, k.args[1], k.bb)}
                if None in ks or ks != {a0, a1}:
                    continue
                for sb, t in b.switches():
                    if operand_local(t["op"]) == k.dest["l"] or k.dest["l"] in b.slice_switch(sb, through_calls=False).locals:
                        for tb in {tb for v, tb in t["targets"]} | {t["otherwise"]}:
                            if b.edge_dominates((sb, tb), c.bb):
                                guarded = True
            ctx.check(guarded, rule, "row-subtraction-guarded", b.name, c.loc(), "the subtraction of row counts is dominated by a comparison of its operands",
                      "non-saturating subtraction of row counts where an operand %s and no comparison of the two operands guards it" % why, cfg)
    ctx.floor(rule, n, 10, cfg, "panic sites examined against the screen model")


def src_key(b, op, at, depth=0):
    """The place an operand denotes, through reborrows and copies: (local, projection-names) or None."""
    import json
    if not isinstance(op, dict) or op.get("k") == "const" or depth > 6:
        return None
    pl = op["place"]
    names = [str(e.get("n", e.get("f"))) if isinstance(e, dict) else e for e in pl["p"]]
    if [x for x in names if x != "*"] or 1 <= pl["l"] <= b.arg_count:
        return (pl["l"], tuple(x for x in names if x != "*"))
    ds = [d for d in b.defs().get(pl["l"], ()) if d["kind"] in ("assign", "call") and b.def_reaches(d, at)]
    if len(ds) == 1 and ds[0]["kind"] == "assign" and not ds[0]["lhs"]["p"]:
        rv = ds[0]["rv"]
        if rv["k"] == "use":
            return src_key(b, rv["op"], ds[0]["bb"], depth + 1)
        if rv["k"] in ("ref", "copyderef"):
            return src_key(b, {"k": "copy", "place": rv["place"]}, ds[0]["bb"], depth + 1)
    return (pl["l"], ())
