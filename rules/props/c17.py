"""C17 — iterator and I/O adaptors are transparent and count exactly (structural core)."""
import re

from .. import common as K
from ..facts import Call, operand_local, place_fields, is_const, const_val

EXPLANATION = ("Decides, for every method of a foreign trait implemented for ProgressBarIter and the rayon producer/consumer/"
               "folder wrappers: (pass-through) exactly one call, on every path, to the same trait method on the wrapped object "
               "with the parameters forwarded unchanged (or, in rayon's plumbing, wrapped in the crate's own progress wrappers "
               "built from that parameter and the same bar), and the returned value derives from that call's result through "
               "value-preserving wrappers only; (effect placement) the position effect of each method equals the spec table: "
               "which effect, executed exactly on success, with the transferred amount; (siblings) sync/async/reverse variants "
               "of one logical operation have the same row; wrap_* constructors store the wrapped object and a clone of the bar.")
UNDECIDED = "Rayon's scheduling across splits beyond the per-wrapper rows (e.g. which split finishes the shared bar)."

WRAPPERS = ("iter::ProgressBarIter", "rayon::ProgressProducer", "rayon::ProgressPart", "rayon::ProgressConsumer", "rayon::ProgressFolder")
INNER_FIELDS = ("it", "base", "callback")
INC = r"progress_bar::ProgressBar::inc"
SETPOS = r"progress_bar::ProgressBar::set_position"
FIN = r"progress_bar::ProgressBar::finish_using_style"
EFFECTS = (INC, SETPOS, FIN, r"progress_bar::ProgressBar::(dec|set_length|inc_length|dec_length|finish.*|abandon.*|reset.*|tick|set_message|set_prefix)")

# (trait last segment, method) -> set of expected effect signatures  kind@location:amount
SPEC = {
    ("Iterator", "next"): {"inc@some:const1", "finish@none:-"},
    ("DoubleEndedIterator", "next_back"): {"inc@some:const1", "finish@none:-"},
    ("Stream", "poll_next"): {"inc@some:const1", "finish@none:-"},
    ("ExactSizeIterator", "len"): set(),
    ("Iterator", "size_hint"): set(),
    ("Stream", "size_hint"): set(),
    ("Write", "write_all"): {"inc@ok:len(param)"},
    ("BufRead", "read_line"): {"inc@ok:inner"},
    ("BufRead", "read_until"): {"inc@ok:inner"},
    ("Read", "read"): {"inc@ok:inner"},
    ("Read", "read_vectored"): {"inc@ok:inner"},
    ("Read", "read_to_string"): {"inc@ok:inner"},
    ("Read", "read_to_end"): {"inc@ok:inner"},
    ("Read", "read_exact"): {"inc@ok:len(param)"},
    ("BufRead", "fill_buf"): set(),
    ("BufRead", "consume"): {"inc@always:param"},
    ("Seek", "seek"): {"set_position@ok:inner"},
    ("Seek", "stream_position"): set(),
    ("Seek", "rewind"): {"set_position@ok:const0"},
    ("Write", "write"): {"inc@ok:inner"},
    ("Write", "write_vectored"): {"inc@ok:inner"},
    ("Write", "flush"): set(),
    ("AsyncWrite", "poll_write"): {"inc@ok:inner"},
    ("AsyncWrite", "poll_write_vectored"): {"inc@ok:inner"},
    ("AsyncWrite", "poll_flush"): set(),
    ("AsyncWrite", "poll_shutdown"): set(),
    ("AsyncWrite", "is_write_vectored"): set(),
    ("AsyncRead", "poll_read"): [{"inc@ready:filled-delta"}, {"inc@ok:filled-delta"}],
    ("AsyncSeek", "start_seek"): set(),
    ("AsyncSeek", "poll_complete"): {"set_position@ok:inner"},
    ("AsyncBufRead", "poll_fill_buf"): set(),
    ("AsyncBufRead", "consume"): {"inc@always:param"},
    ("IndexedParallelIterator", "len"): set(),
    ("IndexedParallelIterator", "drive"): set(),
    ("IndexedParallelIterator", "with_producer"): set(),
    ("ParallelIterator", "drive_unindexed"): set(),
    ("ParallelIterator", "opt_len"): set(),
    ("ProducerCallback", "callback"): set(),
    ("Producer", "into_iter"): set(),
    ("Producer", "min_len"): set(),
    ("Producer", "max_len"): set(),
    ("Producer", "split_at"): set(),
    ("Consumer", "split_at"): set(),
    ("Consumer", "into_folder"): set(),
    ("Consumer", "full"): set(),
    ("UnindexedConsumer", "split_off_left"): set(),
    ("UnindexedConsumer", "to_reducer"): set(),
    ("Folder", "consume"): {"inc@always:const1"},
    ("Folder", "complete"): set(),
    ("Folder", "full"): set(),
}
SIBLINGS = [
    (("Iterator", "next"), ("DoubleEndedIterator", "next_back")),
    (("Iterator", "next"), ("Stream", "poll_next")),
    (("BufRead", "fill_buf"), ("AsyncBufRead", "poll_fill_buf")),
    (("BufRead", "consume"), ("AsyncBufRead", "consume")),
    (("Seek", "seek"), ("AsyncSeek", "poll_complete")),
    (("Write", "write"), ("AsyncWrite", "poll_write")),
    (("Write", "flush"), ("AsyncWrite", "poll_flush")),
    (("Write", "write"), ("Write", "write_vectored")),
    (("Read", "read"), ("Read", "read_vectored")),
]
# rows that hold for one adaptor type only: the parts of a split rayon producer count like the sequential iterator but never
# finish the shared bar (R-RAYON-SPLIT-NO-FINISH; the bar finishes when its last handle is dropped)
SPEC_BY_TYPE = {
    ("rayon::ProgressPart", "Iterator", "next"): {"inc@some:const1"},
    ("rayon::ProgressPart", "DoubleEndedIterator", "next_back"): {"inc@some:const1"},
}

SPEC_BY_TYPE_KEYS = {(k[1], k[2]) for k in SPEC_BY_TYPE}

IGNORED_TRAITS = ("std::fmt::Debug", "std::clone::Clone", "std::iter::FusedIterator")

VALUE_PRESERVING = (
    r"std::result::Result::<T, E>::map", r"std::task::Poll::<T>::map", r"std::option::Option::<T>::map", r"std::ops::Try::branch",
    r"std::ops::FromResidual::from_residual", r"std::pin::Pin::<Ptr>::new", r"std::ops::Deref::deref", r"std::ops::DerefMut::deref_mut",
    r"std::pin::Pin::<&'a mut T>::get_mut", r"std::pin::Pin::<Ptr>::as_mut", r"std::clone::Clone::clone", r"rayon::ProgressConsumer::<C>::new",
    r"std::convert::Into::into", r"std::convert::From::from",
)


def tshort(t):
    return re.sub(r"<.*$", "", t or "").rsplit("::", 1)[-1]


def wrapper_methods(crate):
    out = []
    for n, b in sorted(crate.bodies.items()):
        if b.kind == "Closure" or not b.impl or not b.impl.get("trait"):
            continue
        tr = b.impl["trait"]
        if tr in IGNORED_TRAITS or tr.startswith("std::marker") or tr.startswith("std::ops::Drop"):
            continue
        sh = b.impl.get("self_head") or ""
        st = b.impl.get("self_ty", "")
        if sh in WRAPPERS or "::Callback<" in st:
            out.append(b)
    return out


def inner_calls(b):
    tr = b.impl["trait"]
    m = K.meth(b.name)
    out = []
    for c in b.calls():
        if c.callee.get("trait") == tr and K.meth(c.generic) == m and c.args:
            sl = b.slice_args(c, [0])
            if any(sl.has_field(f) for f in INNER_FIELDS):
                out.append(c)
    return out


def closures_built(crate, b):
    """(closure body, consuming call, arg index) for closures constructed in b."""
    out = []
    for i, j, s in b.assigns():
        rv = s["rv"]
        if rv["k"] == "agg" and rv["ak"] == "closure" and rv["def"] in crate.bodies:
            l = s["lhs"]["l"]
            for c in b.calls():
                for k, a in enumerate(c.args):
                    if operand_local(a) == l and (i == c.bb or c.bb in b.reach_after(i)):
                        out.append((crate.bodies[rv["def"]], c, k))
    return out


COMBINATOR_TAG = {r"std::result::Result::<T, E>::map": "ok", r"std::task::Poll::<T>::map": "ready", r"std::option::Option::<T>::map": "some",
                  r"std::result::Result::<T, E>::and_then": "ok", r"std::result::Result::<T, E>::inspect": "ok",
                  r"std::result::Result::<T, E>::map_err": "err", r"std::result::Result::<T, E>::inspect_err": "err",
                  r"std::option::Option::<T>::inspect": "some"}
PRIO = ["err", "none", "ok", "some", "ready", "always", "cond", "unknown"]


def combine(a, b):
    if a in (None, "always"):
        return b
    if b in (None, "always"):
        return a
    for p in PRIO:
        if a == p or b == p:
            return p
    return "unknown"


class _TagList(list):
    """list of (tag, region) that also remembers the controlling edge of each entry in .edges (same order)."""
    def __init__(self):
        super().__init__()
        self.edges = []

    def add(self, b, tag, edge):
        self.append((tag, b.edge_region(edge)))
        self.edges.append((tag, edge))


def region_tags(crate, b, inner):
    """List of (tag, region) for regions of b controlled by the inner call's result (edges in .edges)."""
    inner_bbs = {c.bb for c in inner}
    out = _TagList()

    def from_inner(sl):
        return any(c.bb in inner_bbs for c in sl.calls)

    for c in b.calls(K.TRY_BRANCH):
        if from_inner(b.slice_args(c, [0])):
            e = K.try_edges(b, c)
            if e:
                # `?` on an Option (`let item = self.it.next()?;`): Continue = Some, Break = None
                ta = " ".join(c.callee.get("targs") or [])
                on_option = ta.startswith("std::option::Option<")
                out.add(b, "some" if on_option else "ok", (e[0], e[1]))
                out.add(b, "none" if on_option else "err", (e[0], e[2]))
    for sb, t, pl, d in K.discr_switches(b):
        if not from_inner(b.slice(pl, at=sb)):
            continue
        head = K.head_of_type(pl.get("ty", ""))
        tagmap = {"std::option::Option": {"Some": "some", "None": "none"}, "std::result::Result": {"Ok": "ok", "Err": "err"},
                  "std::task::Poll": {"Ready": "ready", "Pending": "pending"}}.get(head)
        if not tagmap:
            continue
        for tgt, vs in K.edge_variants(crate, t, head).items():
            if len(vs) == 1:
                out.add(b, tagmap[next(iter(vs))], (sb, tgt))
    for sb, t in b.switches():
        sl = b.slice(t["op"], at=sb)
        if not from_inner(sl):
            continue
        z = [tb for v, tb in t["targets"] if v == 0]
        if not z:
            continue
        if sl.has_call(r"std::option::Option::<T>::is_some"):
            out.add(b, "some", (sb, t["otherwise"]))
            out.add(b, "none", (sb, z[0]))
        elif sl.has_call(r"std::option::Option::<T>::is_none"):
            out.add(b, "none", (sb, t["otherwise"]))
            out.add(b, "some", (sb, z[0]))
        elif sl.has_call(r"std::result::Result::<T, E>::is_ok"):
            out.add(b, "ok", (sb, t["otherwise"]))
            out.add(b, "err", (sb, z[0]))
    return out


def amount_class(crate, x, e, inner, payload_param):
    """Classify the amount argument of effect call e in body x."""
    if len(e.args) < 2:
        return "-"
    a = e.args[1]
    v = const_val(a)
    if isinstance(v, int) and not isinstance(v, bool):
        return "const%d" % v
    sl = x.slice_args(e, [1])
    inner_bbs = {c.bb for c in inner} if x is not None and inner and inner[0].body is x else set()
    if any(c.matches(r"tokio::io::ReadBuf::<'a>::filled") for c in sl.calls) and (("binop", "SubWithOverflow") in sl.atoms or ("binop", "Sub") in sl.atoms):
        return "filled-delta"
    lens = [c for c in sl.calls if K.meth(c.path) == "len"]
    if lens:
        # len() of a parameter slice (e.g. read_exact's buf) even if the wrapped call filled it
        refs = x.ref_origins()
        if all(any(tl <= x.arg_count and tl >= 2 and not tp for tl, tp in refs.get(operand_local(c.args[0]), ())) for c in lens):
            return "len(param)"
    if inner_bbs and any(c.bb in inner_bbs for c in sl.calls):
        return "len(inner)" if lens else "inner"
    if payload_param is not None and payload_param in sl.params():
        return "len(inner)" if lens else "inner"
    # a value captured by the closure that holds the effect (`let len = buf.len() as u64; inner(buf).map(|()| inc(len))`): classify
    # what the enclosing function captured
    ups = [a_ for a_ in sl.atoms if a_[0] == "upvar"]
    if ups and not lens and "::{closure" in x.name:
        parent = crate.bodies.get(x.name.rsplit("::{closure", 1)[0])
        if parent is not None:
            for i_, j_, st_ in parent.assigns():
                rv_ = st_["rv"]
                if rv_["k"] == "agg" and rv_.get("ak") == "closure" and rv_.get("def") == x.name:
                    kinds = set()
                    for fn_, op_ in zip(rv_.get("fields", []), rv_.get("ops", [])):
                        if any(fn_.endswith(u_[1]) for u_ in ups) and "progress" not in fn_:
                            psl = parent.slice(op_, at=i_)
                            plens = [c for c in psl.calls if K.meth(c.path) == "len"]
                            prefs = parent.ref_origins()
                            if plens and all(any(2 <= tl <= parent.arg_count for tl, tp in prefs.get(operand_local(c.args[0]), ())) for c in plens) and \
                                    not [c for c in psl.calls if not c.matches(r".*::len", r".*deref.*")]:
                                kinds.add("len(param)")
                            else:
                                kinds.add("?")
                    if kinds == {"len(param)"}:
                        return "len(param)"
    if sl.params() and not [c for c in sl.calls if not c.matches(r".*::len", r".*deref.*")]:
        # (`buf.len()` on a slice parameter itself is not a call in MIR but the pointer's metadata)
        return "len(param)" if lens or ("unop", "PtrMetadata") in sl.atoms else "param"
    if sl.consts() and not sl.params() and not sl.calls:
        return "const"
    return "other"


def collect_effects(crate, m, inner):
    """All effect calls of wrapper method m including those in closures applied to the inner result."""
    out = []

    def visit(x, tag, payload_param, depth):
        regs = region_tags(crate, x, inner) if x is m else []
        rets = x.return_blocks()
        for e in x.calls(*EFFECTS):
            if x is m:
                tags = [t for t, reg in regs if e.bb in reg]
                if tags:
                    loc = sorted(tags, key=PRIO.index)[0]
                elif all(x.dominates(e.bb, r) for r in rets):
                    loc = "always"
                else:
                    loc = "cond"
            else:
                loc = tag if all(x.dominates(e.bb, r) for r in rets) else combine(tag, "cond")
            kind = "inc" if e.matches(INC) else "set_position" if e.matches(SETPOS) else "finish" if e.matches(FIN) else K.meth(e.path)
            amt = amount_class(crate, x, e, inner, payload_param) if kind in ("inc", "set_position") else "-"
            out.append((kind, loc, amt, e))
        if depth > 3:
            return
        for (cb, k, argi) in closures_built(crate, x):
            ctag = None
            for pat, t in COMBINATOR_TAG.items():
                if k.matches(pat):
                    ctag = t
            if ctag is None:
                ctag = "unknown"
            # is the combinator applied to the inner result (or the payload received by this closure)?
            rsl = x.slice_args(k, [0])
            applied = (x is m and any(c.bb in {i.bb for i in inner} for c in rsl.calls)) or (x is not m and payload_param in rsl.params())
            if x is m:
                regtag = [t for t, reg in regs if k.bb in reg]
                base = sorted(regtag, key=PRIO.index)[0] if regtag else ("always" if all(x.dominates(k.bb, r) for r in rets) else "cond")
            else:
                base = tag
            visit(cb, combine(base, ctag) if applied else "unknown", 2 if applied else None, depth + 1)

    visit(m, "always", None, 0)
    return out


def sigs(effs):
    return {"%s@%s:%s" % (k, loc, amt) for k, loc, amt, e in effs}


def rule_wrap_effects(ctx, crate):
    """R-WRAP-PASSTHROUGH / R-WRAP-EFFECT / R-WRAP-SIBLINGS over every adaptor method (shared with C05: the position an adaptor
    reports goes through the rate-limited setters `inc`/`set_position`, never through `update`, which bypasses the 1 ms limiter - seed C05o)."""
    cfg = crate.config
    methods = wrapper_methods(crate)
    floor = 14
    if "tokio" in crate.features:
        floor += 8
    if "futures" in crate.features:
        floor += 1
    if "rayon" in crate.features:
        floor += 21
    ctx.floor("R-WRAP-PASSTHROUGH", len(methods), floor, cfg, "wrapper trait methods")
    rows = {}
    for m in methods:
        tr, name = tshort(m.impl["trait"]), K.meth(m.name)
        inner = inner_calls(m)
        rule_passthrough(ctx, crate, m, inner)
        effs = collect_effects(crate, m, inner)
        # (the sibling table compares the public adaptor's rows; a helper type implementing the same trait gets its own key)
        rk = (tr, name) if (m.impl.get("self_head") or "") == "iter::ProgressBarIter" or (tr, name) not in SPEC_BY_TYPE_KEYS else ("%s:%s" % ((m.impl.get("self_head") or "").rsplit("::", 1)[-1], tr), name)
        rows[rk] = (m, effs)
        rule_effect(ctx, crate, m, tr, name, effs)
    rule_siblings(ctx, crate, rows)
    return methods, rows


def run(ctx, crate):
    cfg = crate.config
    K.rule_no_unsafe(ctx, crate)
    methods, rows = rule_wrap_effects(ctx, crate)
    rule_constructors(ctx, crate)
    rule_rayon_shares_bar(ctx, crate)
    rule_wrapper_impl_bounds(ctx, crate)
    # "exhausting an iterator finishes the bar according to its finish behaviour": what each behaviour does to position, message and
    # status (an abandoned bar keeps the number of items it counted: seed C17n merged AbandonWithMessage into the jump-to-length arms)
    from .c04 import rule_finish_arms
    rule_finish_arms(ctx, crate)
    # "does not change the ... return values ... seen by the caller": the provided methods of these traits whose *default* answers
    # without asking the wrapped value ((0, None), None) must be forwarded too - collect(), zip() and rayon's collectors act on them
    QUERIES = {"std::iter::Iterator": ("size_hint",), "futures_core::Stream": ("size_hint",), "rayon::iter::ParallelIterator": ("opt_len",)}
    have = {((m.impl.get("self_head") or m.impl.get("self_ty") or "").split("<")[0], m.impl["trait"], K.meth(m.name)) for m in methods}
    for im in crate.impls:
        if (im.get("self_head") or "") not in WRAPPER_TYPES or im["trait"] not in QUERIES:
            continue
        for q in QUERIES[im["trait"]]:
            ctx.check((im.get("self_head"), im["trait"], q) in have, "R-WRAP-PASSTHROUGH", "%s::%s:forwarded" % (tshort(im["trait"]), q), "<%s as %s>" % (im["self_ty"], im["trait"]), "%s:%d" % (im["file"], im["line"]),
                      "%s::%s is forwarded to the wrapped value" % (tshort(im["trait"]), q),
                      "%s does not override %s::%s: the caller sees the trait's default answer instead of the wrapped value's (`v.iter().progress().size_hint()` is (0, None))" % (
                          im["self_ty"], tshort(im["trait"]), q), cfg)
    rule_rayon_split_no_finish(ctx, crate)
    # "... for every split of a parallel iterator across worker threads" (and clones used from several threads): the counting
    # primitive the adaptors call is one atomic read-modify-write
    from .c07 import rule_pos_atomic_rmw
    rule_pos_atomic_rmw(ctx, crate)
    # "exhausting an iterator finishes the bar according to its finish behaviour" — every time, also after a reset
    from .c04 import rule_on_finish_writers
    rule_on_finish_writers(ctx, crate)
    ctx.extra.setdefault("wrapper_rows", {})[cfg] = {"%s::%s" % k: sorted(sigs(v[1])) for k, v in sorted(rows.items())}


def rule_passthrough(ctx, crate, m, inner, rule="R-WRAP-PASSTHROUGH"):
    cfg = crate.config
    name = K.meth(m.name)
    key = "%s::%s" % (tshort(m.impl["trait"]), name)
    if len(inner) != 1:
        ctx.bad(rule, key + ":one-inner-call", m.name, K.fn_loc(m),
                "expected exactly one call to the wrapped object's %s, found %d" % (name, len(inner)), cfg)
        return
    c = inner[0]
    ctx.check(all(m.dominates(c.bb, r) for r in m.return_blocks()) and not m.in_loop(c.bb), rule, key + ":always-called", m.name, c.loc(),
              "the wrapped method is called exactly once on every path", "the wrapped method is skipped or repeated on some path", cfg)
    # arguments forwarded in order
    ok_args = len(c.args) == m.arg_count
    problems = []
    for i in range(2, m.arg_count + 1):
        if i - 1 >= len(c.args):
            problems.append("parameter %d not forwarded" % i)
            continue
        sl = m.slice_args(c, [i - 1])
        ps = sl.params()
        other_calls = [x for x in sl.calls if not x.matches(*VALUE_PRESERVING) and not (x.callee.get("local") and re.search(r"Progress(Consumer|Producer|Folder)", x.path))]
        wraps = [a for a in sl.atoms if a[0] == "agg" and (a[1].startswith("rayon::") or "Callback" in a[1])]
        binops = [a for a in sl.atoms if a[0] == "binop"]
        if i not in ps or (ps - {i, 1}) or other_calls or binops or (1 in ps and not wraps and not [x for x in sl.calls if x.callee.get("local")]):
            problems.append("argument %d is not parameter %d unchanged (params %s, calls %s)" % (i - 1, i, sorted(ps), [x.path for x in other_calls][:3]))
    ctx.check(ok_args and not problems, rule, key + ":args-forwarded", m.name, c.loc(),
              "all %d parameter(s) are forwarded in order, unchanged or wrapped in the crate's progress wrappers" % (m.arg_count - 1),
              "; ".join(problems) or "argument count differs", cfg)
    # return value derives from the inner result
    if (crate.fns.get(m.name) or {}).get("ret", {}).get("ty") == "()":
        ctx.ok(rule, key + ":result-returned", m.name, K.fn_loc(m), "unit return type: nothing to pass back", cfg, nontrivial=False)
        return
    rsl = m.slice([0], through_calls=True)
    from_inner = any(x.bb == c.bb for x in rsl.calls)
    unit_ok = False
    if not from_inner:
        # `inner(..)?; ...; Ok(())` : unit success after error propagation
        oks = [(i, s) for i, j, s in m.assigns() if s["lhs"]["l"] == 0 and s["rv"]["k"] == "agg" and s["rv"].get("variant") in ("Ok", "Ready", "Some")]
        regs = [reg for t, reg in region_tags(crate, m, inner) if t == "ok"]
        unit_ok = bool(oks) and all(any(i in reg for reg in regs) and m.locals[operand_local(s["rv"]["ops"][0]) or 0]["ty"] == "()" for i, s in oks)
    alien = [x for x in rsl.calls if x.bb != c.bb and not x.matches(*VALUE_PRESERVING) and x.bb in m.reach_after(c.bb)
             and not x.matches(*EFFECTS) and not re.search(r"Progress(Consumer|Producer|Folder|BarIter)", x.path)
             and not x.matches(r"std::ops::FnOnce::call_once", r"rayon::iter::plumbing::.*")]
    arith = [a for a in rsl.atoms if a[0] == "binop" and a[1] not in ("Eq", "Ne")]
    # arithmetic only counts if it is between the inner result and the return
    arith_after = []
    for d in rsl.defs:
        if d["kind"] == "assign" and d["rv"]["k"] == "bin" and d["bb"] in m.reach_after(c.bb) | {c.bb}:
            arith_after.append(d["rv"]["op"])
    ctx.check((from_inner or unit_ok) and not alien and not arith_after, rule, key + ":result-returned", m.name, K.fn_loc(m),
              "the returned value is the wrapped call's result through value-preserving wrappers only",
              "the returned value %s" % ("does not derive from the wrapped call's result" if not (from_inner or unit_ok) else
                                        "is altered on the way out (%s)" % ([x.path for x in alien] + arith_after)), cfg)
    # closures applied to the result return their argument unchanged
    for (cb, k, argi) in closures_built(crate, m):
        check_identity_closure(ctx, crate, m, cb, rule, key, depth=0)


def check_identity_closure(ctx, crate, m, cb, rule, key, depth):
    cfg = crate.config
    nested = closures_built(crate, cb)
    if cb.locals[0]["ty"] == "()":
        for (cb2, k2, a2) in (nested if depth < 3 else []):
            check_identity_closure(ctx, crate, m, cb2, rule, key, depth + 1)
        return
    sl = cb.slice([0], through_calls=True)
    ok = (2 in sl.params()) and not [a for a in sl.atoms if a[0] == "binop"] and not [x for x in sl.calls if not x.matches(*VALUE_PRESERVING) and not x.matches(r"rayon::.*|.*Progress.*")]
    if cb.calls(r"std::thread::JoinHandle::<T>::join") or "rayon" in cb.file:
        return
    ctx.check(ok, rule, key + ":closure-identity#%d" % depth, cb.name, K.fn_loc(cb),
              "the closure applied to the result returns its argument unchanged", "a closure applied to the wrapped result changes the value it passes on", cfg)
    if depth < 3:
        for (cb2, k2, a2) in nested:
            check_identity_closure(ctx, crate, m, cb2, rule, key, depth + 1)


FAILURE_OF = {"some": ("none",), "ok": ("err",), "ready": ("pending", "err")}


def rule_effect_exact(ctx, crate, m, tr, name, effs, rule="R-WRAP-EFFECT"):
    """"advances by exactly the number transferred": a counting effect placed on the success side of the wrapped call's
    result must be executed on EVERY path on which the result is a success — no further condition (bar finished, hidden,
    ...) may skip it. Paths are those of the method with all failure edges of tests on the wrapped result removed."""
    cfg = crate.config
    key = "%s::%s" % (tr, name)
    inner = inner_calls(m)
    if len(inner) != 1:
        return
    regs = region_tags(crate, m, inner)
    for kind in ("inc", "set_position"):
        es = [(loc, e) for k, loc, amt, e in effs if k == kind and e.body is m and loc in FAILURE_OF]
        if not es:
            continue
        loc = es[0][0]
        avoid = [edge for tag, edge in regs.edges if tag in ("none", "err", "pending")]
        start = m.term(inner[0].bb).get("t")
        if start is None:
            continue
        eff_bbs = {e.bb for l, e in es}
        escaped = set(m.reach([start], avoid=eff_bbs, avoid_edges=avoid)) & set(m.return_blocks())
        ctx.check(not escaped, rule, key + ":counts-every-success", m.name, es[0][1].loc(),
                  "every path on which the wrapped call succeeded executes the %s" % kind,
                  "a transferred item/byte count can go uncounted: a path on which the wrapped %s succeeded returns without %s "
                  "(an extra condition guards the counting)" % (name, kind), cfg)


def rule_effect(ctx, crate, m, tr, name, effs, rule="R-WRAP-EFFECT"):
    cfg = crate.config
    key = "%s::%s" % (tr, name)
    rule_effect_exact(ctx, crate, m, tr, name, effs, rule)
    want = SPEC_BY_TYPE.get(((m.impl.get("self_head") or ""), tr, name), SPEC.get((tr, name)))
    if want is None:
        ctx.bad(rule, key + ":unlisted", m.name, K.fn_loc(m), "wrapper method %s has no row in the effect table (new adaptor method: its counting is unchecked)" % key, cfg)
        return
    have = sigs(effs)
    alts = want if isinstance(want, list) else [want]
    want = alts[0]
    for a in alts:
        if have == a:
            want = a
    # exactly-once: no effect inside a loop, no duplicates
    dup = len(effs) != len(have) or any(e.body.in_loop(e.bb) for k, l, a, e in effs)
    ok = have == want and not dup
    loc = effs[0][3].loc() if effs else K.fn_loc(m)
    ctx.check(ok, rule, key, m.name, loc,
              "effects %s match the table" % (sorted(have) or "none"),
              "position effect of %s is %s, expected %s%s" % (key, sorted(have) or "none", sorted(want) or "none", " (duplicated/looped)" if dup else ""), cfg)
    # finish guarded by !is_finished (shared with C04)
    for k, l, a, e in effs:
        if k == "finish":
            b = e.body
            g = False
            for sb, t in b.switches():
                if b.slice(t["op"], at=sb).has_call(r"progress_bar::ProgressBar::is_finished"):
                    z = [tb for v, tb in t["targets"] if v == 0]
                    if z and b.edge_dominates((sb, z[0]), e.bb):
                        g = True
            ctx.check(g, rule, key + ":finish-once", m.name, e.loc(), "finish is guarded by !is_finished()",
                      "an already finished bar is finished again on exhaustion", cfg)


def rule_siblings(ctx, crate, rows, rule="R-WRAP-SIBLINGS"):
    cfg = crate.config
    n = 0
    for a, b in SIBLINGS:
        if a in rows and b in rows:
            n += 1
            sa, sb_ = sigs(rows[a][1]), sigs(rows[b][1])
            ctx.check(sa == sb_, rule, "%s::%s~%s::%s" % (a + b), rows[b][0].name, K.fn_loc(rows[b][0]),
                      "siblings agree: %s" % (sorted(sa) or "no effect"),
                      "sibling implementations disagree: %s::%s has %s, %s::%s has %s" % (a[0], a[1], sorted(sa) or "none", b[0], b[1], sorted(sb_) or "none"), cfg)
    ctx.floor(rule, n, 3, cfg, "sibling pairs present")


def rule_constructors(ctx, crate, rule="R-WRAP-CONSTRUCT"):
    cfg = crate.config
    n = 0
    for (b, i, j, s) in K.constructions(crate, "iter::ProgressBarIter"):
        if b.file in K.TEST_DOUBLE_FILES:
            continue
        rv = s["rv"]
        it = rv["ops"][rv["fields"].index("it")]
        pr = rv["ops"][rv["fields"].index("progress")]
        n += 1
        sli = b.slice(it, at=i)
        slp = b.slice(pr, at=i)
        ok_it = bool(sli.params()) and not [x for x in sli.calls if not x.matches(r".*::into_iter", *VALUE_PRESERVING)]
        # (the adaptor's own builder methods rebuild the wrapper around the caller's bar after a ProgressBar::with_* call on it)
        ok_pr = bool(slp.params()) and not [x for x in slp.calls if not x.matches(r"std::clone::Clone::clone", r".*::clone", r"progress_bar::ProgressBar::with_\w+", *VALUE_PRESERVING)]
        ctx.check(ok_it and ok_pr, rule, "construct:%s" % K.meth(b.name), b.name, "%s:%d" % (b.file, s.get("line", 0)),
                  "ProgressBarIter { it: the wrapped object, progress: the caller's bar }", "ProgressBarIter is built from something other than the wrapped object and the caller's bar", cfg)
    ctx.floor(rule, n, 3, cfg, "ProgressBarIter constructions")


def rule_rayon_shares_bar(ctx, crate, rule="R-RAYON-SHARES-BAR"):
    """split_at/split_off_left/into_folder/into_iter/consume hand the *same* bar (clone or move of the
    wrapper's own progress field) to every part they create."""
    cfg = crate.config
    if "rayon" not in crate.features:
        return
    n = 0
    for b in crate.bodies.values():
        if b.file != "src/rayon.rs":
            continue
        for i, j, s in b.assigns():
            rv = s["rv"]
            if rv["k"] == "agg" and rv["ak"] == "adt" and "progress" in rv.get("fields", []) and (rv["adt"].startswith("rayon::") or rv["adt"] == "iter::ProgressBarIter"):
                if b.name.endswith("::new") or "progress_with" in b.name:
                    continue
                op = rv["ops"][rv["fields"].index("progress")]
                sl = b.slice(op, at=i)
                n += 1
                ok = sl.has_field("progress") and sl.params() <= {1} and not sl.has_call(r"progress_bar::ProgressBar::(new|with_draw_target|hidden|new_spinner|no_length)")
                ctx.check(ok, rule, "part:%s" % K.meth(b.name), b.name, "%s:%d" % (b.file, s.get("line", 0)),
                          "the new part receives the wrapper's own bar", "a split/part receives a different bar than the wrapper's", cfg)
        for c in b.calls(r"rayon::ProgressConsumer::<C>::new"):
            if b.name.endswith("::new"):
                continue
            sl = b.slice_args(c, [1])
            n += 1
            ok = sl.has_field("progress") and sl.params() <= {1}
            ctx.check(ok, rule, "consumer-part:%s" % K.meth(b.name), b.name, c.loc(), "the new consumer receives the wrapper's own bar",
                      "a consumer part receives a different bar", cfg)
    ctx.floor(rule, n, 8, cfg, "rayon wrapper parts")


def rule_rayon_split_no_finish(ctx, crate, rule="R-RAYON-SPLIT-NO-FINISH"):
    """"for every split of a parallel iterator across worker threads": a rayon producer is split into parts that share one
    bar; each part is iterated sequentially through the iterator type its `Producer::into_iter` returns. That iterator may
    count, but it must not *finish* the bar when it runs out of items — the first part to be exhausted would finish the shared
    bar (position := length for the finishing variants) while the other parts still count, and the final position is wrong.
    Checked: no method of Iterator / DoubleEndedIterator / ExactSizeIterator implemented for the returned type can reach
    BarState::finish_using_style (call graph, trait methods resolved)."""
    cfg = crate.config
    if "rayon" not in crate.features:
        return
    g = K.callgraph(crate)
    fin = {n for n in g if re.fullmatch(r"state::BarState::finish_using_style|progress_bar::ProgressBar::(finish\w*|abandon\w*)", n)}
    n = 0
    for b in crate.bodies.values():
        tr = (b.impl or {}).get("trait") or ""
        if b.file != "src/rayon.rs" or not tr.startswith("rayon::iter::plumbing::Producer") or K.meth(b.name) != "into_iter":
            continue
        head = K.head_of_type(b.locals[0]["ty"])
        meths = [m for m in crate.bodies.values() if (m.impl or {}).get("trait", "").startswith(("std::iter::Iterator", "std::iter::DoubleEndedIterator", "std::iter::ExactSizeIterator"))
                 and K.head_of_type((m.impl or {}).get("self_ty", "") or "") == head and m.kind != "Closure"]
        if not meths:
            ctx.lost(rule, cfg, "no Iterator impl found for %s (returned by %s)" % (head, b.name))
            continue
        for m in meths:
            n += 1
            # (drop glue of the shared state is not a call this method makes: the Drop impl of BarState finishes the bar when
            # the *last* handle goes away, which is the intended end of a parallel run)
            # Calls on the wrapped iterator (a type parameter: `self.it.next()`) are not followed either - only calls the method
            # itself resolves to a concrete crate function.
            reach, work = set(), [m.name]
            while work:
                x = work.pop()
                if x in reach or x not in crate.bodies:
                    continue
                reach.add(x)
                xb = crate.bodies[x]
                for c in xb.calls():
                    if c.path in crate.bodies and c.callee.get("rk") != "unresolved":
                        work.append(c.path)
                for cb in crate.closures_of(x):
                    work.append(cb.name)
            hit = sorted(reach & fin)
            ctx.check(not hit, rule, "split-iterator:%s::%s" % (head.rsplit("::", 1)[-1], K.meth(m.name)), m.name, K.fn_loc(m),
                      "iterating one part of a split producer never finishes the shared bar",
                      "the iterator handed to every part of a split rayon producer (%s) finishes the bar when that part runs out (%s): the first exhausted part sets the shared "
                      "position to the length while the other parts still count - `par_iter().progress().rev()/.zip(..)/.chunks(..)` end near 2 x len" % (head, K.meth(hit[0]) if hit else ""), cfg)
    ctx.floor(rule, n, 2, cfg, "iterator methods of the type handed to rayon splits")


WRAPPER_TYPES = ("iter::ProgressBarIter", "rayon::ProgressProducer", "rayon::ProgressPart", "rayon::ProgressConsumer", "rayon::ProgressFolder")
OWN_TRAITS = ("std::clone::Clone", "std::fmt::Debug", "std::marker::Send", "std::marker::Sync", "std::marker::Unpin", "std::ops::Drop")


def rule_wrapper_impl_bounds(ctx, crate, rule="R-WRAP-IMPL-BOUNDS"):
    """"does not change the items seen by the caller", also through what the adaptor *claims* about itself: every trait the
    wrapper implements is a promise the standard library and other adaptors act on without calling any method
    (`FusedIterator` makes `.fuse()` a pass-through, `ExactSizeIterator`/`TrustedLen` size buffers, `DoubleEndedIterator` lets
    `rev()` compile). The wrapper only forwards, so it can keep such a promise exactly when the wrapped value makes it: the
    impl of trait Tr for a wrapper is bounded by `Inner: Tr`. Read from the impl headers (marker impls have no bodies): an impl
    whose bounds do not mention the trait itself on a type parameter is reported."""
    cfg = crate.config
    n = 0
    for im in crate.impls:
        head = im.get("self_head") or ""
        if head not in WRAPPER_TYPES or im["trait"] in OWN_TRAITS or im["file"] in K.TEST_DOUBLE_FILES:
            continue
        n += 1
        tr = im["trait"]
        ok = any(p.startswith("TraitPredicate(<") and (" as %s>" % tr in p or " as %s<" % tr in p) and "polarity:Positive" in p for p in im["preds"])
        ctx.check(ok, rule, "bounded-by-inner:%s:%s" % (head.rsplit("::", 1)[-1], tr.rsplit("::", 1)[-1]), "<%s as %s>" % (im["self_ty"], tr), "%s:%d" % (im["file"], im["line"]),
                  "the wrapper implements %s only for an inner value that implements it" % tr.rsplit("::", 1)[-1],
                  "%s implements %s without requiring it of the wrapped value (bounds: %s): the wrapper forwards to the inner value and cannot keep a promise the inner "
                  "value does not make - e.g. FusedIterator for any Iterator turns `.fuse()` into a pass-through that keeps yielding after the first None" % (
                      im["self_ty"], tr, "; ".join(p.split(",")[0].replace("TraitPredicate(", "") for p in im["preds"] if "Sized" not in p) or "none"), cfg)
    floor = 8 + (4 if "tokio" in crate.features else 0) + (1 if "futures" in crate.features else 0) + (9 if "rayon" in crate.features else 0)
    ctx.floor(rule, n, floor, cfg, "trait impls of the adaptor types")
