"""C08 — no deadlock; steady-tick thread lifecycle."""
import re

from .. import common as K
from .. import lockgraph as L
from ..facts import Call, operand_local, place_fields, is_const

EXPLANATION = ("Decides deadlock freedom as acyclicity of the lock-order + join graph over lock classes (guarded types found "
               "in the crate, plus J(thread body) for JoinHandle::join), with held sets from a drop-flag-sensitive dataflow, "
               "acquire summaries through calls, closures, drop glue and trait fan-out; no guard is held across a blocking "
               "wait except a condvar's own mutex; the ticker thread captures only Weak/stop-pair state; the stop protocol "
               "(flag store under the mutex, then notify; predicate wait; stop before join; re-check finished/upgrade every "
               "iteration; guard and Arc released before waiting); manual ticks are gated on the ticker slot; no public "
               "signature returns a guard.")
UNDECIDED = "'Promptly' as a duration, and that a finished bar's ticker exits before its interval elapses (timing)."

B_CLASS = "state::BarState"
T_CLASS = "std::option::Option<progress_bar::Ticker>"
M_CLASS = "multi::MultiState"


def short(c):
    if c.startswith("J("):
        return "J"
    return L.SHORT.get(c, c)


def run(ctx, crate):
    cfg = crate.config
    K.rule_no_unsafe(ctx, crate)
    g = L.LockGraph(crate)
    ctx.extra.setdefault("lock_graph", {})[cfg] = {
        "classes": sorted(L.cname(n) for n in g.nodes()),
        "edges": sorted("%s -> %s (%d sites)" % (L.cname(a), L.cname(b), len(w)) for (a, b), w in g.edges.items()),
        "thread_bodies": sorted(g.thread_bodies),
    }
    rule_lock_order(ctx, crate, g)
    rule_no_guard_across_block(ctx, crate, g)
    rule_ticker_weak(ctx, crate, g)
    rule_stop_protocol(ctx, crate, g)
    rule_manual_tick_gated(ctx, crate)
    rule_no_guard_escape(ctx, crate)
    rule_ticker_exit_conditions(ctx, crate)
    # a panic in the ticker thread ends it silently with the slot still occupied (same frozen bar): the thread's own code
    # (progress_bar.rs only: the draw path is covered by C14/C18, the drop of the last state reference by C04) has no
    # unaudited panic edge
    from .. import ledger as Lg
    Lg.run_ledger(ctx, crate, "C08", "R-TICKER-THREAD-TOTAL", [r"progress_bar::TickerControl::run", r"progress_bar::Ticker::new::\{closure#0\}"],
                  [r"(state|multi|draw_target|style|format|iter)::.*", r"<(state|multi|draw_target|style|format|iter)::.*"], floor_edges=1)


def no_nested_multi(ctx, crate):
    """Side condition discharging the M->M self loop: a MultiState's own draw target is never of kind
    Multi. TargetKind::Multi is built only by ProgressDrawTarget::new_remote (pub(crate)), whose only
    caller stores it into a bar via ProgressBar::set_draw_target."""
    cfg = crate.config
    problems = []
    cons = K.constructions(crate, "draw_target::TargetKind", "Multi")
    for (b, i, j, s) in cons:
        if b.name != "draw_target::ProgressDrawTarget::new_remote":
            problems.append("TargetKind::Multi constructed in %s" % b.name)
    f = crate.fns.get("draw_target::ProgressDrawTarget::new_remote")
    if not f or f["api"]:
        problems.append("new_remote is reachable from the public API")
    callers = crate.callers().get("draw_target::ProgressDrawTarget::new_remote", [])
    for c in callers:
        b = c.body
        # the result must flow only into ProgressBar::set_draw_target
        uses = [x for x in b.calls() if any(operand_local(a) == c.dest["l"] for a in x.args)]
        if not uses or not all(x.matches(r"progress_bar::ProgressBar::set_draw_target") for x in uses):
            problems.append("new_remote result used by %s in %s" % ([x.path for x in uses], b.name))
    if not callers:
        problems.append("new_remote has no caller (anchor lost)")
    # MultiState::draw_target is written only from values that are parameters of public constructors / setters
    for b in K.lib_bodies(crate):
        for i, j, s in b.assigns():
            fs = place_fields(s["lhs"])
            if fs and fs[-1][0] == M_CLASS and fs[-1][2] == "draw_target":
                sl = b.slice_rv(i, s)
                if sl.has_call(r"draw_target::ProgressDrawTarget::new_remote") or not sl.params():
                    problems.append("MultiState::draw_target stored from a non-parameter value in %s" % b.name)
        for (bb, i, j, s) in []:
            pass
    for (b, i, j, s) in K.constructions(crate, M_CLASS):
        rv = s["rv"]
        op = rv["ops"][rv["fields"].index("draw_target")]
        sl = b.slice(op, at=i)
        if sl.has_call(r"draw_target::ProgressDrawTarget::new_remote") or not sl.params():
            problems.append("MultiState built with a non-parameter draw target in %s" % b.name)
    return problems, len(cons) + len(callers)


def rule_lock_order(ctx, crate, g, rule="R-LOCK-ORDER"):
    cfg = crate.config
    acqs = sum(len(d) for d in g.direct.values())
    ctx.floor(rule, acqs, 20, cfg, "lock acquisition / join sites")
    ctx.floor(rule, len(g.edges), 6, cfg, "lock-order edges")
    ctx.floor(rule, len(g.thread_bodies), 1, cfg, "spawned thread bodies")
    classes = {n for n in g.nodes() if not n.startswith("J(")}
    for want in (B_CLASS, T_CLASS, M_CLASS, "bool"):
        if want not in classes and not any(want == c for d in g.direct.values() for c, _, _ in d):
            ctx.lost(rule, cfg, "lock class %s no longer found" % want)
    cycles = g.cycles()
    seen_keys = set()
    for cy in cycles:
        # canonical rotation starting at the smallest short name
        names = [short(c) for c in cy]
        k = min(range(len(names)), key=lambda i: names[i:] + names[:i])
        rot = cy[k:] + cy[:k]
        key = "cycle:" + "->".join(short(c) for c in rot)
        if key in seen_keys:
            continue
        seen_keys.add(key)
        witness = []
        for i, a in enumerate(rot):
            b = rot[(i + 1) % len(rot)]
            w = g.edges[(a, b)][0]
            chain = None
            line = "%s -> %s: %s:%d in %s holds %s, %s" % (L.cname(a), L.cname(b), w["file"], w["line"], w["fn"], [short(h) for h in w["held"]] or "-", w["what"])
            witness.append(line)
        if len(rot) == 1 and rot[0] == M_CLASS:
            problems, n = no_nested_multi(ctx, crate)
            ctx.check(not problems, "R-NO-NESTED-MULTI", "self-loop:M", "multi::MultiState", g.edges[(M_CLASS, M_CLASS)][0]["file"] + ":%d" % g.edges[(M_CLASS, M_CLASS)][0]["line"],
                      "class-level M->M self loop is spurious: a MultiState's own draw target is never TargetKind::Multi (%d construction/call sites checked)" % n,
                      "a MultiProgress may draw into another MultiProgress (nested RwLock<MultiState> acquisition): %s" % problems, cfg, witness=witness)
            continue
        fn = g.edges[(rot[0], rot[1 % len(rot)])][0]["fn"]
        ctx.bad(rule, key, "<lock-graph>", "%s:%d" % (g.edges[(rot[0], rot[1 % len(rot)])][0]["file"], g.edges[(rot[0], rot[1 % len(rot)])][0]["line"]),
                "lock-order cycle %s: threads can block each other forever" % " -> ".join(L.cname(c) for c in rot + [rot[0]]), cfg, witness=witness)
    # every edge is an obligation: it lies on no cycle
    cyc_nodes = set()
    for cy in cycles:
        if len(cy) > 1:
            for i, a in enumerate(cy):
                cyc_nodes.add((a, cy[(i + 1) % len(cy)]))
    for (a, b), w in sorted(g.edges.items()):
        if (a, b) in cyc_nodes or a == b:
            continue
        ctx.ok(rule, "edge:%s->%s" % (short(a), short(b)), w[0]["fn"], "%s:%d" % (w[0]["file"], w[0]["line"]),
               "order edge %s -> %s (%d sites) lies on no cycle" % (L.cname(a), L.cname(b), len(w)), cfg)


def rule_no_guard_across_block(ctx, crate, g, rule="R-NO-GUARD-ACROSS-BLOCK"):
    cfg = crate.config
    n = 0
    for b, bb, c, held, own in g.block_sites:
        n += 1
        ctx.check(not held, rule, "%s:%s" % (K.meth(c.path), b.name), b.name, c.loc(),
                  "no guard other than the condvar's own mutex %s is held across %s" % (sorted(short(o) for o in own), K.meth(c.path)),
                  "guard(s) %s held across the blocking call %s" % (sorted(short(h) for h in held), c.path), cfg)
        if c.matches(*L.CONDVAR_WAIT):
            ctx.check(bool(own), rule, "wait-passes-own-guard:%s" % b.name, b.name, c.loc(), "the wait releases its own mutex guard",
                      "condvar wait without its mutex guard", cfg)
    ctx.floor(rule, n, 2, cfg, "blocking call sites (waits, joins, sleeps)")
    # no sleeping/parking primitives in library code
    for b in K.lib_bodies(crate):
        for c in b.calls(*L.OTHER_BLOCKING):
            ctx.bad(rule, "blocking:%s" % K.meth(c.path), b.name, c.loc(), "library code blocks in %s (not interruptible by the stop flag)" % c.path, cfg)


def rule_ticker_weak(ctx, crate, g, rule="R-TICKER-WEAK"):
    cfg = crate.config
    for tb, spawn in sorted(g.thread_bodies.items()):
        b = crate.bodies[tb]
        env = b.locals[1]
        adts = set(env.get("adts", []))
        drops = [d[1] for d in env.get("drops", [])]
        bad = [a for a in ("state::BarState", "progress_bar::ProgressBar", "progress_bar::Ticker", "multi::MultiState", "multi::MultiProgress") if a in adts]
        ctx.check(not bad, rule, "captures", tb, spawn.loc(),
                  "the thread closure owns no strong reference to bar/multi state (captured ADTs: %s)" % sorted(a for a in adts if not a.startswith("std::") or "Weak" in a or "Arc" in a),
                  "the ticker thread captures a strong owner of %s: the bar is kept alive by its own ticker (never exits on last drop) or the thread can join itself" % bad, cfg)
        ctx.check("std::sync::Weak" in adts, rule, "holds-weak", tb, spawn.loc(), "the thread holds a Weak reference", "the thread holds no Weak reference to the bar", cfg)
    ctx.floor(rule, len(g.thread_bodies), 1, cfg, "thread closures")


def rule_stop_protocol(ctx, crate, g, rule="R-STOP-PROTOCOL"):
    cfg = crate.config
    # (1) Ticker::stop: store true through the S guard, then notify
    st = K.find_one(ctx, crate, rule, r"progress_bar::Ticker::stop")
    if st:
        stores = [(i, s) for i, j, s in st.assigns() if "*" in s["lhs"]["p"] and s["lhs"].get("ty") == "bool"]
        notif = st.calls(r"std::sync::Condvar::notify_(one|all)")
        ok = bool(stores) and all(is_const(s["rv"].get("op"), True) for i, s in stores)
        for i, s in stores:
            sl = st.slice(s["lhs"], at=i)
            ok = ok and sl.has_call(r"std::sync::Mutex::<T>::lock")
        ctx.check(ok, rule, "stop-sets-flag-under-mutex", st.name, K.fn_loc(st), "stop() stores true through the flag's mutex guard",
                  "stop() does not set the stop flag under its mutex", cfg)
        ok = bool(notif) and all(any(c.bb in st.reach_after(i) for i, s in stores) and st.must_pass([0], [c.bb]) for c in notif) and \
            all(i not in st.reach_after(c.bb) for c in notif for i, s in stores)
        ctx.check(ok, rule, "notify-after-store", st.name, K.fn_loc(st), "the condvar is notified after the flag store on every path",
                  "notify happens before the flag store / not on every path (lost wake-up: stop waits for the whole interval)", cfg)
        # same pair: both slice to field `stopping`
        for c in notif:
            ctx.check(st.slice_args(c, [0]).has_field("stopping"), rule, "notify-same-pair", st.name, c.loc(), "notify uses the ticker's own condvar",
                      "notify uses a different condvar", cfg)
    # (2) thread body: only predicate waits; predicate reads the flag
    for tb in sorted(g.thread_bodies):
        reach = set()
        work = [tb]
        while work:
            n = work.pop()
            if n in reach or n not in g.bodies:
                continue
            reach.add(n)
            # stay inside progress_bar.rs thread machinery: the draw path has no blocking calls (checked globally)
            work.extend(g.cg.get(n, ()))
        waits = [(b, c) for b, bb, c, held, own in g.block_sites if b.name in reach and c.matches(*L.CONDVAR_WAIT)]
        ctx.check(bool(waits), rule, "thread-waits", tb, "%s:%d" % (crate.bodies[tb].file, crate.bodies[tb].line), "the ticker thread waits on a condvar",
                  "the ticker thread never waits interruptibly", cfg)
        for b, c in waits:
            pred = c.matches(r"std::sync::Condvar::wait_timeout_while", r"std::sync::Condvar::wait_while")
            ctx.check(pred, rule, "predicate-wait", b.name, c.loc(), "the wait is a predicate wait (no lost wake-up, spurious wake-ups handled)",
                      "non-predicate condvar wait: a notify sent before the wait starts is lost and stop blocks for the whole interval", cfg)
            if pred:
                cl = [a[1] for a in b.slice_args(c).atoms if a[0] == "closure" and a[1] in crate.bodies]
                okp = False
                for d in cl:
                    cb = crate.bodies[d]
                    sl = cb.slice([0])
                    okp = okp or (2 in sl.params() and not [k for k in sl.consts() if isinstance(k, bool)])
                ctx.check(okp, rule, "predicate-reads-flag", b.name, c.loc(), "the wait predicate depends on the guarded flag",
                          "the wait predicate ignores the stop flag", cfg)
            sl0 = b.slice_args(c, [0])
            sl1 = b.slice_args(c, [1])
            ctx.check(sl0.has_field("stopping") and sl1.has_field("stopping"), rule, "wait-same-pair", b.name, c.loc(),
                      "condvar and mutex are the two halves of the ticker's stop pair", "condvar and mutex come from different objects", cfg)
    # (3) Drop for Ticker: stop before join
    dr = K.find_one(ctx, crate, rule, r"<progress_bar::Ticker as std::ops::Drop>::drop")
    if dr:
        stops = dr.calls(r"progress_bar::Ticker::stop")
        joins = [c for c in dr.calls() if c.matches(*L.JOIN) or any(cn for cn in [a for a in dr.slice_args(c).atoms if a[0] == "closure"]
                 if cn[1] in crate.bodies and crate.bodies[cn[1]].calls(*L.JOIN))]
        ok = bool(stops) and bool(joins) and all(any(dr.dominates(s.bb, j.bb) and s.bb != j.bb for s in stops) for j in joins)
        ctx.check(ok, rule, "stop-before-join", dr.name, K.fn_loc(dr), "Ticker::drop signals stop before joining the thread",
                  "Ticker::drop joins the thread without (first) signalling stop: the join waits for the whole interval or forever", cfg)
    # (5) "stops promptly ... when steady tick is disabled or replaced": the public entry points reach the replace step whatever
    #     state the bar is in. enable_steady_tick may return early only for the request itself (a zero interval); a return that
    #     depends on the bar (finished, hidden, ..) leaves an installed ticker - possibly a sleeping thread with an hour-long
    #     interval - in charge of the spinner (seed C08l)
    for fn in ("enable_steady_tick", "disable_steady_tick"):
        eb = K.find_one(ctx, crate, rule, r"progress_bar::ProgressBar::" + fn)
        if not eb:
            continue
        repl = {c.bb for c in eb.calls(r"progress_bar::ProgressBar::stop_and_replace_ticker")} | \
            {i for i, j, st in eb.assigns() if "*" in st["lhs"]["p"] and "progress_bar::Ticker" in st["lhs"].get("ty", "") and "Option" in st["lhs"].get("ty", "")}
        bad = []
        for rb in eb.return_blocks():
            if not repl or rb in eb.reach([0], avoid=repl):
                # a path around the replace step: every test that opens it reads only the request (the interval parameter)
                for sb, t in eb.switches():
                    for x in eb.succ(sb):
                        if rb in eb.reach([x], avoid=repl) and any(y != x and (eb.reach([y]) & repl) for y in eb.succ(sb)):
                            sl = eb.slice_switch(sb)
                            if sl.fields() or [k for k in sl.calls if k.callee.get("local")] or 1 in sl.params():
                                bad.append("%s:%d" % (eb.file, t.get("line", 0)))
                if not repl:
                    bad.append(K.fn_loc(eb))
        ctx.check(not bad, rule, "always-replaces:%s" % fn, eb.name, bad[0] if bad else K.fn_loc(eb),
                  "%s reaches the stop-and-replace step on every path except a request that asks for nothing (zero interval)" % fn,
                  "%s can return without stopping/replacing an installed ticker depending on the bar's state: the old steady-tick thread (however long its "
                  "interval) stays in charge, manual ticks stay suppressed" % fn, cfg)
    # (4) stop_and_replace_ticker: old ticker taken and stopped before the replacement is stored
    #     (located by effect: every function that stores into the ticker slot — one helper today, its callers if it is inlined)
    srs = [b for b in K.lib_bodies(crate) if b.kind != "Closure" and
           [1 for i, j, s in b.assigns() if "*" in s["lhs"]["p"] and "progress_bar::Ticker" in s["lhs"].get("ty", "") and "Option" in s["lhs"].get("ty", "")]]
    ctx.floor(rule, len(srs), 1, cfg, "functions that replace the ticker in its slot")
    for sr in srs:
        takes = sr.calls(r"std::option::Option::<T>::take", r"std::mem::(take|replace)")
        stops = sr.calls(r"progress_bar::Ticker::stop")
        stores = [(i, s) for i, j, s in sr.assigns() if "*" in s["lhs"]["p"] and "progress_bar::Ticker" in s["lhs"].get("ty", "")]
        ok = bool(takes) and bool(stores) and all(any(sr.dominates(t.bb, i) for t in takes) for i, s in stores)
        ctx.check(ok, rule, "take-before-replace", sr.name, K.fn_loc(sr), "the old ticker is taken out of the slot before the replacement is stored",
                  "the replacement overwrites the slot without taking the old ticker first", cfg)
        some_reg = set()
        for vs, reg, sb, pl in K.variant_regions(sr, crate, "std::option::Option"):
            if vs == {"Some"} and sr.slice(pl, at=sb).has_call(r"std::option::Option::<T>::take"):
                some_reg |= reg
        ok = bool(stops) and all(s.bb in some_reg for s in stops)
        ctx.check(ok, rule, "old-ticker-stopped", sr.name, K.fn_loc(sr), "a previously installed ticker is stopped",
                  "a previously installed ticker is not stopped when it is replaced/disabled", cfg)
        # ... unconditionally: a request for a ticker (`Some(interval)`) always ends with a *fresh* ticker in the slot, a request for
        # none with the old one taken out - whatever is in the slot (an installed Ticker is no proof of a live thread: the thread
        # of a finished bar has exited and left its Ticker behind)
        ivs = [i for i in range(1, sr.arg_count + 1) if sr.locals[i]["ty"].replace(" ", "") == "std::option::Option<std::time::Duration>"]
        if len(ivs) == 1:
            pred_iv = lambda pl, iv=ivs[0]: pl["l"] == iv and not [e for e in pl["p"] if e != "*"]
            store_bbs = {i for i, s in stores}
            rets = set(sr.return_blocks())
            R_some, av_some = K.variant_reach(sr, crate, "std::option::Option", "Some", pred_iv, want_avoid=True)
            leak = sr.reach([0], avoid=store_bbs, avoid_edges=av_some) & rets
            ctx.check(not leak, rule, "replace-unconditional", sr.name, K.fn_loc(sr), "asking for a steady tick always installs a fresh ticker",
                      "a request for a steady tick can return without installing a fresh ticker (early return when the slot looks up to date): after the bar "
                      "finished, its thread has exited but its Ticker is still in the slot - re-enabling with the same interval then starts nothing, and manual ticks stay disabled", cfg)
        # ticker is created with a reference to the bar state (downgraded inside Ticker::new)
    tn = K.find_one(ctx, crate, rule, r"progress_bar::Ticker::new")
    if tn:
        dg = tn.calls(r"std::sync::Arc::<T, A>::downgrade")
        ctx.check(bool(dg), rule, "downgrades", tn.name, K.fn_loc(tn), "Ticker::new downgrades the bar state before moving it into the thread",
                  "Ticker::new does not downgrade the bar state", cfg)
    # (5) run: every iteration re-checks upgrade + is_finished before ticking; guard and Arc released before waiting
    rn = K.find_one(ctx, crate, rule, r"progress_bar::TickerControl::run")
    if rn:
        ticks = rn.calls(r"state::BarState::tick")
        ups = rn.calls(r"std::sync::Weak::<T, A>::upgrade")
        fins = rn.calls(r"state::ProgressState::is_finished")
        ctx.check(bool(ticks), rule, "thread-ticks", rn.name, K.fn_loc(rn), "the ticker thread ticks the bar", "the ticker thread never ticks the bar", cfg)
        for t in ticks:
            ok = rn.in_loop(t.bb) and bool(ups) and bool(fins) and \
                t.bb not in rn.reach(rn.succ(t.bb), avoid=[u.bb for u in ups]) and \
                t.bb not in rn.reach(rn.succ(t.bb), avoid=[f.bb for f in fins])
            ctx.check(ok, rule, "recheck-each-iteration", rn.name, t.loc(), "every iteration passes Weak::upgrade and is_finished() before ticking",
                      "the loop can tick again without re-checking upgrade()/is_finished()", cfg)
            # tick only when upgrade succeeded and not finished
            up_some = any(vs == {"Some"} and t.bb in reg and rn.slice(pl, at=sb).has_call(r"std::sync::Weak::<T, A>::upgrade")
                          for vs, reg, sb, pl in K.variant_regions(rn, crate, "std::option::Option"))
            not_fin = False
            for sb, tt in rn.switches():
                if rn.slice(tt["op"], at=sb).has_call(r"state::ProgressState::is_finished"):
                    z = [tb for v, tb in tt["targets"] if v == 0]
                    if z and rn.edge_dominates((sb, z[0]), t.bb):
                        not_fin = True
                    # the finished edge leaves the loop
                    fin_t = tt["otherwise"]
                    leaves = t.bb not in rn.reach([fin_t])
                    ctx.check(leaves, rule, "finished-exits", rn.name, "%s:%d" % (rn.file, tt.get("line", 0)), "a finished bar makes the thread leave its loop",
                              "the thread keeps looping after the bar finished", cfg)
            ctx.check(up_some and not_fin, rule, "tick-guarded", rn.name, t.loc(), "tick happens only with a live, unfinished bar",
                      "tick can happen for a dropped or finished bar", cfg)
        # at the wait: no B guard and no strong Arc<Mutex<BarState>> alive
        ha = L.HeldAnalysis(rn, track=lambda l: bool(rn.locals[l].get("guards")) or
                            ("std::sync::Arc<std::sync::Mutex<state::BarState>>" in rn.locals[l]["ty"] and not rn.locals[l]["ty"].startswith("&")))
        for c in rn.calls(*L.CONDVAR_WAIT):
            held = ha.held_at_term(c.bb)
            arg_l = {operand_local(a) for a in c.args}
            bad = [rn.locals[l]["ty"] for l in held if l not in arg_l]
            ctx.check(not bad, rule, "released-before-wait", rn.name, c.loc(), "bar guard and upgraded Arc are dropped before waiting",
                      "still alive while waiting: %s (the bar cannot be dropped / other threads block for the whole interval)" % bad, cfg)
        # leaving the wait without timeout (notified) exits the loop
        for sb, tt in rn.switches():
            if rn.slice(tt["op"], at=sb).has_call(r"std::sync::WaitTimeoutResult::timed_out"):
                z = [tb for v, tb in tt["targets"] if v == 0]
                # which edge means "not timed out"? follow the tested value back to the call, counting negations
                # (`if !timed_out {break}`, or a helper `stop_requested() = !timed_out` whose result is tested)
                neg, l_ = False, operand_local(tt["op"])
                for _ in range(8):
                    ds_ = [d for d in rn.defs().get(l_, ()) if d["kind"] in ("assign", "call")] if l_ is not None else []
                    if len(ds_) != 1 or ds_[0]["kind"] == "call":
                        break
                    rv_ = ds_[0]["rv"]
                    if rv_["k"] == "un" and rv_.get("op") == "Not":
                        neg = not neg
                        l_ = operand_local(rv_.get("a"))
                    elif rv_["k"] == "use" and rv_["op"].get("k") in ("copy", "move") and not rv_["op"]["place"]["p"]:
                        l_ = operand_local(rv_["op"])
                    else:
                        break
                notified = (z[0] if z else None) if not neg else tt["otherwise"]
                ok = notified is not None and not any(t.bb in rn.reach([notified]) for t in ticks)
                ctx.check(ok, rule, "notified-exits", rn.name, "%s:%d" % (rn.file, tt.get("line", 0)), "a notified (not timed out) wait ends the thread",
                          "after being notified to stop the thread keeps ticking", cfg)


def _flag_values(crate, b, op, at, depth=0):
    """Symbolic values a bool operand can take: 'R' (result of a call that asks whether the ticker's thread runs), 'N' / 'S'
    (Option::is_none / is_some of the slot), 'T' / 'F', their negations ('!R', ..), '?' for anything else."""
    if not isinstance(op, dict) or depth > 8:
        return {"?"}
    if op.get("k") == "const":
        v = op.get("v")
        return {"T" if v is True else "F" if v is False else "?"}
    l = operand_local(op)
    if l is None or op["place"]["p"]:
        return {"?"}
    out = set()
    ds = [d for d in b.defs().get(l, ()) if d["kind"] in ("assign", "call") and b.def_reaches(d, at)]
    if not ds:
        return {"?"}
    neg = {"R": "!R", "!R": "R", "N": "!N", "!N": "N", "S": "!S", "!S": "S", "T": "F", "F": "T", "?": "?"}
    for d in ds:
        if d["kind"] == "call":
            k = d["call"]
            if k.matches(r"std::option::Option::<T>::(map_or|is_some_and|is_none_or)") and len(k.args) >= 2:
                # `slot.as_ref().map_or(false, Ticker::is_running)`: the default for an empty slot, the function's answer otherwise
                fa = k.args[-1]
                fb = crate.bodies.get(fa.get("fn")) if isinstance(fa, dict) and fa.get("fn") else None
                if fb is None:
                    for dd in b.defs().get(operand_local(fa), ()) if operand_local(fa) is not None else ():
                        if dd["kind"] == "assign" and dd["rv"]["k"] == "agg" and dd["rv"].get("ak") == "closure":
                            fb = crate.bodies.get(dd["rv"]["def"])
                out.add("R" if fb is not None and K._body_calls_deep(crate, fb, (r"std::thread::JoinHandle::<T>::is_finished",), 3) else "?")
                if K.meth(k.path) == "map_or":
                    out |= _flag_values(crate, b, k.args[1], k.bb, depth + 1)
                else:
                    out.add("F" if K.meth(k.path) == "is_some_and" else "T")
            elif k.matches(r"std::option::Option::<T>::is_none"):
                out.add("N")
            elif k.matches(r"std::option::Option::<T>::is_some"):
                out.add("S")
            else:
                cb = crate.bodies.get(k.path)
                deep = k.matches(r"std::thread::JoinHandle::<T>::is_finished") or (cb is not None and K._body_calls_deep(crate, cb, (r"std::thread::JoinHandle::<T>::is_finished",), 3))
                out.add("R" if deep and not k.matches(r"std::thread::JoinHandle::<T>::is_finished") else "?")
        else:
            rv = d["rv"]
            if rv["k"] == "use":
                out |= _flag_values(crate, b, rv["op"], d["bb"], depth + 1)
            elif rv["k"] == "un" and rv.get("op") == "Not":
                out |= {neg[v] for v in _flag_values(crate, b, rv.get("a"), d["bb"], depth + 1)}
            else:
                out.add("?")
    return out


def _running_edges(crate, b):
    """Edges (switch block, target) of `b` taken exactly when `Ticker::is_running()` (a call whose callee asks the thread's
    JoinHandle) answered true for the ticker in the locked slot: the switch tests the call's result itself."""
    out = []
    for sb, t in b.switches():
        l = operand_local(t["op"])
        if l is None or t["op"]["place"]["p"] or b.locals[l]["ty"] != "bool":
            continue
        ds = [d for d in b.defs().get(l, ()) if d["kind"] in ("assign", "call")]
        if len(ds) != 1 or ds[0]["kind"] != "call":
            continue
        sl = b.slice_switch(sb)
        if not K.deep_has_call(crate, sl, r"std::thread::JoinHandle::<T>::is_finished"):
            continue
        if not any(T_CLASS in (x.callee.get("targs") or [""])[0] for x in sl.calls if x.matches(*L.ACQUIRE)):
            continue
        zero = [tb for v, tb in t["targets"] if v == 0]
        if zero and zero[0] != t["otherwise"]:
            out.append((sb, t["otherwise"]))
    return out


def rule_manual_tick_gated(ctx, crate, rule="R-MANUAL-TICK-GATED"):
    cfg = crate.config
    ti = K.find_one(ctx, crate, rule, r"progress_bar::ProgressBar::tick_inner")
    if ti:
        for c in ti.calls(r"state::BarState::tick"):
            def locks_slot(sl):
                return any(T_CLASS in (x.callee.get("targs") or [""])[0] for x in sl.calls if x.matches(*L.ACQUIRE))

            def pred(sl):
                return sl.has_call(r"std::option::Option::<T>::is_none") and not sl.has_call(r"std::option::Option::<T>::is_some") and \
                    not [a for a in sl.atoms if a[0] == "unop"] and locks_slot(sl)

            def npred(sl):
                return sl.has_call(r"std::option::Option::<T>::is_some") and not sl.has_call(r"std::option::Option::<T>::is_none") and \
                    not [a for a in sl.atoms if a[0] == "unop"] and locks_slot(sl)
            g = K.guarded_by_true_of(ti, c.bb, pred) or K.guarded_by_false_of(ti, c.bb, npred)
            # the gate may also ask whether the installed ticker's thread still runs (`slot.as_ref().map_or(false, Ticker::is_running)`)
            if g is None:
                def live_pred(sl):
                    return locks_slot(sl) and K.deep_has_call(crate, sl, r"std::thread::JoinHandle::<T>::is_finished") and \
                        not sl.has_call(r"std::option::Option::<T>::is_none")
                g = K.guarded_by_false_of(ti, c.bb, live_pred) or K.guarded_by_true_of(ti, c.bb, lambda sl: live_pred(sl) and bool([a for a in sl.atoms if a[0] == "unop"]))
            if g is None:
                # .. or the answer travels as a locally built verdict (`match self.ticker_status() { Running => {}, Idle => tick }`):
                # on every path through the "thread is running" edge the verdict folds and the tick is unreachable
                run_edges = _running_edges(crate, ti)
                if run_edges and all(c.bb not in K.reach_through_edge(ti, e, crate) for e in run_edges):
                    g = run_edges[0]
            ctx.check(g is not None, rule, "tick_inner", ti.name, c.loc(), "manual tick only when no ticker is installed (slot.is_none())",
                      "manual ticks advance the spinner although a steady ticker is installed", cfg)
            # ... and "installed" has to mean "its thread runs": the thread leaves its loop when the bar is finished, the bar can be
            # reset() afterwards, and a gate that only looks at the slot then suppresses manual ticks for a thread that is gone -
            # nothing redraws the bar any more
            rn_ = crate.body("progress_bar::TickerControl::run")
            thread_can_exit_alive = bool(rn_ and rn_.calls(r"state::ProgressState::is_finished"))
            if thread_can_exit_alive:
                sls = [sl_ for sb, t in ti.switches() if any(ti.edge_dominates((sb, x), c.bb) for x in ti.succ(sb)) for sl_ in K.cond_slices(ti, sb)]
                live = any(K.deep_has_call(crate, sl, r"std::thread::JoinHandle::<T>::is_finished") for sl in sls)
                ctx.check(live, rule, "gate-means-thread-runs", ti.name, c.loc(),
                          "the gate suppresses manual ticks only while the ticker's thread is running",
                          "the ticker thread exits when the bar is finished but its Ticker stays in the slot; manual ticks are suppressed by slot occupancy alone: after "
                          "enable_steady_tick(..); finish(); reset() neither the thread nor inc()/tick() redraws the bar", cfg)
    up = K.find_one(ctx, crate, rule, r"progress_bar::ProgressBar::update")
    if up:
        for c in up.calls(r"state::BarState::update"):
            sl = up.slice_args(c, [3])
            ok = (sl.has_call(r"std::option::Option::<T>::is_none") or K.deep_has_call(crate, sl, r"std::thread::JoinHandle::<T>::is_finished")) and \
                sl.has_field("ticker", "progress_bar::ProgressBar")
            # .. with the right polarity: the flag says "tick here" - true without a running ticker, false with one. Symbolic values of
            # the flag: R = "the ticker's thread runs", N = "the slot is empty", S = "the slot is occupied", constants, and negations
            if ok and len(c.args) > 3:
                vals = _flag_values(crate, up, c.args[3], c.bb)
                if vals & {"R", "S", "!N", "!R", "N", "!S"}:
                    ok = not (vals & {"R", "S", "!N", "?"})
            if not ok and len(c.args) > 3 and operand_local(c.args[3]) is not None and not c.args[3]["place"]["p"] and \
                    not (_flag_values(crate, up, c.args[3], c.bb) & {"R", "S", "!N"}):
                # the flag is chosen by a locally built verdict: on the paths through the "thread is running" edge it is `false`
                run_edges = _running_edges(crate, up)
                ok = bool(run_edges) and all(
                    c.bb not in R_ or K._bool_vals(up, operand_local(c.args[3]), c.bb, R_, 0) == {False}
                    for R_ in (K.reach_through_edge(up, e, crate) for e in run_edges)) and \
                    any(sl_.has_field("ticker", "progress_bar::ProgressBar") for sb_, e_ in run_edges for sl_ in [up.slice_switch(sb_)])
            ctx.check(ok, rule, "update-flag", up.name, c.loc(), "update() passes tick = ticker_slot.is_none()",
                      "update() does not tick exactly when no steady ticker runs: the flag does not depend on the ticker slot, or is inverted (without a ticker "
                      "update() then no longer ticks: no estimator sample, no rewind detection, no redraw)", cfg)
    bu = K.find_one(ctx, crate, rule, r"state::BarState::update")
    if bu:
        for c in bu.calls(r"state::BarState::tick"):
            tp = [i for i in range(1, bu.arg_count + 1) if bu.locals[i]["ty"] == "bool"]
            g = K.guarded_by_true_of(bu, c.bb, lambda sl: sl.params() == set(tp) and not sl.calls)
            ctx.check(g is not None, rule, "BarState::update", bu.name, c.loc(), "BarState::update ticks only if its tick flag is set", "BarState::update ticks unconditionally", cfg)
    # public tick/inc/dec/set_position go through tick_inner
    n = 0
    for fn in ("tick", "inc", "dec", "set_position"):
        b = crate.body("progress_bar::ProgressBar::" + fn)
        if not b:
            continue
        direct = b.calls(r"state::BarState::tick", r"state::BarState::update_estimate_and_draw")
        n += 1
        ctx.check(not direct and bool(b.calls(r"progress_bar::ProgressBar::tick_inner")), rule, "via-tick_inner:" + fn, b.name, K.fn_loc(b),
                  "%s() ticks only through tick_inner" % fn, "%s() ticks the bar directly, bypassing the ticker-slot test" % fn, cfg)
    ctx.floor(rule, n, 4, cfg, "public ticking entry points")


def rule_no_guard_escape(ctx, crate, rule="R-NO-GUARD-ESCAPE"):
    cfg = crate.config
    n = 0
    for f in crate.fns.values():
        if not f["api"] or f["file"] in K.TEST_DOUBLE_FILES:
            continue
        n += 1
        gs = f["ret"].get("guards")
        if gs:
            ctx.bad(rule, "returns-guard", f["def"], "%s:%d" % (f["file"], f["line"]), "public fn returns a lock guard %s: users can hold library locks" % gs, cfg)
    ctx.ok(rule, "public-signatures", "<api>", "src/lib.rs", "%d public fn signatures scanned: none returns a guard type" % n, cfg)
    ctx.floor(rule, n, 100, cfg, "public fn signatures")


EXIT_SOURCES = (r"std::sync::Weak::<T, A>::upgrade", r"state::ProgressState::is_finished", r"std::sync::Condvar::wait_timeout_while", r"std::sync::Condvar::wait_while",
                r"std::sync::Condvar::wait_timeout", r"std::sync::Condvar::wait")
EXIT_THROUGH = (r"std::result::Result::<T, E>::(unwrap|expect|is_ok|is_err|ok|unwrap_or_default)", r"std::option::Option::<T>::(is_some|is_none|unwrap|as_ref)",
                r"std::sync::WaitTimeoutResult::timed_out", r"std::ops::Deref::deref", r"std::ops::DerefMut::deref_mut", r"std::convert::(From::from|Into::into)")


def _exit_sources(b, op, at):
    """What decides a loop-exit test: walk the value chain back (copies, fields, references, pure std adaptors); stop at the
    calls that are legitimate reasons to leave the ticker loop; everything else that produces the value is reported."""
    odd, seen, work = set(), set(), [(op, at)]
    while work:
        o, bb = work.pop()
        if not isinstance(o, dict) or o.get("k") == "const":
            continue
        l = operand_local(o) if "place" in o else o.get("l")
        if l is None or l in seen:
            continue
        seen.add(l)
        if l <= b.arg_count and l >= 1:
            continue
        for d in b.defs().get(l, ()):
            if d.get("via_ref") is not None or d["kind"] == "callmut":
                continue          # writes through other pointers to the same storage: not the producer of this value
            if d["kind"] == "call":
                c = d["call"]
                if c.matches(*EXIT_SOURCES):
                    continue
                if c.matches(*EXIT_THROUGH) and c.args:
                    work.append((c.args[0], c.bb))
                else:
                    odd.add(c.path)
            elif d["kind"] == "assign":
                rv = d["rv"]
                if rv["k"] in ("use", "cast"):
                    work.append((rv["op"], d["bb"]))
                elif rv["k"] in ("ref", "copyderef", "discr"):
                    work.append(({"k": "copy", "place": rv["place"]}, d["bb"]))
                elif rv["k"] == "un":
                    work.append((rv["a"], d["bb"]))
                elif rv["k"] == "bin":
                    work.append((rv["a"], d["bb"]))
                    work.append((rv["b"], d["bb"]))
                elif rv["k"] == "agg":
                    for x in rv["ops"]:
                        work.append((x, d["bb"]))
    return odd


def rule_ticker_exit_conditions(ctx, crate, rule="R-TICKER-EXIT-CONDITIONS"):
    """The steady-tick thread leaves its loop only because it was told to stop, the bar is gone (Weak::upgrade failed) or
    the bar is finished. While the ticker slot holds a ticker, manual ticks are suppressed (R-MANUAL-TICK-GATED), so a thread
    that ends for any other reason — e.g. the result of a draw — freezes the bar for good."""
    cfg = crate.config
    rn = K.find_one(ctx, crate, rule, r"progress_bar::TickerControl::run")
    if not rn:
        return
    ticks = rn.calls(r"state::BarState::tick")
    if not ticks:
        ctx.lost(rule, cfg, "the ticker loop no longer calls BarState::tick")
        return
    loop_blocks = set()
    for t in ticks:
        loop_blocks |= {t.bb} | {x for x in rn.reach_after(t.bb) if t.bb in rn.reach_after(x)}
    ALLOWED = (r"std::sync::Weak::<T, A>::upgrade", r"state::ProgressState::is_finished", r"std::sync::Condvar::wait_timeout_while", r"std::sync::Condvar::wait_while",
               r"std::sync::Mutex::<T>::lock", r"std::result::Result::<T, E>::unwrap", r"std::ops::Deref::deref", r"std::ops::DerefMut::deref_mut",
               r"std::option::Option::<T>::is_(some|none)", r"std::sync::WaitTimeoutResult::timed_out", r"std::sync::Arc::<T, A>::.*", r"std::clone::Clone::clone")
    n = 0
    for sb, t in rn.switches():
        if sb not in loop_blocks:
            continue
        exits = [x for x in rn.succ(sb) if x not in loop_blocks and not K.block_panics(rn, x)]
        if not exits:
            continue
        n += 1
        odd = sorted(_exit_sources(rn, t["op"], sb))
        ctx.check(not odd, rule, "loop-exit#%d" % (n - 1), rn.name, "%s:%d" % (rn.file, t.get("line", 0)),
                  "the loop is left only on stop / bar gone / bar finished",
                  "the ticker thread can also end because of %s: the ticker slot stays occupied, manual ticks stay suppressed and the bar is never redrawn again" % odd, cfg)
    ctx.floor(rule, n, 2, cfg, "exit tests of the ticker loop")
