"""C10 — template parsing is total; two structural clauses of the fidelity half."""
from .. import common as K
from .. import ledger as Lg

EXPLANATION = ("Decides totality: no unaudited panic edge (assert terminator, panicking std API, diverging call) is "
               "reachable from ProgressStyle::with_template / ProgressStyle::template; the parser's own state machine is "
               "exhaustive by rustc's match checking (the catch-all arm returns Err). Of the fidelity half only two structural "
               "necessary conditions: rendered text is cut into rows at every '\\n' by a splitter that keeps blank and trailing "
               "segments (R-BAR-ROWS-SPLIT: one output line per template line), and every placeholder starts from an empty scratch "
               "buffer (R-ARM-BUFFER-FRESH: nothing rendered earlier is emitted again in front of an expansion).")
UNDECIDED = ("The rest of the fidelity clause (rendering = in-order concatenation of literals and expansions) is string equality over all "
             "grammar words and is not decided. Observed while reading, not decidable here: \"a{ b\" parses to the literal \"{a b\".")

ENTRIES = [r"style::ProgressStyle::with_template", r"style::ProgressStyle::template"]


def run(ctx, crate):
    K.rule_no_unsafe(ctx, crate)
    edges, sc = Lg.run_ledger(ctx, crate, "C10", "R-PARSE-TOTAL", ENTRIES, floor_edges=2)
    ctx.floor("R-PARSE-TOTAL", len(sc), 8, crate.config, "bodies reachable from with_template/template")
    # the parser returns Err (does not panic) in its catch-all: a TemplateError construction exists in scope
    cons = [x for x in K.constructions(crate, "style::TemplateError") if x[0].name in sc]
    ctx.check(bool(cons), "R-PARSE-TOTAL", "reports-errors", "style::Template::from_str_with_tab_width", "src/style.rs",
              "the parser constructs TemplateError for rejected input", "the parser no longer reports TemplateError", crate.config)
    # one structural clause of the fidelity half ("one output line per template line"): rendered text is cut into rows at
    # every '\n' and nowhere else, by a splitter that keeps blank and trailing segments
    from .. import draw_rules as D
    D.rule_bar_rows_split(ctx, crate)
    # and of "the rendering is the in-order concatenation of literal text and placeholder expansions": a placeholder
    # starts from an empty scratch buffer (nothing rendered earlier is emitted a second time in front of it)
    from .c11 import rule_arm_buffer_fresh
    rule_arm_buffer_fresh(ctx, crate)
