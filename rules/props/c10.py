"""C10 — template parsing is total; two structural clauses of the fidelity half."""
import os
from .. import common as K
from .. import ledger as Lg
from ..facts import operand_local, const_val

EXPLANATION = ("Decides totality: no unaudited panic edge (assert terminator, panicking std API, diverging call) is "
               "reachable from ProgressStyle::with_template / ProgressStyle::template; the parser's own state machine is "
               "exhaustive by rustc's match checking (the catch-all arm returns Err). Of the fidelity half only two structural "
               "necessary conditions: rendered text is cut into rows at every '\\n' by a splitter that keeps blank and trailing "
               "segments (R-BAR-ROWS-SPLIT: one output line per template line), and every placeholder starts from an empty scratch "
               "buffer (R-ARM-BUFFER-FRESH: nothing rendered earlier is emitted again in front of an expansion).")
UNDECIDED = ("The rest of the fidelity clause (rendering = in-order concatenation of literals and expansions) is string equality over all "
             "grammar words and is not decided. Observed while reading, not decidable here: \"a{ b\" parses to the literal \"{a b\".")

ENTRIES = [r"style::ProgressStyle::with_template", r"style::ProgressStyle::template"]


def run(ctx, crate):
    K.rule_no_unsafe(ctx, crate)
    edges, sc = Lg.run_ledger(ctx, crate, "C10", "R-PARSE-TOTAL", ENTRIES, floor_edges=2)
    ctx.floor("R-PARSE-TOTAL", len(sc), 8, crate.config, "bodies reachable from with_template/template")
    # the parser returns Err (does not panic) in its catch-all: a TemplateError construction exists in scope
    cons = [x for x in K.constructions(crate, "style::TemplateError") if x[0].name in sc]
    ctx.check(bool(cons), "R-PARSE-TOTAL", "reports-errors", "style::Template::from_str_with_tab_width", "src/style.rs",
              "the parser constructs TemplateError for rejected input", "the parser no longer reports TemplateError", crate.config)
    # one structural clause of the fidelity half ("one output line per template line"): rendered text is cut into rows at
    # every '\n' and nowhere else, by a splitter that keeps blank and trailing segments
    from .. import draw_rules as D
    D.rule_bar_rows_split(ctx, crate)
    # and of "the rendering is the in-order concatenation of literal text and placeholder expansions": a placeholder
    # starts from an empty scratch buffer (nothing rendered earlier is emitted a second time in front of it)
    from .c11 import rule_arm_buffer_fresh
    rule_arm_buffer_fresh(ctx, crate)
    rule_brace_not_dropped(ctx, crate)
    rule_literal_in_order(ctx, crate)
    rule_keys_matched_whole(ctx, crate)
    rule_key_terminators(ctx, crate)
    rule_template_only_parser(ctx, crate)
    rule_chars_not_bytes(ctx, crate)
    # a declared `{key:width}` (any width up to u16::MAX) is rendered with exactly the declared width/alignment/truncate
    from .c12 import rule_placeholder_fields_forwarded
    rule_placeholder_fields_forwarded(ctx, crate)
    # literal text is rendered as itself: a template literal cannot be taken for the wide element's in-band marker
    from .c11 import rule_marker_out_of_band
    rule_marker_out_of_band(ctx, crate)
    rule_expand_at_marker(ctx, crate)
    # "placeholders of the form {key[:[<^>][width][!]...]}": width, alignment and `!` mean what the grammar says - the step that
    # applies them pads and cuts by display columns only (escape sequences in a coloured message are not columns: seed C10n)
    from .c12 import rule_trunc_keeps_width
    rule_trunc_keeps_width(ctx, crate)


def rule_expand_at_marker(ctx, crate, rule="R-WIDE-AT-MARKER"):
    """"the rendering is the in-order concatenation of the literal text and the placeholder expansions": the wide element is
    spliced into a line *at its marker* and nowhere else. `format_state` hands every line that follows a wide element to the
    expansion routine (its `wide` is not reset per line), so the routine must leave a line without a marker as it is: each value
    it returns is (a) `line.replace(MARKER, element)`, (b) the line itself, or (c) built under the found-edge of a search of the
    line for the marker. A result that concatenates the element unconditionally appends a bar / the message to later template
    lines (seed C10k: `split_once(MARKER).unwrap_or((&cur, ""))` + `format!("{head}{element}{tail}")`)."""
    cfg = crate.config
    from .c11 import SEARCHES
    F = crate.body(r"style::ProgressStyle::format_state")
    pushed = set()
    if F:
        for c in F.calls(r"std::string::String::push"):
            if len(c.args) > 1 and c.args[1].get("k") == "const" and c.args[1].get("char"):
                pushed.add(c.args[1].get("v"))
    cands = [b for b in K.lib_bodies(crate) if b.file.endswith("style.rs") and any(
        len(c.args) > 1 and c.args[1].get("k") == "const" and c.args[1].get("char") and c.args[1].get("v") in pushed for c in b.calls(*SEARCHES))
        and b.name != "style::ProgressStyle::format_state"]
    if not pushed or not cands:
        ctx.check(True, rule, "no-in-band-marker", "style::ProgressStyle::format_state", "src/style.rs:0",
                  "no character constant pushed by format_state is searched for in the line (positional design)", "", cfg)
        return
    n = 0
    for E in cands:
        lines = [i for i in range(1, E.arg_count + 1) if E.locals[i]["ty"] in ("std::string::String", "&str", "&std::string::String", "&mut std::string::String")]
        if E.locals[0]["ty"] != "std::string::String" or not lines:
            continue

        def is_marker(a):
            return isinstance(a, dict) and a.get("k") == "const" and a.get("char") and a.get("v") in pushed
        found_edges = set()
        for sb, t in E.switches():
            sl = E.slice_switch(sb)
            if not any(k.matches(*SEARCHES) and len(k.args) > 1 and is_marker(k.args[1]) for k in sl.calls):
                continue
            isdiscr = [1 for sb2, t2, pl, d in K.discr_switches(E) if sb2 == sb and K.head_of_type(pl.get("ty", "")) == "std::option::Option"]
            zero = [tb for v, tb in t["targets"] if v == 0]
            ol = operand_local(t["op"])
            if isdiscr or (ol is not None and E.locals[ol]["ty"] == "bool"):
                for x in E.succ(sb):
                    if x not in zero:
                        found_edges.add((sb, x))
        for d in E.defs().get(0, ()):
            if d["kind"] not in ("assign", "call") or d.get("lhs", {}).get("p"):
                continue
            n += 1
            loc = "%s:%d" % (E.file, d.get("line", 0) or (d["call"].line if d["kind"] == "call" else 0))
            ok = False
            if d["kind"] == "call":
                c = d["call"]
                if K.meth(c.path) in ("replace", "replacen") and c.matches(*SEARCHES) and len(c.args) > 1 and is_marker(c.args[1]) and \
                        E.slice_args(c, [0]).params() & set(lines):
                    ok = True
                sl = E.slice_args(c, list(range(len(c.args))))
            else:
                sl = E.slice_rv(d["bb"], d["stmt"]) if "stmt" in d else E.slice({"k": "copy", "place": {"l": 0, "p": []}}, at=d["bb"])
            if not ok:
                heavy = [k for k in sl.calls if not k.matches(r"std::ops::Deref::deref", r"std::clone::Clone::clone", r"std::convert::(From::from|Into::into)",
                                                              r"std::string::String::(as_str|clone)", r"std::borrow::ToOwned::to_owned", r"std::string::ToString::to_string")]
                ok = (not heavy and sl.params() <= set(lines)) or any(E.edge_dominates(e, d["bb"]) for e in found_edges)
            ctx.check(ok, rule, "result#%d:%s" % (n - 1, K.meth(E.name)), E.name, loc,
                      "the expanded line is the line with the element spliced in at the marker (or the line itself)",
                      "%s can return a line to which the wide element was added although the line holds no marker: every template line after the one with the "
                      "wide element gets a bar / the message appended (`top\\n[{wide_bar}]\\nbottom {len}` renders `bottom 2##>-`)" % K.meth(E.name), cfg)
    ctx.floor(rule, n, 2, cfg, "values returned by the wide-element expansion")


def rule_brace_not_dropped(ctx, crate, rule="R-BRACE-NOT-DROPPED"):
    """"an opening brace followed by whitespace stands for itself": in the parser state MaybeOpen the '{' has been
    consumed but is not in the buffer. On the CFG specialised to state == MaybeOpen, every transition that goes back to
    Literal without pushing a character must have emitted a literal part that starts with "{" (the backtrack arm);
    otherwise the brace silently disappears from the rendering."""
    cfg = crate.config
    b = K.find_one(ctx, crate, rule, r"style::Template::from_str_with_tab_width")
    if not b:
        return
    states = [i for i, l in enumerate(b.locals) if l["ty"] == "style::State" and l.get("name") == "state"]
    news = [i for i, l in enumerate(b.locals) if l["ty"].replace(" ", "") == "(style::State,std::option::Option<char>)"]
    if len(states) != 1 or not news:
        ctx.lost(rule, cfg, "parser locals `state` / `new` not found")
        return
    st = states[0]

    def from_state(pl):
        # the scrutinee tuple's first component: a copy of `state`
        l = pl["l"]
        if l == st:
            return not pl["p"]
        for d in b.defs().get(l, ()):
            if d["kind"] == "assign" and d["rv"]["k"] == "agg" and d["rv"].get("ak") == "tuple" and pl["p"] and isinstance(pl["p"][0], dict) and pl["p"][0].get("f") == 0:
                o = d["rv"]["ops"][0]
                src = operand_local(o)
                while src is not None and src != st:
                    ds = [x for x in b.defs().get(src, ()) if x["kind"] == "assign" and x["rv"]["k"] == "use"]
                    src = operand_local(ds[0]["rv"]["op"]) if len(ds) == 1 else None
                return src == st
        return False
    # only the first match (on (state, c)): the second one also inspects new.0
    first = [x for x in K.discr_switches(b) if K.head_of_type(x[2].get("ty", "")) == "style::State" and from_state(x[2])]
    # the scrutinee of the first match is the pair (state, character read); the second match pairs two states
    by_ty = [x for x in first if b.locals[x[2]["l"]]["ty"].replace(" ", "") == "(style::State,char)"]
    first = by_ty or first
    if not first:
        ctx.lost(rule, cfg, "no discriminant test of the parser state found")
        return
    tuple_local = first[0][2]["l"]
    pred = lambda pl: pl["l"] == tuple_local and from_state(pl)
    R = K.variant_reach(b, crate, "style::State", "MaybeOpen", pred)
    braces = [c for c in b.calls() if any(const_val(a) == "{" for a in c.args)]
    n = 0
    for i, j, s in b.assigns():
        if i not in R or s["lhs"]["l"] not in news or s["lhs"]["p"] or s["rv"]["k"] != "agg" or s["rv"].get("ak") != "tuple":
            continue
        o0, o1 = s["rv"]["ops"]
        a0 = [d for d in b.defs().get(operand_local(o0), ()) if d["kind"] == "assign" and d["rv"]["k"] == "agg"]
        a1 = [d for d in b.defs().get(operand_local(o1), ()) if d["kind"] == "assign" and d["rv"]["k"] == "agg"]
        if len(a0) != 1 or len(a1) != 1:
            continue
        if a0[0]["rv"].get("variant") == "Literal" and a1[0]["rv"].get("variant") == "None":
            n += 1
            ok = any(b.dominates(c.bb, i) and c.bb in R and c.bb in b.reach([first[0][0]]) for c in braces)
            ctx.check(ok, rule, "maybe-open-to-literal#%d" % (n - 1), b.name, "%s:%d" % (b.file, s.get("line", 0)),
                      "leaving the pending-'{' state towards Literal re-emits the brace as literal text",
                      "with a '{' pending (state MaybeOpen) the parser returns to Literal without emitting the brace: the '{' vanishes from the rendering", cfg)
    ctx.floor(rule, n, 1, cfg, "MaybeOpen -> (Literal, None) transitions")


def rule_literal_in_order(ctx, crate, rule="R-LITERAL-IN-ORDER"):
    """"the rendering is the in-order concatenation of the literal text": when the parser reads '{' in state Literal, the text
    read so far is still in the scratch buffer (the brace itself is not). If that state (MaybeOpen) then emits the brace as
    literal text (the whitespace backtrack), the buffered text must come out *before* the brace: either (a) the buffer is
    always empty in MaybeOpen — every transition whose target is MaybeOpen takes/clears the buffer or passes the true edge of
    `buf.is_empty()` — or (b) every literal emitted under MaybeOpen that contains the brace is built with the buffer's
    content in front of the "{" constant (or the buffer is flushed to `parts` first)."""
    cfg = crate.config
    b = K.find_one(ctx, crate, rule, r"style::Template::from_str_with_tab_width")
    if not b:
        return
    states = [i for i, l in enumerate(b.locals) if l["ty"] == "style::State" and l.get("name") == "state"]
    news = [i for i, l in enumerate(b.locals) if l["ty"].replace(" ", "") == "(style::State,std::option::Option<char>)"]
    # the scratch buffer: the String that receives the pushed character `new.1`
    bufs = set()
    for c in b.calls(r"std::string::String::push"):
        if any(l in news for l in b.slice_args(c, [1], through_calls=False).locals):
            for tl, tp in b.ref_origins().get(operand_local(c.args[0]), ()):
                if not tp and b.locals[tl]["ty"] == "std::string::String":
                    bufs.add(tl)
    if len(states) != 1 or not news or len(bufs) != 1:
        ctx.lost(rule, cfg, "parser locals `state` / `new` / scratch buffer not found (buffers: %s)" % sorted(bufs))
        return
    st, buf = states[0], next(iter(bufs))

    def on_buf(c, k=0):
        return any(tl == buf and not tp for tl, tp in b.ref_origins().get(operand_local(c.args[k]), ())) if len(c.args) > k else False

    def derives(pl, root_locals, field):
        """place is component `field` of a tuple whose operand at that position is a copy of one of root_locals (possibly a field of it)"""
        if not pl["p"] or not isinstance(pl["p"][0], dict) or pl["p"][0].get("f") != field:
            return False
        for d in b.defs().get(pl["l"], ()):
            if d["kind"] == "assign" and d["rv"]["k"] == "agg" and d["rv"].get("ak") == "tuple" and len(d["rv"]["ops"]) > field:
                src = operand_local(d["rv"]["ops"][field])
                for _ in range(4):
                    if src in root_locals:
                        return True
                    ds = [x for x in b.defs().get(src, ()) if x["kind"] == "assign" and x["rv"]["k"] == "use"] if src is not None else []
                    src = operand_local(ds[0]["rv"]["op"]) if len(ds) == 1 else None
        return False
    # (a) is the buffer always empty when the state becomes MaybeOpen?
    pred_to = lambda pl: derives(pl, set(news), 1) or (pl["l"] in news and pl["p"] and isinstance(pl["p"][0], dict) and pl["p"][0].get("f") == 0 and len(pl["p"]) == 1)
    second = [x for x in K.discr_switches(b) if K.head_of_type(x[2].get("ty", "")) == "style::State" and pred_to(x[2])]
    stores = [i for i, j, s_ in b.assigns() if s_["lhs"]["l"] == st and not s_["lhs"]["p"] and b.in_loop(i)]
    flushed = False
    if second and stores:
        R2, avoid2 = K.variant_reach(b, crate, "style::State", "MaybeOpen", pred_to, want_avoid=True)
        flush_bbs = {c.bb for c in b.calls(r"std::mem::take", r"std::string::String::clear", r"std::mem::replace") if on_buf(c)}
        empty_edges = set()
        for c in b.calls(r"std::string::String::is_empty"):
            if on_buf(c) and not c.dest["p"]:
                for sb, t in b.switches():
                    src = sb
                    l = operand_local(t["op"])
                    neg = False
                    for _ in range(3):
                        ds = [d for d in b.defs().get(l, ()) if d["kind"] in ("assign", "call")] if l is not None else []
                        if len(ds) == 1 and ds[0]["kind"] == "assign" and ds[0]["rv"]["k"] == "un" and ds[0]["rv"].get("op") == "Not":
                            neg = not neg
                            l = operand_local(ds[0]["rv"].get("a"))
                        elif len(ds) == 1 and ds[0]["kind"] == "assign" and ds[0]["rv"]["k"] == "use":
                            l = operand_local(ds[0]["rv"]["op"])
                    if l != c.dest["l"]:
                        continue
                    zero = [tb for v, tb in t["targets"] if v == 0]
                    if zero and zero[0] != t["otherwise"]:
                        empty_edges.add((sb, zero[0]) if neg else (sb, t["otherwise"]))
        start = min(x[0] for x in second)
        r = b.reach([start], avoid=flush_bbs, avoid_edges=set(avoid2) | empty_edges)
        flushed = start in R2 and not (r & set(stores))
    ctx.extra.setdefault("literal_in_order", {})[cfg] = {"buffer_empty_in_MaybeOpen": flushed}
    # (b) the brace literals emitted under MaybeOpen
    first_pred = lambda pl: derives(pl, {st}, 0) or (pl["l"] == st and not pl["p"])
    Rm = K.variant_reach(b, crate, "style::State", "MaybeOpen", first_pred)
    n = 0
    for c in b.calls(r"state::TabExpandedString::new"):
        if c.bb not in Rm or not b.in_loop(c.bb):
            continue
        sl = b.slice_args(c, [0])
        if not any(v in ("{",) for v in sl.consts()):
            continue
        # order of the contributions to the emitted string: creation / push_str / push / insert, by CFG position
        contrib = []
        for k in sl.calls:
            if k.bb not in Rm:
                continue
            cs = [const_val(a) for a in k.args]
            has_buf = any(on_buf(k, i_) for i_ in range(len(k.args))) or (buf in b.slice_args(k, through_calls=False).locals and not on_buf(k, 0))
            if k.matches(r"std::convert::From::from", r"std::string::ToString::to_string", r"std::borrow::ToOwned::to_owned", r"std::string::String::push_str", r"std::string::String::push"):
                if "{" in cs:
                    contrib.append((k, "brace"))
                elif has_buf and (k.matches(r"std::string::String::push_str") and not on_buf(k, 0) or not k.matches(r"std::string::String::push.*")):
                    contrib.append((k, "buf"))
            elif k.matches(r"std::string::String::insert(_str)?") and "{" in cs:
                contrib.append((k, "brace-front" if 0 in cs else "brace"))
            elif k.matches(r"std::mem::take", r"std::clone::Clone::clone") and has_buf:
                contrib.append((k, "buf"))
        braces_ = [k for k, w in contrib if w.startswith("brace")]
        if not braces_:
            continue            # the "{" seen in the slice is a character pushed into the buffer earlier ("{{"), not this literal's own
        n += 1
        if flushed:
            ctx.ok(rule, "text-before-brace#%d" % (n - 1), b.name, c.loc(), "the buffer is always flushed before the parser enters MaybeOpen: nothing can end up behind the brace", cfg)
            continue
        bufs_ = [k for k, w in contrib if w == "buf"]
        front = [k for k, w in contrib if w == "brace-front"]
        ok = bool(braces_) and bool(bufs_) and not front and all(x.bb in b.reach_after(y.bb) and y.bb not in b.reach_after(x.bb) for x in braces_ for y in bufs_)
        # ... or the buffer was flushed to `parts` inside this arm, before the emission
        arm_flush = any(k.bb in Rm and b.dominates(k.bb, c.bb) and k.bb in b.reach([min(x[0] for x in K.discr_switches(b) if first_pred(x[2]))] if [x for x in K.discr_switches(b) if first_pred(x[2])] else [0])
                        for k in b.calls(r"std::mem::take") if on_buf(k) and k.bb not in {x.bb for x in bufs_})
        ctx.check(ok or arm_flush, rule, "text-before-brace#%d" % (n - 1), b.name, c.loc(),
                  "text buffered before the '{' is emitted in front of it",
                  "with a '{' pending (state MaybeOpen) the text read before the brace is still in the buffer, and the literal emitted here puts \"{\" in front of it "
                  "(or leaves it for later): \"a{ b\" renders as \"{a b\"", cfg)
    ctx.floor(rule, n, 1, cfg, "brace literals emitted under state MaybeOpen")


def rule_key_terminators(ctx, crate, rule="R-KEY-TERMINATORS"):
    """"placeholders of the form {key[:[<^>][width][!][.style[/style]]]}": a key ends at ':' or at '}' and nowhere else - every
    other character read in the parser state `Key` belongs to the key (`{done!}` names the key `done!`). On the CFG specialised to
    state == Key, a small symbolic walk tracks what the tests along a path say about the character read (`== v` after a value
    edge or a failed `!=`, `not in S` otherwise); a transition to another state must be reached only with the character pinned to
    ':' or '}' (seed C10m: the dead arm `(Key, '!')` moved above the catch-all arm, `!` then ends the key and `{pos!}` renders the
    position)."""
    cfg = crate.config
    b = K.find_one(ctx, crate, rule, r"style::Template::from_str_with_tab_width")
    if not b:
        return
    states = [i for i, l in enumerate(b.locals) if l["ty"] == "style::State" and l.get("name") == "state"]
    news = [i for i, l in enumerate(b.locals) if l["ty"].replace(" ", "") == "(style::State,std::option::Option<char>)"]
    if len(states) != 1 or not news:
        ctx.lost(rule, cfg, "parser locals `state` / `new` not found")
        return
    st = states[0]

    def from_state(pl):
        l = pl["l"]
        if l == st:
            return not pl["p"]
        for d in b.defs().get(l, ()):
            if d["kind"] == "assign" and d["rv"]["k"] == "agg" and d["rv"].get("ak") == "tuple" and pl["p"] and isinstance(pl["p"][0], dict) and pl["p"][0].get("f") == 0:
                src = operand_local(d["rv"]["ops"][0])
                while src is not None and src != st:
                    ds = [x for x in b.defs().get(src, ()) if x["kind"] == "assign" and x["rv"]["k"] == "use"]
                    src = operand_local(ds[0]["rv"]["op"]) if len(ds) == 1 else None
                return src == st
        return False
    first = [x for x in K.discr_switches(b) if K.head_of_type(x[2].get("ty", "")) == "style::State" and from_state(x[2])
             and b.locals[x[2]["l"]]["ty"].replace(" ", "") == "(style::State,char)"]
    if not first:
        ctx.lost(rule, cfg, "no discriminant test of the (state, character) pair found")
        return
    tl = first[0][2]["l"]
    pred = lambda pl: pl["l"] == tl and from_state(pl)
    R, avoid = K.variant_reach(b, crate, "style::State", "Key", pred, want_avoid=True)
    avoid = set(avoid)
    # locals that hold the character read: the pair's second component and plain copies of it
    chars = set()
    for i, j, s_ in b.assigns():
        rv = s_["rv"]
        if rv["k"] == "use" and rv["op"].get("k") in ("copy", "move") and not s_["lhs"]["p"] and b.locals[s_["lhs"]["l"]]["ty"] == "char":
            pl = rv["op"]["place"]
            if (pl["l"] == tl and len(pl["p"]) == 1 and isinstance(pl["p"][0], dict) and pl["p"][0].get("f") == 1) or (pl["l"] in chars and not pl["p"]):
                chars.add(s_["lhs"]["l"])

    crefs = set()       # references to the character (`&pair.1`, as guards take it)

    def char_place(pl):
        return (pl["l"] == tl and len(pl["p"]) == 1 and isinstance(pl["p"][0], dict) and pl["p"][0].get("f") == 1) or \
            (pl["l"] in chars and not pl["p"]) or (pl["l"] in crefs and pl["p"] == ["*"])

    def is_char(op):
        return isinstance(op, dict) and op.get("k") in ("copy", "move") and char_place(op["place"])

    def cval(op):
        v = op.get("v") if isinstance(op, dict) and op.get("k") == "const" else None
        return ord(v) if isinstance(v, str) and len(v) == 1 else v if isinstance(v, int) and not isinstance(v, bool) else None
    # bool locals that compare the character with a constant: local -> (op, value)
    cmps = {}
    ws = set()          # bool locals: `c.is_ascii_whitespace()` / `c.is_whitespace()` of the character
    for rounds in range(4):
        for i, j, s_ in b.assigns():
            rv = s_["rv"]
            if rv["k"] == "ref" and not s_["lhs"]["p"] and char_place(rv["place"]):
                crefs.add(s_["lhs"]["l"])
            if rv["k"] == "use" and rv["op"].get("k") in ("copy", "move") and not s_["lhs"]["p"]:
                if b.locals[s_["lhs"]["l"]]["ty"] == "char" and char_place(rv["op"]["place"]):
                    chars.add(s_["lhs"]["l"])
                elif rv["op"]["place"]["l"] in crefs and not rv["op"]["place"]["p"]:
                    crefs.add(s_["lhs"]["l"])
            if rv["k"] == "bin" and rv["op"] in ("Eq", "Ne") and not s_["lhs"]["p"]:
                for x, y in ((rv["a"], rv["b"]), (rv["b"], rv["a"])):
                    if is_char(x) and cval(y) is not None:
                        cmps[s_["lhs"]["l"]] = (rv["op"], cval(y))
        for c_ in b.calls(r"(core|std)::char::methods::<impl char>::(is_ascii_whitespace|is_whitespace)"):
            a_ = c_.args[0] if c_.args else None
            if isinstance(a_, dict) and a_.get("k") in ("copy", "move") and (a_["place"]["l"] in crefs or char_place(a_["place"])) and not c_.dest["p"]:
                ws.add(c_.dest["l"])
    trans = {}
    for i, j, s_ in b.assigns():
        if i in R and s_["lhs"]["l"] in news and not s_["lhs"]["p"] and s_["rv"]["k"] == "agg" and s_["rv"].get("ak") == "tuple":
            a0 = [d for d in b.defs().get(operand_local(s_["rv"]["ops"][0]), ()) if d["kind"] == "assign" and d["rv"]["k"] == "agg"]
            if len(a0) == 1 and a0[0]["rv"].get("variant") is not None:
                trans[i] = (a0[0]["rv"].get("variant"), s_.get("line", 0))      # (a transition ends the iteration of the parser loop)
    ctx.floor(rule, len([1 for v_, l_ in trans.values() if v_ != "Key"]), 2, cfg, "transitions out of the parser state Key")
    reached = {}
    seen = set()
    work = [(first[0][0], ("ne", frozenset()))]
    trail = {}
    cur = [None]

    def _push(item):
        trail.setdefault(item, cur[0])
        work.append(item)
    while work and len(seen) < 20000:
        bb, cs = work.pop()
        cur[0] = (bb, cs)
        if (bb, cs) in seen or bb not in R:
            continue
        seen.add((bb, cs))
        if bb in trans:
            reached.setdefault(bb, set()).add(cs)
            if os.environ.get("VERIF_DEBUG_KEY"):
                chain, x_ = [], (bb, cs)
                while x_ is not None and len(chain) < 60:
                    chain.append((x_[0], x_[1][0], sorted(x_[1][1]) if isinstance(x_[1][1], frozenset) else x_[1][1]))
                    x_ = trail.get(x_)
                print("REACH", bb, trans[bb], cs, chain[::-1])
            continue
        t = b.term(bb)
        succs = [x for x in b.succ(bb) if (bb, x) not in avoid]
        if t and t["k"] == "switch":
            l = operand_local(t["op"])
            if is_char(t["op"]):
                listed = {v for v, tb in t["targets"]}
                for v, tb in t["targets"]:
                    if (bb, tb) in avoid:
                        continue
                    if (cs[0] == "eq" and cs[1] == v) or (cs[0] == "ne" and v not in cs[1]):
                        _push((tb, ("eq", v)))
                if (bb, t["otherwise"]) not in avoid:
                    if cs[0] == "eq" and cs[1] not in listed:
                        _push((t["otherwise"], cs))
                    elif cs[0] == "ne":
                        _push((t["otherwise"], ("ne", cs[1] | frozenset(listed))))
                continue
            if l in ws and not t["op"]["place"]["p"]:
                zero = [tb for vv, tb in t["targets"] if vv == 0]
                if (bb, t["otherwise"]) not in avoid and cs[0] != "eq":
                    _push((t["otherwise"], ("ws", frozenset())))
                if zero and (bb, zero[0]) not in avoid:
                    _push((zero[0], cs))
                continue
            if l in cmps and not t["op"]["place"]["p"]:
                op_, v = cmps[l]
                zero = [tb for vv, tb in t["targets"] if vv == 0]
                f_edge, t_edge = (zero[0] if zero else None), t["otherwise"]
                eq_edge, ne_edge = (t_edge, f_edge) if op_ == "Eq" else (f_edge, t_edge)
                if eq_edge is not None and (bb, eq_edge) not in avoid and ((cs[0] == "eq" and cs[1] == v) or (cs[0] == "ne" and v not in cs[1])):
                    _push((eq_edge, ("eq", v)))
                if ne_edge is not None and (bb, ne_edge) not in avoid and not (cs[0] == "eq" and cs[1] == v):
                    _push((ne_edge, cs if cs[0] == "eq" else ("ne", cs[1] | frozenset([v]))))
                continue
        for x in succs:
            _push((x, cs))
    ok_chars = {ord("}"), ord(":")}
    for bb, (variant, line) in sorted(trans.items()):
        if variant == "Key":
            continue
        css = reached.get(bb, set())
        # (white space after the brace/key makes the whole thing literal text again: the documented "brace followed by whitespace" rule)
        bad = sorted({chr(c[1]) if c[0] == "eq" else "any other character" for c in css
                      if not (c[0] == "eq" and c[1] in ok_chars) and not (c[0] == "ws" and variant == "Literal")})
        ctx.check(not bad, rule, "key->%s" % variant, b.name, "%s:%d" % (b.file, line),
                  "in state Key the parser moves on to %s only for ':' or '}'" % variant,
                  "in state Key the character %s ends the key (transition to %s): it is part of the key in the documented grammar - `{done!}` no longer names the key "
                  "`done!`, and an unknown key `pos!` renders the position" % (" / ".join(repr(x) for x in bad), variant), cfg)


def rule_keys_matched_whole(ctx, crate, rule="R-KEYS-MATCHED-WHOLE"):
    """"unknown keys expanding to nothing": the renderer recognises a key only by comparing the *whole* key with a constant.
    A prefix / suffix / substring test on the key (`key.starts_with("percent")`) makes every unknown key of that shape expand
    to something. Checked in format_state: no str method that inspects part of a string is applied to a value derived from the
    placeholder's key, and the key arms are equality tests against string constants (at least the 28 documented ones)."""
    cfg = crate.config
    b = K.find_one(ctx, crate, rule, r"style::ProgressStyle::format_state")
    if not b:
        return
    partial = b.calls(r"core::str::<impl str>::(starts_with|ends_with|contains|find|rfind|strip_prefix|strip_suffix|split\w*|rsplit\w*|matches|match_indices|"
                      r"trim_start_matches|trim_end_matches|trim_matches|get|len|is_empty|as_bytes|bytes|chars|char_indices|eq_ignore_ascii_case|to_lowercase|"
                      r"to_uppercase|to_ascii_lowercase|to_ascii_uppercase)")
    n = 0
    for c in partial:
        sl = b.slice_args(c, [0])
        if not sl.has_field("key", "style::TemplatePart"):
            continue
        n += 1
        ctx.bad(rule, "partial-test:%s" % K.meth(c.path), b.name, c.loc(),
                "the placeholder's key is inspected with str::%s instead of being compared whole: unknown keys that pass this test expand to something "
                "(`{percentage}` renders like `{percent}`)" % K.meth(c.path), cfg)
    from .c11 import key_arms
    arms = key_arms(b)
    ctx.floor(rule, len(arms), 28, cfg, "key arms that compare the whole key with a constant")
    ctx.check(n == 0, rule, "whole-key-only", b.name, K.fn_loc(b), "keys are recognised by whole-string equality only (%d arms)" % len(arms),
              "%d partial test(s) on the placeholder key" % n, cfg)


def rule_chars_not_bytes(ctx, crate, rule="R-PARSE-CHARS"):
    """"preserves literal text" for arbitrary Unicode: every character the parser appends to its buffer comes from
    `str::chars()` of the template — never from bytes converted one by one (that turns each UTF-8 byte into a Latin-1
    character)."""
    cfg = crate.config
    b = K.find_one(ctx, crate, rule, r"style::Template::from_str_with_tab_width")
    if not b:
        return
    n = 0
    for c in b.calls(r"std::string::String::push"):
        sl = b.slice_args(c, [1])
        if not sl.calls:
            continue          # pushes of constant characters
        n += 1
        from_chars = any(x.matches(r"std::iter::Iterator::next") and "Chars" in ((x.callee.get("self_ty") or "") + " ".join(x.callee.get("targs") or [])) for x in sl.calls) or \
            sl.has_call(r"core::str::<impl str>::chars")
        bytewise = [x.path for x in sl.calls if x.matches(r"core::str::<impl str>::(bytes|as_bytes)", r"std::string::String::(as_bytes|into_bytes)")] or \
            [a for a in sl.atoms if a[0] == "cast" and a[1] == "char"] or \
            [x.path for x in sl.calls if x.matches(r"std::convert::From::from") and "u8" in " ".join(x.callee.get("targs") or [])]
        ctx.check(from_chars and not bytewise, rule, "pushed-char#%d" % (n - 1), b.name, c.loc(),
                  "the pushed character is a character of the template (str::chars)",
                  "the parser builds its text from bytes converted to chars: non-ASCII literal text is corrupted", cfg)
    ctx.floor(rule, n, 1, cfg, "characters of the template pushed into the parser's buffer")


def rule_template_only_parser(ctx, crate, rule="R-TEMPLATE-ONLY-PARSER"):
    """The grammar ('{{' and '}}' escapes, placeholders, a '{' followed by whitespace standing for itself, one part per line) lives
    in one function, the parser state machine. Every template a user supplies has to go through it: a `Template` or a
    `TemplatePart` built anywhere else (a "fast path" for strings that look trivial, a hand-made default) renders its text
    without the escapes being undone - `"step 1 }} done"` has no '{' and no newline, yet must render `step 1 } done`.
      (a) `style::Template` and `style::TemplatePart` values are constructed only in the parser (derived Clone aside);
      (b) every function that takes template text and returns a Template/ProgressStyle reaches the parser on every path
          that returns Ok (the public entries `with_template`, `template`, and `Template::from_str`)."""
    cfg = crate.config
    parser = K.find_one(ctx, crate, rule, r"style::Template::from_str_with_tab_width")
    if not parser:
        return
    n = 0
    for adt in ("style::Template", "style::TemplatePart"):
        for (cb, i, j, s_) in K.constructions(crate, adt):
            if ((cb.impl or {}).get("trait") or "").startswith("std::clone::Clone") or cb.file in K.TEST_DOUBLE_FILES:
                continue
            owner = K.owner_fn(crate, cb)
            n += 1
            ctx.check(owner == parser.name, rule, "built-by-parser:%s" % adt.rsplit("::", 1)[-1], cb.name, "%s:%d" % (cb.file, s_.get("line", 0)),
                      "%s is built by the parser" % adt.rsplit("::", 1)[-1],
                      "%s is built outside the template parser (%s): text that bypasses the parser keeps its '}}' / '{{' escapes and is not split into lines" % (adt.rsplit("::", 1)[-1], K.meth(cb.name)), cfg)
    ctx.floor(rule, n, 4, cfg, "constructions of Template / TemplatePart")
    chain = [(r"style::Template::from_str", r"style::Template::from_str_with_tab_width"),
             (r"style::ProgressStyle::with_template", r"style::Template::from_str"),
             (r"style::ProgressStyle::template", r"style::Template::from_str")]
    for fn, callee in chain:
        b = K.find_one(ctx, crate, rule, fn)
        if not b:
            continue
        cs = [c.bb for c in b.calls(callee, r"style::Template::from_str_with_tab_width")]
        ok = bool(cs) and b.must_pass([0], cs)
        ctx.check(ok, rule, "reaches-parser:%s" % K.meth(fn), b.name, K.fn_loc(b), "%s hands its text to the parser on every path" % K.meth(fn),
                  "%s can return without handing the template text to the parser" % K.meth(fn), cfg)
