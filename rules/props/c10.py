"""C10 — template parsing is total; two structural clauses of the fidelity half."""
from .. import common as K
from .. import ledger as Lg
from ..facts import operand_local, const_val

EXPLANATION = ("Decides totality: no unaudited panic edge (assert terminator, panicking std API, diverging call) is "
               "reachable from ProgressStyle::with_template / ProgressStyle::template; the parser's own state machine is "
               "exhaustive by rustc's match checking (the catch-all arm returns Err). Of the fidelity half only two structural "
               "necessary conditions: rendered text is cut into rows at every '\\n' by a splitter that keeps blank and trailing "
               "segments (R-BAR-ROWS-SPLIT: one output line per template line), and every placeholder starts from an empty scratch "
               "buffer (R-ARM-BUFFER-FRESH: nothing rendered earlier is emitted again in front of an expansion).")
UNDECIDED = ("The rest of the fidelity clause (rendering = in-order concatenation of literals and expansions) is string equality over all "
             "grammar words and is not decided. Observed while reading, not decidable here: \"a{ b\" parses to the literal \"{a b\".")

ENTRIES = [r"style::ProgressStyle::with_template", r"style::ProgressStyle::template"]


def run(ctx, crate):
    K.rule_no_unsafe(ctx, crate)
    edges, sc = Lg.run_ledger(ctx, crate, "C10", "R-PARSE-TOTAL", ENTRIES, floor_edges=2)
    ctx.floor("R-PARSE-TOTAL", len(sc), 8, crate.config, "bodies reachable from with_template/template")
    # the parser returns Err (does not panic) in its catch-all: a TemplateError construction exists in scope
    cons = [x for x in K.constructions(crate, "style::TemplateError") if x[0].name in sc]
    ctx.check(bool(cons), "R-PARSE-TOTAL", "reports-errors", "style::Template::from_str_with_tab_width", "src/style.rs",
              "the parser constructs TemplateError for rejected input", "the parser no longer reports TemplateError", crate.config)
    # one structural clause of the fidelity half ("one output line per template line"): rendered text is cut into rows at
    # every '\n' and nowhere else, by a splitter that keeps blank and trailing segments
    from .. import draw_rules as D
    D.rule_bar_rows_split(ctx, crate)
    # and of "the rendering is the in-order concatenation of literal text and placeholder expansions": a placeholder
    # starts from an empty scratch buffer (nothing rendered earlier is emitted a second time in front of it)
    from .c11 import rule_arm_buffer_fresh
    rule_arm_buffer_fresh(ctx, crate)
    rule_brace_not_dropped(ctx, crate)
    rule_chars_not_bytes(ctx, crate)
    # a declared `{key:width}` (any width up to u16::MAX) is rendered with exactly the declared width/alignment/truncate
    from .c12 import rule_placeholder_fields_forwarded
    rule_placeholder_fields_forwarded(ctx, crate)


def rule_brace_not_dropped(ctx, crate, rule="R-BRACE-NOT-DROPPED"):
    """"an opening brace followed by whitespace stands for itself": in the parser state MaybeOpen the '{' has been
    consumed but is not in the buffer. On the CFG specialised to state == MaybeOpen, every transition that goes back to
    Literal without pushing a character must have emitted a literal part that starts with "{" (the backtrack arm);
    otherwise the brace silently disappears from the rendering."""
    cfg = crate.config
    b = K.find_one(ctx, crate, rule, r"style::Template::from_str_with_tab_width")
    if not b:
        return
    states = [i for i, l in enumerate(b.locals) if l["ty"] == "style::State" and l.get("name") == "state"]
    news = [i for i, l in enumerate(b.locals) if l["ty"].replace(" ", "") == "(style::State,std::option::Option<char>)"]
    if len(states) != 1 or not news:
        ctx.lost(rule, cfg, "parser locals `state` / `new` not found")
        return
    st = states[0]

    def from_state(pl):
        # the scrutinee tuple's first component: a copy of `state`
        l = pl["l"]
        if l == st:
            return not pl["p"]
        for d in b.defs().get(l, ()):
            if d["kind"] == "assign" and d["rv"]["k"] == "agg" and d["rv"].get("ak") == "tuple" and pl["p"] and isinstance(pl["p"][0], dict) and pl["p"][0].get("f") == 0:
                o = d["rv"]["ops"][0]
                src = operand_local(o)
                while src is not None and src != st:
                    ds = [x for x in b.defs().get(src, ()) if x["kind"] == "assign" and x["rv"]["k"] == "use"]
                    src = operand_local(ds[0]["rv"]["op"]) if len(ds) == 1 else None
                return src == st
        return False
    # only the first match (on (state, c)): the second one also inspects new.0
    first = [x for x in K.discr_switches(b) if K.head_of_type(x[2].get("ty", "")) == "style::State" and from_state(x[2])]
    if not first:
        ctx.lost(rule, cfg, "no discriminant test of the parser state found")
        return
    tuple_local = first[0][2]["l"]
    pred = lambda pl: pl["l"] == tuple_local and from_state(pl)
    R = K.variant_reach(b, crate, "style::State", "MaybeOpen", pred)
    braces = [c for c in b.calls() if any(const_val(a) == "{" for a in c.args)]
    n = 0
    for i, j, s in b.assigns():
        if i not in R or s["lhs"]["l"] not in news or s["lhs"]["p"] or s["rv"]["k"] != "agg" or s["rv"].get("ak") != "tuple":
            continue
        o0, o1 = s["rv"]["ops"]
        a0 = [d for d in b.defs().get(operand_local(o0), ()) if d["kind"] == "assign" and d["rv"]["k"] == "agg"]
        a1 = [d for d in b.defs().get(operand_local(o1), ()) if d["kind"] == "assign" and d["rv"]["k"] == "agg"]
        if len(a0) != 1 or len(a1) != 1:
            continue
        if a0[0]["rv"].get("variant") == "Literal" and a1[0]["rv"].get("variant") == "None":
            n += 1
            ok = any(b.dominates(c.bb, i) and c.bb in R and c.bb in b.reach([first[0][0]]) for c in braces)
            ctx.check(ok, rule, "maybe-open-to-literal#%d" % (n - 1), b.name, "%s:%d" % (b.file, s.get("line", 0)),
                      "leaving the pending-'{' state towards Literal re-emits the brace as literal text",
                      "with a '{' pending (state MaybeOpen) the parser returns to Literal without emitting the brace: the '{' vanishes from the rendering", cfg)
    ctx.floor(rule, n, 1, cfg, "MaybeOpen -> (Literal, None) transitions")


def rule_chars_not_bytes(ctx, crate, rule="R-PARSE-CHARS"):
    """"preserves literal text" for arbitrary Unicode: every character the parser appends to its buffer comes from
    `str::chars()` of the template — never from bytes converted one by one (that turns each UTF-8 byte into a Latin-1
    character)."""
    cfg = crate.config
    b = K.find_one(ctx, crate, rule, r"style::Template::from_str_with_tab_width")
    if not b:
        return
    n = 0
    for c in b.calls(r"std::string::String::push"):
        sl = b.slice_args(c, [1])
        if not sl.calls:
            continue          # pushes of constant characters
        n += 1
        from_chars = any(x.matches(r"std::iter::Iterator::next") and "Chars" in ((x.callee.get("self_ty") or "") + " ".join(x.callee.get("targs") or [])) for x in sl.calls) or \
            sl.has_call(r"core::str::<impl str>::chars")
        bytewise = [x.path for x in sl.calls if x.matches(r"core::str::<impl str>::(bytes|as_bytes)", r"std::string::String::(as_bytes|into_bytes)")] or \
            [a for a in sl.atoms if a[0] == "cast" and a[1] == "char"] or \
            [x.path for x in sl.calls if x.matches(r"std::convert::From::from") and "u8" in " ".join(x.callee.get("targs") or [])]
        ctx.check(from_chars and not bytewise, rule, "pushed-char#%d" % (n - 1), b.name, c.loc(),
                  "the pushed character is a character of the template (str::chars)",
                  "the parser builds its text from bytes converted to chars: non-ASCII literal text is corrupted", cfg)
    ctx.floor(rule, n, 1, cfg, "characters of the template pushed into the parser's buffer")
