"""C10 — template parsing is total (totality clause only)."""
from .. import common as K
from .. import ledger as Lg

EXPLANATION = ("Decides totality only: no unaudited panic edge (assert terminator, panicking std API, diverging call) is "
               "reachable from ProgressStyle::with_template / ProgressStyle::template; the parser's own state machine is "
               "exhaustive by rustc's match checking (the catch-all arm returns Err).")
UNDECIDED = ("The fidelity clause (rendering = in-order concatenation of literals and expansions) is string equality over all "
             "grammar words and is not decided. Observed while reading, not decidable here: \"a{ b\" parses to the literal \"{a b\".")

ENTRIES = [r"style::ProgressStyle::with_template", r"style::ProgressStyle::template"]


def run(ctx, crate):
    K.rule_no_unsafe(ctx, crate)
    edges, sc = Lg.run_ledger(ctx, crate, "C10", "R-PARSE-TOTAL", ENTRIES, floor_edges=2)
    ctx.floor("R-PARSE-TOTAL", len(sc), 8, crate.config, "bodies reachable from with_template/template")
    # the parser returns Err (does not panic) in its catch-all: a TemplateError construction exists in scope
    cons = [x for x in K.constructions(crate, "style::TemplateError") if x[0].name in sc]
    ctx.check(bool(cons), "R-PARSE-TOTAL", "reports-errors", "style::Template::from_str_with_tab_width", "src/style.rs",
              "the parser constructs TemplateError for rejected input", "the parser no longer reports TemplateError", crate.config)
