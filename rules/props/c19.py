"""C19 — wrapped rows and height overflow are accounted for (structural part)."""
from .. import common as K
from .. import draw_rules as D

EXPLANATION = ("Decides that row accounting uses the wrap-aware measure everywhere: VisualLines values are created only by its "
               "own impls from measured widths or TermLike::height(); LineAdjust operands and committed counts derive from "
               "wrapped_height/visual_line_count; every wrap width comes from the target's width(); in the paint loop a bar line "
               "is written only after the running-height + line-height <= TermLike::height() test, the failing edge paints "
               "nothing more, only painted lines are accumulated and that accumulation is what is committed.")
UNDECIDED = "The arithmetic max(1, ceil(cols/width)), the right-edge filler width and behaviour at exact width multiples are value-level and not decided."


def run(ctx, crate):
    K.rule_no_unsafe(ctx, crate)
    D.rule_rows_newtype(ctx, crate)
    D.rule_width_source(ctx, crate)
    D.rule_line_kinds(ctx, crate)
    D.rule_every_line_painted(ctx, crate)
    D.rule_shift_full_frame(ctx, crate)
    D.rule_bar_rows_split(ctx, crate)
    D.rule_height_guard(ctx, crate)
    D.rule_painted_line_terminated(ctx, crate)
    # "clears remove all of their rows and nothing else", also for a bar that the height test never painted: rows kept as
    # zombie text are exactly the rows the erase count released
    from .c03 import rule_row_transfer_pairing
    rule_row_transfer_pairing(ctx, crate)
    # the rows a reaped bar releases are the wrapped rows of its *stored* lines: they are the rows on the screen only if the
    # last update of a finished bar was painted, i.e. never swallowed by the rate limiter
    D.rule_finished_draws_forced(ctx, crate)
    D.rule_counted_newline_row_followed(ctx, crate)
    # "clears remove all of their rows and nothing else": a suspend wipes the region through MultiState::clear (zombie rows handed over)
    from .c03 import rule_suspend_protocol
    rule_suspend_protocol(ctx, crate)
    D.rule_text_not_counted(ctx, crate)
    D.rule_draw_order(ctx, crate)
    D.rule_painted_is_measured(ctx, crate)
    # "clears remove all of their rows": the empty frame of a MultiProgress that lost its last member is painted like any other
    # (an early `nothing to paint` return leaves the wrapped rows of the last bar on screen and in the count: seed C19m)
    from .c02 import rule_multi_draw_total
    rule_multi_draw_total(ctx, crate)
    # "later redraws still erase it completely; omitted bars appear as soon as there is room": a bar that leaves the ordering is taken
    # off the screen by a forced repaint - a refused one leaves its (wrapped) rows, and the next in-place reap keeps the wrong ones
    from .c02 import rule_removal_keeps_screen_current
    rule_removal_keeps_screen_current(ctx, crate)
