"""C06 — hidden / non-terminal targets are silent and state-equivalent."""
import re

from .. import common as K
from .. import draw_rules as D
from ..facts import operand_local, place_str, place_fields

EXPLANATION = ("Decides silence as a reachability statement: TermLike effects occur only in the emitter, which is "
               "reachable from the public API only through Drawable::draw; Drawable::Term/TermLike are built only in "
               "drawable(), under the matching TargetKind edge and (Term) the is_term() test, so Hidden / non-tty / hidden "
               "MultiProgress / removed bars reach no effect. State equivalence is decided as non-interference: no store "
               "to logical bar state is data- or control-dependent on drawable()/is_hidden()/width()/is_term() or a draw result.")
UNDECIDED = "Terminal size/tty queries (Term::size, is_term) are not counted as terminal operations; nothing else material."


def run(ctx, crate):
    K.rule_no_unsafe(ctx, crate)
    K.rule_emit_single(ctx, crate)
    K.rule_emitter_callers(ctx, crate)
    D.rule_gate_only_constructor(ctx, crate)
    D.rule_hidden_builds_nothing(ctx, crate)
    rule_remove_hides(ctx, crate)
    rule_state_noninterference(ctx, crate)
    # a bar put into a (hidden) MultiProgress always gets that MultiProgress as its draw target
    from .c02 import rule_slot_identity
    rule_slot_identity(ctx, crate)
    rule_target_setters(ctx, crate)
    # "never invokes any terminal operation, for any call" - not later either: what is printed through a bar while its MultiProgress
    # shows nothing is dropped, not queued for the next target (the println reaches the draw that drops it; the draw drops it)
    from .c03 import rule_println_forced, rule_orphan_moved
    rule_println_forced(ctx, crate)
    rule_orphan_moved(ctx, crate)


def rule_remove_hides(ctx, crate, rule="R-REMOVE-HIDES"):
    """MultiProgress::remove stores ProgressDrawTarget::hidden() into the bar before freeing the slot."""
    cfg = crate.config
    b = K.find_one(ctx, crate, rule, r"multi::MultiProgress::remove")
    if not b:
        return
    rm = b.calls(r"multi::MultiState::remove_idx")
    ctx.floor(rule, len(rm), 1, cfg, "remove_idx call in MultiProgress::remove")
    stores = [(i, j, s) for i, j, s in b.assigns()
              if any(f[0] == "state::BarState" and f[2] == "draw_target" for f in place_fields(s["lhs"])) and not
              [f for f in place_fields(s["lhs"]) if f[2] != "draw_target"]]
    hidden_stores = []
    for i, j, s in stores:
        sl = b.slice_rv(i, s, through_calls=False)
        if sl.has_call(r"draw_target::ProgressDrawTarget::hidden"):
            hidden_stores.append(i)
    for c in rm:
        ok = bool(hidden_stores) and any(b.dominates(i, c.bb) for i in hidden_stores)
        ctx.check(ok, rule, "hide-before-free", b.name, c.loc(),
                  "the bar's draw target is replaced by ProgressDrawTarget::hidden() on every path to remove_idx",
                  "a removed bar keeps its remote draw target (it can still paint into a freed slot)", cfg)


    # ... removing a bar changes where it draws, nothing else: remove() calls nothing that writes the bar's logical state
    #     (position, length, message, status, estimator) — a removed bar keeps evolving like a visible one
    writes = {x.name for x in K.lib_bodies(crate) if direct_sinks(x)}
    g = K.callgraph(crate)
    chg = True
    while chg:
        chg = False
        for n_, cs_ in g.items():
            if n_ not in writes and cs_ & writes:
                writes.add(n_)
                chg = True
    noisy = sorted({c.path for c in b.calls() if any(t in writes for t in [c.path] + crate.resolve_targets(c))} | {what for bb, what, line, obj in direct_sinks(b)})
    ctx.check(not noisy, rule, "remove-is-state-neutral", b.name, K.fn_loc(b), "remove() writes no logical bar state",
              "remove() changes the bar's logical state (%s): a removed bar no longer evolves like a visible one" % noisy[:3], cfg)
    # ... and on every path: the only way out of remove() without hiding the bar is the "not a member" edge of remote()
    none_edges = []
    for sb, t, pl, d in K.discr_switches(b):
        if b.slice({"k": "copy", "place": pl}, at=sb).has_call(r"draw_target::ProgressDrawTarget::remote"):
            for tgt, vs in K.edge_variants(crate, t, "std::option::Option").items():
                if vs == {"None"}:
                    none_edges.append((sb, tgt))
    escaped = set(b.reach([0], avoid=hidden_stores, avoid_edges=none_edges)) & set(b.return_blocks())
    ctx.check(bool(hidden_stores) and not escaped, rule, "hides-on-every-path", b.name, K.fn_loc(b),
              "every return of remove() for a member bar passes the store of the hidden draw target",
              "remove() can return for a member bar without hiding it (the call succeeds but the bar keeps drawing on the MultiProgress's terminal)", cfg)


SOURCES = (r"draw_target::ProgressDrawTarget::(drawable|is_hidden|width)", r"draw_target::Drawable::<'_>::width",
           r"multi::MultiState::(width|is_hidden)", r"multi::MultiProgress::is_hidden", r"progress_bar::ProgressBar::is_hidden",
           r"console::Term::(is_term|size|size_checked|features)", r"term_like::TermLike::(width|height)")
IO_SOURCES = (r"state::BarState::draw", r"draw_target::Drawable::<'_>::(draw|clear)", r"multi::MultiState::(draw|clear|println)",
              r"draw_target::DrawState::draw_to_term", r"term_like::TermLike::.*")
SINK_CALLS = (r"state::AtomicPosition::(set|inc|dec|reset)", r"state::Estimator::(record|reset)",
              r"state::TabExpandedString::set_tab_width", r"state::ProgressState::(set_pos|set_len)",
              r"style::ProgressStyle::set_tab_width", r"style::Template::set_tab_width")
SINK_FIELDS = {("state::BarState", "on_finish"), ("state::BarState", "tab_width"), ("state::BarState", "style")}
SINK_ADTS = {"state::ProgressState", "state::Estimator"}


def is_sink_store(s):
    fs = place_fields(s["lhs"])
    for adt, v, n in fs:
        if adt in SINK_ADTS or (adt, n) in SINK_FIELDS:
            return True
    return False


def direct_sinks(body):
    out = []
    for i, j, s in body.assigns():
        if is_sink_store(s):
            out.append((i, "store %s" % place_str(s["lhs"], body), s.get("line", 0), s))
    for c in body.calls(*SINK_CALLS):
        out.append((c.bb, "call %s" % c.path, c.line, c))
    return out


def rule_state_noninterference(ctx, crate, rule="R-STATE-NONINTERFERENCE"):
    cfg = crate.config
    bodies = K.lib_bodies(crate)
    # summary: bodies that (transitively) write logical bar state
    writes = {b.name for b in bodies if direct_sinks(b)}
    g = K.callgraph(crate)
    changed = True
    while changed:
        changed = False
        for n, cs in g.items():
            if n not in writes and cs & writes:
                writes.add(n)
                changed = True
    n_src = 0
    n_sinks = 0
    for b in bodies:
        srcs = [c for c in b.calls(*SOURCES)]
        io_srcs = [c for c in b.calls(*IO_SOURCES) if K.is_plain_io_result(b.locals[c.dest["l"]]) and not c.dest["p"]]
        all_src = srcs + io_srcs
        sinks = direct_sinks(b)
        n_sinks += len(sinks)
        if not all_src:
            continue
        n_src += len(all_src)
        src_bbs = {c.bb for c in all_src}
        # (1) data: no sink value depends on a source result
        for bb, what, line, obj in sinks:
            if isinstance(obj, dict):
                sl = b.slice_rv(bb, obj)
            else:
                sl = b.slice(list(obj.args[1:]), at=bb)
            dep = [c for c in sl.calls if c.bb in src_bbs]
            ctx.check(not dep, rule, "data:%s" % what.split(" ", 1)[1][:50], b.name, "%s:%d" % (b.file, line),
                      "stored value does not depend on the draw target / draw result",
                      "logical state written from a value that depends on %s" % ([c.path for c in dep]), cfg)
        # (2) control: regions control-dependent on a source contain no sink and no call to a state-writing fn
        for sb, t in b.switches():
            sl = b.slice(t["op"], at=sb)
            dep = [c for c in sl.calls if c.bb in src_bbs]
            if not dep:
                continue
            succs = b.succ(sb)
            regions = [b.edge_region((sb, x)) for x in succs]
            for reg in regions:
                for bb in sorted(reg):
                    for sbb, what, line, obj in sinks:
                        if sbb == bb:
                            ctx.bad(rule, "control:%s" % what.split(" ", 1)[1][:50], b.name, "%s:%d" % (b.file, line),
                                    "logical state is written only on one outcome of %s (hidden and visible bars diverge)" % dep[0].path, cfg)
                    tt = b.term(bb)
                    if tt and tt["k"] == "call":
                        cc = K.Call(b, bb, tt)
                        tg = [x for x in crate.resolve_targets(cc) if x in writes]
                        if tg and not cc.matches(*SOURCES) and not cc.matches(*IO_SOURCES):
                            ctx.bad(rule, "control-call:%s" % cc.path, b.name, cc.loc(),
                                    "%s (writes logical state) is called only on one outcome of %s" % (cc.path, dep[0].path), cfg)
            ctx.ok(rule, "switch-on:%s" % K.meth(dep[0].path), b.name, "%s:%d" % (b.file, t.get("line", 0)),
                   "regions control-dependent on %s contain no logical-state write (%d blocks scanned)" % (dep[0].path, sum(len(r) for r in regions)), cfg)
            # (3) implicit flow: a value chosen inside such a region (or a source result itself) must not become an argument of a
            # state-writing call later on (`let how = if target.is_hidden() { A } else { B }; self.finish_using_style(now, how)`)
            tainted_bbs = set().union(*regions) if regions else set()
            for cc in b.calls():
                if cc.bb in tainted_bbs or cc.matches(*SOURCES) or cc.matches(*IO_SOURCES):
                    continue
                if not [x for x in [cc.path] + crate.resolve_targets(cc) if x in writes]:
                    continue
                asl = b.slice_args(cc)
                via = [d for d in asl.defs if d.get("kind") in ("assign", "call") and d.get("bb") in tainted_bbs and cc.bb in b.reach_after(d["bb"])]
                direct = [c for c in asl.calls if c.bb in src_bbs]
                if via or direct:
                    ctx.bad(rule, "arg-of:%s" % cc.path, b.name, cc.loc(),
                            "an argument of %s (writes logical state) is %s %s: hidden and visible bars end in different states" % (
                                cc.path, "chosen under a test of" if via else "computed from", dep[0].path), cfg)
    ctx.floor(rule, n_src, 20, cfg, "draw-target / draw-result source call sites")
    ctx.floor(rule, n_sinks, 20, cfg, "logical-state sinks")
    ctx.extra.setdefault("state_writers", {})[cfg] = len(writes)


def rule_target_setters(ctx, crate, rule="R-TARGET-SETTER-TOTAL"):
    """A bar (or MultiProgress) that is *given* a hidden target is hidden from then on: the public `set_draw_target`
    functions store their argument into the `draw_target` field on every path to a return - no state of the bar (finished,
    hidden already, ...) makes them keep the old target and go on painting on it."""
    cfg = crate.config
    n = 0
    for b in K.lib_bodies(crate):
        if not b.api or K.meth(b.name) != "set_draw_target" or b.kind == "Closure":
            continue
        tp = [i for i in range(1, b.arg_count + 1) if "ProgressDrawTarget" in b.locals[i]["ty"]]
        if len(tp) != 1:
            continue
        n += 1
        stores = []
        for i, j, s_ in b.assigns():
            fs = place_fields(s_["lhs"])
            if fs and fs[-1][2] == "draw_target" and tp[0] in b.slice_rv(i, s_, through_calls=False).locals | b.slice_rv(i, s_, through_calls=False).params():
                stores.append(i)
        ok = bool(stores) and b.must_pass([0], stores)
        ctx.check(ok, rule, "stores-on-every-path:%s" % b.name.rsplit("::", 2)[-2], b.name, K.fn_loc(b),
                  "set_draw_target installs the given target on every path",
                  "%s can return without installing the given target (an early return): a bar that was handed a hidden target keeps painting on the old one" % b.name, cfg)
    ctx.floor(rule, n, 2, cfg, "public set_draw_target functions")
