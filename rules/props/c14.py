"""C14 — every style the builder accepts can be rendered without panicking."""
import re

from .. import common as K
from .. import ledger as Lg
from ..facts import operand_local, place_fields, is_const, const_val

EXPLANATION = ("Decides: (1) R-TABLE-INVARIANTS — every bound the renderer assumes about a ProgressStyle table (derived from its "
               "divisions and index/len-1 expressions: tick_strings.len() >= 2, progress_chars.len() >= 2, char_width != 0) is "
               "established at every public writer of that table by a panicking guard on the value just written, on every path "
               "to a normal return; the private constructor's tables do not depend on caller input. (2) the render-path panic "
               "ledger: no panic edge exists in format_state's call tree, the builder methods and the paint routine beyond the "
               "audited ones (rules/panic_audit.toml).")
UNDECIDED = "That the audited edges cannot fire is a human reading (one reason per line), not a machine proof."

PS = "style::ProgressStyle"
ENTRIES = [r"style::ProgressStyle::format_state",
           r"style::ProgressStyle::(tick_chars|tick_strings|progress_chars|with_key|template|with_template|get_tick_str|get_final_tick_str|default_bar|default_spinner)",
           r"draw_target::DrawState::draw_to_term"]
CMP = {"Ge": lambda a, b: a >= b, "Gt": lambda a, b: a > b, "Le": lambda a, b: a <= b, "Lt": lambda a, b: a < b,
       "Eq": lambda a, b: a == b, "Ne": lambda a, b: a != b}


def run(ctx, crate):
    K.rule_no_unsafe(ctx, crate)
    edges, sc = Lg.run_ledger(ctx, crate, "C14", "R-RENDER-LEDGER", ENTRIES, floor_edges=40)
    rule_table_invariants(ctx, crate, edges)
    # the guard establishes char_width != 0 for the cached value; the cache itself must describe the installed table
    from .c13 import rule_char_width_coherent
    rule_char_width_coherent(ctx, crate)
    # "every terminal width": the row arithmetic audited above presupposes finite row counts, i.e. no division by a zero width
    from ..draw_rules import rule_rows_finite
    rule_rows_finite(ctx, crate)
    # the audited `write_fmt(..).unwrap()` edges of the renderer presuppose Display impls that fail only when the writer does
    from .c15 import rule_display_no_own_error
    rule_display_no_own_error(ctx, crate)


def requirements_from(edges):
    """Requirements on ProgressStyle fields, derived from the consumer edges in the render scope."""
    req = {}   # field -> {"len": k} / {"nonzero": True}
    audit = Lg.load_audit().get("C14", {})
    clauses = {a["sig"]: a.get("requires") for a in audit.get("edge", []) if a.get("requires")}
    for e in edges:
        # (1) pattern-derived
        m = re.fullmatch(r"Overflow\(Sub\)\[Vec::len\(field:ProgressStyle\.(\w+)\+param\), const:(\d+)\]", e.sig)
        if m:
            f, k = m.group(1), int(m.group(2))
            req.setdefault(f, {})["len"] = max(req.get(f, {}).get("len", 0), k)
        m = re.fullmatch(r"(RemainderByZero|DivisionByZero)\[Vec::len\(field:ProgressStyle\.(\w+)\+param\)\+const:(\d+)\]", e.sig)
        if m:
            f, k = m.group(2), int(m.group(3))
            req.setdefault(f, {})["len"] = max(req.get(f, {}).get("len", 0), k + 1)
        m = re.fullmatch(r"(RemainderByZero|DivisionByZero)\[field:ProgressStyle\.(\w+)\+param\]", e.sig)
        if m:
            req.setdefault(m.group(2), {})["nonzero"] = True
        # (2) audited `requires:` clauses
        cl = clauses.get(e.sig)
        if cl:
            m = re.fullmatch(r"(\w+)\.len >= (\d+)", cl)
            if m:
                f, k = m.group(1), int(m.group(2))
                req.setdefault(f, {})["len"] = max(req.get(f, {}).get("len", 0), k)
            m = re.fullmatch(r"(\w+) != 0", cl)
            if m:
                req.setdefault(m.group(1), {})["nonzero"] = True
    return req


TABLE_MUTATORS = (r"std::vec::Vec::<T, A>::(retain|retain_mut|truncate|pop|remove|swap_remove|drain|clear|dedup|dedup_by|dedup_by_key|split_off|resize|resize_with|set_len|extract_if)",)


def field_stores(b, field):
    out = []
    for i, j, s in b.assigns():
        fs = place_fields(s["lhs"])
        if fs and fs[-1][0] == PS and fs[-1][2] == field and len(fs) == 1:
            out.append((i, s))
    return out


def diverges(b, bb):
    """All paths from bb end without reaching a normal return."""
    return not (b.reach([bb]) & set(b.return_blocks()))


def guards_for(b, store_bb, store_stmt, want):
    """Switches that panic unless measure(value just stored) satisfies the requirement.
    want = ('len', k) or ('nonzero',)"""
    rhs = b.slice_rv(store_bb, store_stmt)
    rhs_calls = {c.bb for c in rhs.calls}
    found = []
    for sb, t in b.switches():
        l = operand_local(t["op"])
        if l is None:
            continue
        cmpd = [d for d in b.defs().get(l, ()) if d["kind"] == "assign" and d["rv"]["k"] == "bin" and d["rv"]["op"] in CMP and d["bb"] == sb]
        if not cmpd:
            # assert_eq!-style: tuple of refs then Eq – not used for these guards
            continue
        d = cmpd[0]
        a, c = d["rv"]["a"], d["rv"]["b"]
        op = d["rv"]["op"]
        cv = const_val(c)
        flipped = False
        if not isinstance(cv, int) or isinstance(cv, bool):
            cv = const_val(a)
            a, c = c, a
            flipped = True
        if not isinstance(cv, int) or isinstance(cv, bool):
            continue
        sl = b.slice(a, at=sb)
        if want[0] == "len":
            lens = [x for x in sl.calls if x.matches(r"std::vec::Vec::<T, A>::len")]
            ok_src = any({y.bb for y in b.slice_args(x, [0]).calls} & rhs_calls for x in lens)
        else:
            ok_src = bool({y.bb for y in sl.calls} & rhs_calls) and not sl.has_call(r"std::vec::Vec::<T, A>::len")
        if not ok_src:
            continue
        # which edge continues?
        succs = b.succ(sb)
        cont = [x for x in succs if not diverges(b, x)]
        fail = [x for x in succs if diverges(b, x)]
        if len(cont) != 1 or not fail:
            continue
        zero_t = [tb for v, tb in t["targets"] if v == 0]
        cont_val = 0 if (zero_t and zero_t[0] == cont[0]) else 1

        def cmpv(v):
            r = CMP[op](cv, v) if flipped else CMP[op](v, cv)
            return 1 if r else 0
        if want[0] == "len":
            bad_vals = range(0, want[1])
        else:
            bad_vals = [0]
        if all(cmpv(v) != cont_val for v in bad_vals) and any(cmpv(v) == cont_val for v in (want[1] if want[0] == "len" else 1, 5, 1000)):
            found.append(sb)
    return found


def rule_table_invariants(ctx, crate, edges, rule="R-TABLE-INVARIANTS"):
    cfg = crate.config
    req = requirements_from(edges)
    ctx.extra.setdefault("table_requirements", {})[cfg] = {k: v for k, v in sorted(req.items())}
    ctx.floor(rule, len(req), 3, cfg, "ProgressStyle fields with renderer-imposed bounds")
    n_prod = 0
    for field, r in sorted(req.items()):
        wants = []
        if "len" in r:
            wants.append(("len", r["len"]))
        if r.get("nonzero"):
            wants.append(("nonzero",))
        producers = []
        for b in K.lib_bodies(crate):
            for i, s in field_stores(b, field):
                producers.append((b, i, s))
        # aggregate constructions
        for (b, i, j, s) in K.constructions(crate, PS):
            rv = s["rv"]
            op = rv["ops"][rv["fields"].index(field)]
            fdef = crate.fns.get(b.name, {})
            n_prod += 1
            sl = b.slice(op, at=i)
            ok = not fdef.get("api", True) and not sl.params()
            if not ok and sl.has_field(field, PS) and all(x.matches(r".*::clone") for x in sl.calls):
                n_prod -= 0
                ctx.ok(rule, "%s:copy" % field, b.name, "%s:%d" % (b.file, s.get("line", 0)),
                       "`%s` is copied from the same field of an existing ProgressStyle (invariant preserved)" % field, cfg)
                continue
            ctx.check(ok, rule, "%s:constructor" % field, b.name, "%s:%d" % (b.file, s.get("line", 0)),
                      "private constructor initialises `%s` from values that do not depend on caller input (literal tables, human-audited)" % field,
                      "a constructor initialises `%s` from caller input without a guard" % field, cfg)
        for b, i, s in producers:
            n_prod += 1
            for want in wants:
                gs = guards_for(b, i, s, want)
                key = "%s:%s" % (field, "len>=%d" % want[1] if want[0] == "len" else "nonzero")
                # every path from the store to a normal return passes a guard
                ok = bool(gs) and b.must_pass(b.succ(i) if i not in gs else [i], gs)
                what = "%s.len() >= %d" % (field, want[1]) if want[0] == "len" else "%s != 0" % field
                # .. and nothing changes the table between that guard and the return: an in-place mutation (`retain`, `truncate`,
                # `pop`, `drain`, ..) of the stored table is a write like any other and needs the guard *after* it (seed C14l: zero-width
                # clusters dropped after the count was checked)
                if ok and want[0] == "len":
                    for mc in b.calls(*TABLE_MUTATORS):
                        recv = operand_local(mc.args[0]) if mc.args else None
                        if recv is None or not any(field in tp for tl, tp in b.ref_origins().get(recv, ())):
                            continue
                        after = [mc.target] if mc.target is not None else []
                        if mc.bb in b.reach_after(i) and not b.must_pass(after, gs):
                            ok = False
                            ctx.check(False, rule, key + ":mutated-after-guard:" + K.meth(mc.path), b.name, mc.loc(),
                                      "",
                                      "`%s` is changed in place by %s after the guard that establishes %s (or with no guard behind it): the stored table can be shorter "
                                      "than the renderer's index arithmetic assumes - the panic moves from the builder into a draw" % (field, K.meth(mc.path), what), cfg)
                ctx.check(ok, rule, key, b.name, "%s:%d" % (b.file, s.get("line", 0)),
                          "after writing `%s` every path to the return passes a panicking guard establishing %s on the value just written" % (field, what),
                          "`%s` is written without a guard establishing %s on the value just written (the renderer later %s)" %
                          (field, what, "divides by it" if want[0] == "nonzero" else "computes len-1 / indexes / takes a remainder with it"), cfg)
    ctx.floor(rule, n_prod, 6, cfg, "writers of bounded ProgressStyle tables")
    # nobody else can write the tables: fields are private to style.rs
    a = crate.adts.get(PS)
    if a:
        for f in a["variants"][0]["fields"]:
            if f["name"] in req:
                ctx.check(f["vis"] not in ("pub", "crate"), rule, "private:%s" % f["name"], PS, "%s:%d" % (a["file"], a["line"]),
                          "field `%s` is private to its module" % f["name"], "field `%s` is writable from outside style.rs without validation" % f["name"], cfg)
