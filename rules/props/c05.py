"""C05 — redraw throttling (gate structure only; the numeric token-bucket law is not decided)."""
import re

from .. import common as K
from .. import draw_rules as D
from ..facts import operand_local, place_fields, is_const, const_val

EXPLANATION = ("Decides only the gate structure: Drawable::Term/TermLike are built only in drawable(), every path to a "
               "construction takes a force_draw-true edge or a limiter-allowed edge (no non-forced frame reaches a terminal "
               "without a positive limiter decision); inc/dec/set_position update the shared position unconditionally before "
               "consulting the position limiter and the redraw request is issued exactly on its true edge; the paint renders "
               "from the live ProgressState (no cached copy exists).")
UNDECIDED = ("The numeric law (<= 20 + R*T + 1 frames per window, admission after one interval, burst 10 / 1 ms) is arithmetic over "
             "all non-decreasing time sequences in two allow() functions; no static argument in reach bounds it. Not decided.")

POS_UPDATE = {"progress_bar::ProgressBar::inc": "state::AtomicPosition::inc",
              "progress_bar::ProgressBar::dec": "state::AtomicPosition::dec",
              "progress_bar::ProgressBar::set_position": "state::AtomicPosition::set"}


def run(ctx, crate):
    K.rule_no_unsafe(ctx, crate)
    K.rule_emit_single(ctx, crate)
    D.rule_gate_only_constructor(ctx, crate)
    rule_update_before_gate(ctx, crate)
    rule_paint_reads_live_state(ctx, crate)
    rule_limiter_state_private(ctx, crate)
    rule_limiter_admission(ctx, crate)
    rule_limiter_constants(ctx, crate)
    rule_force_is_constant(ctx, crate)
    rule_limiter_whole_duration(ctx, crate)
    rule_time_source_is_clock(ctx, crate)
    # "a continuously updated bar is never more than one refresh interval plus 1 ms stale": updates are handed to the steady ticker only
    # while its thread really runs (a Ticker left in the slot by an exited thread must not swallow them)
    from .c08 import rule_manual_tick_gated
    rule_manual_tick_gated(ctx, crate)
    # "skipped draws lose nothing": a member's rendering is refreshed before the MultiProgress limiter decides
    from .c02 import rule_multi_arm_unconditional
    rule_multi_arm_unconditional(ctx, crate)
    # pending printed text forces the draw (an enumerated escalation): so only println may produce Text/Empty rows. A renderer that
    # emits an Empty row for a blank line of a message makes every ordinary request of that MultiProgress member a forced one (seed C05m)
    from .. import draw_rules as D_
    D_.rule_line_kinds(ctx, crate)
    # "burst 10, then one request per ms": the adaptors (wrap_iter/read/write/seek, tokio, futures, rayon) report positions through
    # `inc`/`set_position` - the setters that consult AtomicPosition::allow - and never through `update`, which always requests a draw
    # (seed C05o: Seek::seek through `update(|s| s.set_pos(..))`, one request per seek)
    from .c17 import rule_wrap_effects
    rule_wrap_effects(ctx, crate)


def rule_update_before_gate(ctx, crate, rule="R-UPDATE-BEFORE-GATE"):
    cfg = crate.config
    n = 0
    for fn, upd in sorted(POS_UPDATE.items()):
        b = K.find_one(ctx, crate, rule, re.escape(fn))
        if not b:
            continue
        us = b.calls(re.escape(upd))
        al = b.calls(r"state::AtomicPosition::allow")
        ticks = b.calls(r"progress_bar::ProgressBar::tick_inner")
        n += 1
        ok = bool(us) and all(b.dominates(u.bb, r) for u in us for r in b.return_blocks()) and len(us) == 1
        ctx.check(ok, rule, "update-unconditional", b.name, K.fn_loc(b),
                  "the position update dominates every return (it is unconditional) and happens once",
                  "the position update is conditional or missing: a skipped draw loses the update", cfg)
        for u in us:
            sl = b.slice_args(u, [1])
            ctx.check(sl.params() == {2} and not sl.calls, rule, "update-value", b.name, u.loc(),
                      "the update applies exactly the caller's delta/position", "the applied delta is not the caller's argument", cfg)
            ok2 = all(a.bb in b.reach_after(u.bb) and u.bb not in b.reach_after(a.bb) for a in al)
            ctx.check(bool(al) and ok2, rule, "update-before-gate", b.name, u.loc(),
                      "the update precedes the limiter consultation", "the limiter is consulted before the position is updated", cfg)
        for t in ticks:
            g = K.guarded_by_true_of(b, t.bb, lambda sl: sl.has_call(r"state::AtomicPosition::allow"))
            ctx.check(g is not None, rule, "redraw-on-allow", b.name, t.loc(),
                      "the redraw request is issued exactly on the true edge of AtomicPosition::allow",
                      "the redraw request is not controlled by the position limiter", cfg)
        ctx.check(bool(ticks), rule, "requests-redraw", b.name, K.fn_loc(b), "a redraw is requested", "no redraw is ever requested", cfg)
        # every call issues a request: the limiter is consulted on every path, and whenever it admits, the redraw follows
        ctx.check(bool(al) and b.must_pass([0], {a.bb for a in al}), rule, "gate-unconditional", b.name, K.fn_loc(b),
                  "every path through the setter consults the position limiter (a request is always issued)",
                  "the setter can return without consulting the limiter: no redraw request is issued on that path (a stale frame can stay forever)", cfg)
        for a in al:
            tgt = b.term(a.bb)["t"] if b.term(a.bb)["k"] == "call" else None
            sw = None
            for sb, t in b.switches():
                if operand_local(t["op"]) == a.dest["l"] or (a.dest["l"] in b.slice(t["op"], at=sb, through_calls=False).locals and b.dominates(a.bb, sb)):
                    sw = (sb, t)
                    break
            if sw:
                sb, t = sw
                okr = bool(ticks) and b.must_pass([t["otherwise"]], {x.bb for x in ticks})
                ctx.check(okr, rule, "redraw-whenever-allowed", b.name, a.loc(),
                          "whenever the limiter admits, the redraw request follows on every path",
                          "the limiter can admit (spending a token) without a redraw being requested", cfg)
        # both use the same clock reading
        for a in al:
            for t in ticks:
                la, lt = operand_local(a.args[1]), operand_local(t.args[1])
                sa, st = b.slice_args(a, [1]), b.slice_args(t, [1])
                same = {c.bb for c in sa.calls if c.matches(r"std::time::Instant::now")} == {c.bb for c in st.calls if c.matches(r"std::time::Instant::now")}
                ctx.check(same, rule, "same-instant", b.name, t.loc(), "limiter and draw use the same Instant",
                          "limiter and draw use different clock readings", cfg)
    ctx.floor(rule, n, 3, cfg, "position update entry points")


def rule_paint_reads_live_state(ctx, crate, rule="R-PAINT-READS-LIVE-STATE"):
    cfg = crate.config
    n = 0
    for b in K.lib_bodies(crate):
        for c in b.calls(r"style::ProgressStyle::format_state"):
            n += 1
            sl = b.slice_args(c, [1], through_calls=False)
            ok = sl.has_field("state", "state::BarState") and sl.params() == {1}
            ctx.check(ok, rule, "format_state-arg", b.name, c.loc(), "format_state renders &self.state of the bar being drawn",
                      "format_state is given something other than the bar's live ProgressState", cfg)
            sl0 = b.slice_args(c, [0], through_calls=False)
            ctx.check(sl0.has_field("style", "state::BarState"), rule, "format_state-style", b.name, c.loc(),
                      "rendered with the bar's current style", "rendered with a style other than the bar's current one", cfg)
    ctx.floor(rule, n, 2, cfg, "format_state call sites")
    # no second ProgressState value exists
    cons = K.constructions(crate, "state::ProgressState")
    for (b, i, j, s) in cons:
        ctx.check(b.name == "state::ProgressState::new", rule, "construct", b.name, "%s:%d" % (b.file, s.get("line", 0)),
                  "ProgressState is constructed only by ProgressState::new", "a second ProgressState value (cached copy) is constructed", cfg)
    clones = [c for c in crate.all_calls(r"std::clone::Clone::clone", bodies=K.lib_bodies(crate))
              if "state::ProgressState" == c.callee.get("self_head")]
    ctx.check(not clones, rule, "no-clone", "state::ProgressState", "src/state.rs", "ProgressState is never cloned",
              "ProgressState is cloned (a stale copy may be rendered)", cfg)
    ctx.floor(rule, len(cons), 1, cfg, "ProgressState constructions")


def rule_limiter_state_private(ctx, crate, rule="R-LIMITER-STATE"):
    """The limiter's bucket fields are written only by its own impl (new/allow) — and for the position
    limiter by AtomicPosition::{new,allow,reset}: nobody refills or drains a bucket from outside."""
    cfg = crate.config
    n = 0
    for b in K.lib_bodies(crate):
        for i, j, s in b.assigns():
            for adt, v, name in place_fields(s["lhs"]):
                if adt == "draw_target::RateLimiter" and name in ("capacity", "prev", "interval"):
                    n += 1
                    ok = b.name in ("draw_target::RateLimiter::allow", "draw_target::RateLimiter::new")
                    ctx.check(ok, rule, "write:%s" % name, b.name, "%s:%d" % (b.file, s.get("line", 0)),
                              "RateLimiter.%s written by its own impl" % name, "RateLimiter.%s written outside RateLimiter" % name, cfg)
        for c in b.calls(r"portable_atomic::Atomic(U8|U64)::(store|swap|fetch_.*|compare_exchange.*)"):
            sl = b.slice_args(c, [0], through_calls=False)
            for f in ("capacity", "prev"):
                if sl.has_field(f, "state::AtomicPosition"):
                    n += 1
                    # tokens are earned in allow() only; reset() re-bases the clock (`prev`) but must not refill the bucket
                    owners = ("state::AtomicPosition::allow", "state::AtomicPosition::new") + (("state::AtomicPosition::reset",) if f == "prev" else ())
                    ok = b.name in owners
                    ctx.check(ok, rule, "atomic-write:%s" % f, b.name, c.loc(), "AtomicPosition.%s written by %s only" % (f, "/".join(K.meth(o) for o in owners)),
                              "AtomicPosition.%s written in %s%s" % (f, b.name, " (a reset that refills the burst allowance lifts the token-bucket bound)" if f == "capacity" else ""), cfg)
    for (b, i, j, s) in K.constructions(crate, "draw_target::RateLimiter"):
        n += 1
        ctx.check(b.name == "draw_target::RateLimiter::new", rule, "construct", b.name, "%s:%d" % (b.file, s.get("line", 0)),
                  "RateLimiter built by RateLimiter::new", "RateLimiter built outside RateLimiter::new", cfg)
    ctx.floor(rule, n, 5, cfg, "limiter state writes")


def rule_limiter_admission(ctx, crate, rule="R-LIMITER-ADMISSION"):
    """Structural necessary conditions of the token-bucket law (not the law): in both allow() functions every
    admission (`true`) is preceded on its path by (a) a store of the bucket's reference time `prev` derived
    from `now` and (b) a store of `capacity` whose value passed through min(MAX_BURST, ..); every refusal
    (`false`) changes nothing. An admission that leaves `prev` behind lets the same elapsed time be credited
    again later; an uncapped capacity store lifts the burst bound."""
    cfg = crate.config
    n = 0
    for fn, kind in ((r"draw_target::RateLimiter::allow", "field"), (r"state::AtomicPosition::allow", "atomic")):
        b = K.find_one(ctx, crate, rule, fn)
        if not b:
            continue
        now_p = [i for i in range(1, b.arg_count + 1) if "Instant" in b.locals[i]["ty"]]
        trues = sorted({i for i, j, s in b.assigns() if s["lhs"]["l"] == 0 and not s["lhs"]["p"] and is_const(s["rv"].get("op"), True)})
        falses = sorted({i for i, j, s in b.assigns() if s["lhs"]["l"] == 0 and not s["lhs"]["p"] and is_const(s["rv"].get("op"), False)})
        # `let admit = ..; if admit { stores }; admit`: the verdict is a flag - its two values are the admission and the refusal
        flags = sorted({(i, operand_local(s["rv"]["op"])) for i, j, s in b.assigns() if s["lhs"]["l"] == 0 and not s["lhs"]["p"] and s["rv"]["k"] == "use"
                        and s["rv"]["op"].get("k") in ("copy", "move") and not s["rv"]["op"]["place"]["p"] and b.locals[operand_local(s["rv"]["op"])]["ty"] == "bool"})
        ctx.floor(rule, len(trues) + len(flags), 1, cfg, "admission (`true`) sites in %s" % K.meth(fn.replace("::allow", "")))
        prev_stores, cap_stores = [], []
        if kind == "field":
            for i, j, s in b.assigns():
                fs = place_fields(s["lhs"])
                if fs and fs[-1][2] == "prev":
                    prev_stores.append((i, b.slice_rv(i, s)))
                if fs and fs[-1][2] == "capacity":
                    cap_stores.append((i, b.slice_rv(i, s)))
        else:
            for c in b.calls(r"portable_atomic::Atomic(U8|U64)::(store|swap)"):
                r0 = b.slice_args(c, [0], through_calls=False)
                if r0.has_field("prev"):
                    prev_stores.append((c.bb, b.slice_args(c, [1])))
                if r0.has_field("capacity"):
                    cap_stores.append((c.bb, b.slice_args(c, [1])))
        good_prev = [i for i, sl in prev_stores if set(now_p) & sl.params()]
        if kind == "atomic":
            # the stored reference time is absolute (time since `start`, less the sub-interval remainder): as a linear form it
            # has the elapsed time with coefficient 1 and the *old* reference time with coefficient 0 - `diff - remainder` (time
            # since the last admission) would make the next call see the whole age of the bar as elapsed and refill the bucket
            from .. import affine as A
            for c in b.calls(r"portable_atomic::AtomicU64::(store|swap)"):
                if not b.slice_args(c, [0], through_calls=False).has_field("prev"):
                    continue
                form = A.linform(b, c.args[1], c.bb)
                old_prev = [k for k, v in form.items() if isinstance(k, tuple) and k[0] == "call" and k[1].endswith("AtomicU64::load") and "prev" in str(k[2]) and v != 0]
                elapsed = [k for k, v in form.items() if isinstance(k, tuple) and k[0] == "call" and re.search(r"Duration::as_(nanos|micros|millis)", k[1]) and v == 1]
                n += 1
                ctx.check(not old_prev and bool(elapsed), rule, "%s:prev-is-absolute" % K.meth(fn.replace("::allow", "")), b.name, c.loc(),
                          "the new reference time is the elapsed time since start minus the sub-interval remainder",
                          "the stored reference time is not absolute (old prev enters with coefficient %s, elapsed %s): %s" % (
                              [form[k] for k in old_prev] or 0, "present" if elapsed else "missing", A.show(form)[:160]), cfg)
        good_cap = [i for i, sl in cap_stores if sl.has_call(r"std::cmp::Ord::min", r"core::cmp::Ord::min", r"std::cmp::min") and
                    any(isinstance(c, int) and not isinstance(c, bool) and c in (10, 20) for c in sl.consts())]
        for t in trues:
            n += 1
            wo_prev = t in b.reach([0], avoid=good_prev)
            wo_cap = t in b.reach([0], avoid=good_cap)
            ctx.check(not wo_prev, rule, "%s:admission-advances-prev" % K.meth(fn.replace("::allow", "")), b.name, K.fn_loc(b),
                      "every admission stores a new reference time derived from `now`",
                      "an admission path leaves `prev` untouched: the elapsed time is credited again at the next refill (more than burst + rate*T frames)", cfg)
            ctx.check(not wo_cap, rule, "%s:admission-caps-capacity" % K.meth(fn.replace("::allow", "")), b.name, K.fn_loc(b),
                      "every admission stores capacity through min(MAX_BURST, ..)",
                      "an admission path updates/keeps capacity without the MAX_BURST cap (or without consuming a token)", cfg)
        for i_, fl in flags:
            n += 2
            Rt, av_t = K.bool_reach(b, fl, True)
            Rf, av_f = K.bool_reach(b, fl, False)
            wo_prev = i_ in b.reach([0], avoid=good_prev, avoid_edges=av_t)
            wo_cap = i_ in b.reach([0], avoid=good_cap, avoid_edges=av_t)
            ctx.check(not wo_prev, rule, "%s:admission-advances-prev" % K.meth(fn.replace("::allow", "")), b.name, K.fn_loc(b),
                      "every admission stores a new reference time derived from `now`",
                      "an admission path leaves `prev` untouched: the elapsed time is credited again at the next refill (more than burst + rate*T frames)", cfg)
            ctx.check(not wo_cap, rule, "%s:admission-caps-capacity" % K.meth(fn.replace("::allow", "")), b.name, K.fn_loc(b),
                      "every admission stores capacity through min(MAX_BURST, ..)",
                      "an admission path updates/keeps capacity without the MAX_BURST cap (or without consuming a token)", cfg)
            stored = any(si in b.reach([0], avoid_edges=av_f) and (i_ in b.reach([si], avoid_edges=av_f)) for si, sl in prev_stores + cap_stores)
            ctx.check(not stored, rule, "%s:refusal-pure" % K.meth(fn.replace("::allow", "")), b.name, K.fn_loc(b),
                      "a refused request leaves the bucket unchanged", "a refused request still modifies the bucket", cfg)
        for f in falses:
            n += 1
            # nothing stored on a refusing path: the false-site is not reachable after any store
            after_store = any(f in b.reach_after(i) or f == i for i, sl in prev_stores + cap_stores)
            ctx.check(not after_store, rule, "%s:refusal-pure" % K.meth(fn.replace("::allow", "")), b.name, K.fn_loc(b),
                      "a refused request leaves the bucket unchanged", "a refused request still modifies the bucket", cfg)
    ctx.floor(rule, n, 6, cfg, "admission/refusal sites")


def rule_limiter_constants(ctx, crate, rule="R-LIMITER-CONSTANTS"):
    """The constants the statement itself names: draw-target bucket starts full at 20 and is capped at 20, its interval
    is 1000 ms / rate; the position bucket starts at 10, is capped at 10, and its interval is 1 ms (1_000_000 ns)."""
    cfg = crate.config
    n = 0
    b = K.find_one(ctx, crate, rule, r"draw_target::RateLimiter::new")
    if b:
        for (cb, i, j, s) in K.constructions(crate, "draw_target::RateLimiter", bodies=[b]):
            f = dict(zip(s["rv"]["fields"], s["rv"]["ops"]))
            n += 1
            ctx.check(is_const(f.get("capacity"), 20), rule, "draw:initial-burst", b.name, "%s:%d" % (b.file, s.get("line", 0)), "a new draw limiter starts with 20 tokens",
                      "a new draw limiter does not start with 20 tokens", cfg)
            sl = b.slice(f.get("interval"), at=i)
            divs = [d for d in sl.defs if d["kind"] == "assign" and d["rv"]["k"] == "bin" and d["rv"]["op"] == "Div"]
            ok = len(divs) == 1 and is_const(divs[0]["rv"]["a"], 1000) and b.slice(divs[0]["rv"]["b"], at=divs[0]["bb"]).params() == {1}
            ctx.check(ok, rule, "draw:interval", b.name, "%s:%d" % (b.file, s.get("line", 0)), "interval = 1000 ms / refresh rate", "the refresh interval is not 1000 ms / rate", cfg)
            prev = b.slice(f.get("prev"), at=i)
            ctx.check(prev.has_call(r"std::time::Instant::now"), rule, "draw:prev-now", b.name, "%s:%d" % (b.file, s.get("line", 0)), "the bucket's reference time starts at now", "the bucket's reference time does not start at creation", cfg)
    a = K.find_one(ctx, crate, rule, r"draw_target::RateLimiter::allow")
    if a:
        mins = a.calls(r"std::cmp::Ord::min")
        n += 1
        ok = bool(mins) and all(20 in {c for c in a.slice_args(m).consts() if isinstance(c, int) and not isinstance(c, bool)} for m in mins)
        ctx.check(ok, rule, "draw:cap", a.name, K.fn_loc(a), "capacity is capped at 20", "the draw bucket's cap is not 20", cfg)
        # a token is consumed: the stored capacity involves `- 1`
        cons = [d for m in mins for d in a.slice_args(m).defs if d["kind"] == "assign" and d["rv"]["k"] == "bin" and d["rv"]["op"].startswith("Sub") and is_const(d["rv"]["b"], 1)]
        ctx.check(bool(cons), rule, "draw:consumes-one", a.name, K.fn_loc(a), "an admission consumes one token", "an admission does not consume a token", cfg)
    b = K.find_one(ctx, crate, rule, r"state::AtomicPosition::new")
    if b:
        for (cb, i, j, s) in K.constructions(crate, "state::AtomicPosition", bodies=[b]):
            f = dict(zip(s["rv"]["fields"], s["rv"]["ops"]))
            sl = b.slice(f.get("capacity"), at=i)
            n += 1
            ctx.check(10 in sl.consts(), rule, "pos:initial-burst", b.name, "%s:%d" % (b.file, s.get("line", 0)), "a new position limiter starts with 10 tokens",
                      "a new position limiter does not start with 10 tokens", cfg)
    a = K.find_one(ctx, crate, rule, r"state::AtomicPosition::allow")
    if a:
        mins = a.calls(r"std::cmp::Ord::min")
        n += 1
        ok = bool(mins) and all(10 in {c for c in a.slice_args(m).consts() if isinstance(c, int) and not isinstance(c, bool)} for m in mins)
        ctx.check(ok, rule, "pos:cap", a.name, K.fn_loc(a), "capacity is capped at 10", "the position bucket's cap is not 10", cfg)
        ivals = set()
        for i, j, s in a.assigns():
            rv = s["rv"]
            if rv["k"] == "bin" and rv["op"] in ("Div", "Rem", "Lt", "Ge") and isinstance(const_val(rv["b"]), int) and const_val(rv["b"]) > 1000:
                ivals.add(const_val(rv["b"]))
        ctx.check(ivals == {1000000}, rule, "pos:interval", a.name, K.fn_loc(a), "the position interval is 1 ms (1_000_000 ns) in the test, the division and the remainder",
                  "the position limiter's interval constants are %s (expected 1_000_000 ns everywhere)" % sorted(ivals), cfg)
        cons = [d for m in mins for d in a.slice_args(m).defs if d["kind"] == "assign" and d["rv"]["k"] == "bin" and d["rv"]["op"].startswith("Sub") and is_const(d["rv"]["b"], 1)]
        ctx.check(bool(cons), rule, "pos:consumes-one", a.name, K.fn_loc(a), "an admission consumes one token", "an admission does not consume a token", cfg)
    ctx.floor(rule, n, 4, cfg, "limiter constant sites")
    # default targets use 20 Hz
    for fn in ("draw_target::ProgressDrawTarget::stdout", "draw_target::ProgressDrawTarget::stderr"):
        x = crate.body(fn)
        if x:
            cs = x.calls(r"draw_target::ProgressDrawTarget::term")
            ctx.check(bool(cs) and all(is_const(c.args[1], 20) for c in cs), rule, "default-rate:%s" % K.meth(fn), fn, K.fn_loc(x), "default refresh rate is 20 Hz",
                      "the default refresh rate is not 20 Hz", cfg)


def rule_limiter_whole_duration(ctx, crate, rule="R-LIMITER-ADMISSION"):
    """"a request arriving at least one refresh interval after the last painted frame is always painted": the elapsed time
    that the limiter tests and converts into tokens is the whole duration since `prev` — an accessor that drops the whole
    seconds (`subsec_millis/micros/nanos`) may only appear together with `as_secs` on the same value."""
    cfg = crate.config
    n = 0
    for fn in (r"draw_target::RateLimiter::allow", r"state::AtomicPosition::allow"):
        b = K.find_one(ctx, crate, rule, fn)
        if not b:
            continue
        n += 1
        sub = b.calls(r"std::time::Duration::subsec_(millis|micros|nanos)")
        secs = b.calls(r"std::time::Duration::as_secs")
        bad = [c for c in sub if not any(b.slice_args(s, [0], through_calls=False).locals & b.slice_args(c, [0], through_calls=False).locals for s in secs)]
        ctx.check(not bad, rule, "whole-elapsed:%s" % fn.split("::")[1], b.name, bad[0].loc() if bad else K.fn_loc(b),
                  "the limiter works with the whole elapsed duration", "the limiter uses %s of the elapsed time without the whole seconds: after an idle gap of k seconds plus "
                  "less than one interval it still refuses (a stale frame stays)" % (K.meth(bad[0].path) if bad else ""), cfg)
    ctx.floor(rule, n, 2, cfg, "limiter admission functions")


def rule_force_is_constant(ctx, crate, rule="R-FORCE-IS-CONSTANT"):
    """"Redraw requests … are painted under a token-bucket law": whether a redraw may bypass the limiter is a static
    property of the call site (finish / println / suspend / explicit force_draw pass the constant true), never a function of
    the bar's state. Every call of BarState::draw / MultiState::draw passes a boolean constant, or — in the two forwarding
    functions — its own force parameter; the shared update path (every inc / set_position / tick / set_message / set_length
    ends there) passes the constant false."""
    cfg = crate.config
    n = 0
    for b in K.lib_bodies(crate):
        for c in b.calls(r"state::BarState::draw", r"multi::MultiState::draw"):
            n += 1
            a = c.args[1]
            if a.get("k") == "const":
                v = a.get("v")
                if b.name == "state::BarState::update_estimate_and_draw":
                    ctx.check(v is False, rule, "update-path-unforced", b.name, c.loc(), "the shared update path never forces its redraw",
                              "the shared update path forces its redraw: ordinary updates bypass the refresh-rate limiter", cfg)
                else:
                    ctx.ok(rule, "const:%s" % K.meth(K.owner_fn(crate, b)), b.name, c.loc(), "force flag is the constant %s" % v, cfg)
                continue
            sl = b.slice_args(c, [1])
            own = [p for p in sl.params() if b.locals[p]["ty"] == "bool"]
            fields = [x for x in sl.atoms if x[0] == "field" and x[2] == "force_draw"]
            state_dep = sorted({"%s.%s" % (x[1].rsplit("::", 1)[-1], x[2]) for x in sl.atoms if x[0] == "field" and x[2] != "force_draw"} |
                               {x.path for x in sl.calls if not x.matches(r"state::ProgressState::is_finished", r"std::ops::Deref.*")})
            ok = (own or fields) and not state_dep
            ctx.check(bool(ok), rule, "forwarded:%s" % K.meth(K.owner_fn(crate, b)), b.name, c.loc(),
                      "a non-constant force flag is the caller's own flag, forwarded",
                      "the force flag passed to %s is computed from the bar's state (%s): redraws bypass the limiter depending on position/length/…" % (K.meth(c.path), state_dep[:3]), cfg)
    ctx.floor(rule, n, 8, cfg, "calls of BarState::draw / MultiState::draw")
    # The two forwarding functions may escalate their flag before asking drawable(): the enumerated escalations are "the bar is
    # finished" (BarState::draw; R-FINISHED-DRAWS-FORCED needs it) and "printed text is waiting" (MultiState::draw: a println must not
    # be dropped). Anything else the flag depends on - by data or through the tests that select a constant for it - lets ordinary
    # requests bypass the limiter in some state of the bars (seed C05k: while a dropped bar heads the ordering).
    ALLOWED = {"multi::MultiState::draw": {("multi::MultiState", "orphan_lines"), ("multi::MultiState", "draw_target")},
               "state::BarState::draw": {("state::BarState", "state"), ("state::ProgressState", "status")}}
    OWN = ("multi::MultiState", "multi::MultiStateMember", "state::BarState", "state::ProgressState", "draw_target::DrawState", "style::ProgressStyle")
    m = 0
    for fn, allowed in sorted(ALLOWED.items()):
        f = crate.body(fn)
        if not f:
            continue
        for c in f.calls(K.PDT_DRAWABLE):
            m += 1
            sls = [f.slice_args(c, [1])]
            for d in list(sls[0].defs):
                if d.get("kind") == "assign" and d["rv"]["k"] == "use" and d["rv"]["op"].get("k") == "const" and isinstance(d["rv"]["op"].get("v"), bool):
                    for sb, t in f.switches():
                        if any(f.edge_dominates((sb, x), d["bb"]) for x in f.succ(sb)) and not f.dominates(d["bb"], c.bb) and \
                                not all(d["bb"] in f.reach([y]) for y in f.succ(sb)):
                            sls.append(f.slice_switch(sb))
            dep = sorted({"%s.%s" % (a.rsplit("::", 1)[-1], n_) for sl in sls for a, n_ in sl.fields() if a in OWN and (a, n_) not in allowed} |
                         {k.path for sl in sls for k in sl.calls if k.path.startswith(("state::ProgressState::", "state::BarState::", "multi::MultiState::"))
                          and not k.matches(r"state::ProgressState::is_finished", r"multi::MultiState::width")})
            ctx.check(not dep, rule, "escalations:%s" % K.meth(fn), f.name, c.loc(),
                      "the flag handed to drawable() is the caller's flag, escalated only by the enumerated conditions (finished bar / pending printed text)",
                      "the force flag handed to drawable() in %s also depends on %s: ordinary redraw requests bypass the refresh-rate limiter while that holds" % (K.meth(fn), dep[:4]), cfg)
    ctx.floor(rule, m, 2, cfg, "drawable() calls in the forwarding functions")


INSTANT_TYS = ("std::time::Instant", "web_time::Instant")
NOW = (r"std::time::Instant::now", r"web_time::Instant::now")


def rule_time_source_is_clock(ctx, crate, rule="R-TIME-SOURCE-IS-CLOCK"):
    """Both token buckets compare the `now` of a request with the reference time of the last admission; all requests share those
    reference times. The law ("a request at least one interval after the last painted frame is painted") therefore needs every
    request to be stamped with the *clock*: whenever library code passes an `Instant` down the draw path that it did not receive
    as a parameter itself, the value comes straight from `Instant::now()` - evaluated anew in each iteration when the call sits
    in a loop - and never from arithmetic on an earlier reading (`now += interval` drifts behind the clock by the time the loop
    body takes, and every request stamped that way is refused for as long as the accumulated lag)."""
    cfg = crate.config
    n = 0
    for b in K.lib_bodies(crate):
        if b.file in K.TEST_DOUBLE_FILES:
            continue
        inst_params = {i for i in range(1, b.arg_count + 1) if b.locals[i]["ty"] in INSTANT_TYS}
        for c in b.calls():
            if not c.callee.get("local") or c.matches(*NOW):
                continue
            for ai, a in enumerate(c.args):
                if not isinstance(a, dict) or a.get("k") not in ("move", "copy") or (a["place"].get("ty") or "") not in INSTANT_TYS:
                    continue
                sl = b.slice(a, at=c.bb)
                nows = [k for k in sl.calls if k.matches(*NOW)]
                if not nows and sl.params():
                    continue            # forwarded from the caller (an Instant parameter, or the `now` field of a Drawable handed in)
                n += 1
                arith = [k for k in sl.calls if re.search(r"ops::(Add|AddAssign|Sub|SubAssign)::", k.generic or k.path) and
                         any(t_ in " ".join(k.callee.get("targs") or []) for t_ in ("Instant",))]
                problems = []
                if not nows:
                    problems.append("the value does not come from Instant::now()")
                if arith:
                    problems.append("it is computed by arithmetic on an earlier reading (%s, line %d)" % (K.meth(arith[0].generic or arith[0].path), arith[0].line))
                if b.in_loop(c.bb) and nows:
                    loop = {c.bb} | {y for y in b.reach_after(c.bb) if c.bb in b.reach_after(y)}
                    if not any(k.bb in loop for k in nows):
                        problems.append("the clock is read once outside the loop the call sits in")
                ctx.check(not problems, rule, "now:%s->%s#%d" % (K.meth(b.name), K.meth(c.path), sum(1 for x in b.calls() if x.path == c.path and x.bb < c.bb)), b.name, c.loc(),
                          "the Instant handed to %s is a fresh clock reading" % K.meth(c.path),
                          "the time stamp handed to %s is not the clock: %s - requests stamped behind the limiter's reference time are refused although a full interval has passed" % (
                              K.meth(c.path), "; ".join(problems)), cfg)
    ctx.floor(rule, n, 30, cfg, "call sites that stamp a request with a time of their own")
