"""C07 — position and length bookkeeping, including concurrent increments (structural core)."""
import re

from .. import common as K
from .. import ledger as Lg
from ..facts import operand_local, place_fields, is_const, const_val
from .c05 import rule_update_before_gate

EXPLANATION = ("Decides: the shared position is only ever touched by single atomic read-modify-write operations (fetch_add / "
               "fetch_sub / store / load; no store whose value depends on a load of the same atomic), with the caller's delta as "
               "operand; all handles share one atomic (Arc fields, derive(Clone)); the update is unconditional and precedes the "
               "limiter; lengths use saturating arithmetic on the old length and the parameter; fraction() returns clamp(x, 0, 1) "
               "with 0 for unknown and 1 for zero length; the getters return the live values; no unaudited panic edge exists in "
               "the position/length API (overflow checks forced on).")
UNDECIDED = "Numeric exactness of pos as f32 / len as f32 and the rendered {pos}; wrapping at the u64 boundary is fetch_add's definition."

AP = "state::AtomicPosition"
ENTRIES = [r"progress_bar::ProgressBar::(inc|dec|set_position|position|length|set_length|inc_length|dec_length|unset_length|reset|with_position|reset_eta|reset_elapsed)",
           r"state::ProgressState::(fraction|pos|len|set_pos|set_len)"]
STOP = [r"state::BarState::draw"]


def run(ctx, crate):
    K.rule_no_unsafe(ctx, crate)
    rule_pos_atomic_rmw(ctx, crate)
    rule_update_before_gate(ctx, crate)
    rule_len_saturating(ctx, crate)
    rule_fraction_clamp(ctx, crate)
    rule_getters(ctx, crate)
    rule_pos_writers(ctx, crate)
    rule_pos_setters_exact(ctx, crate)
    # "position() equals the value defined by the history of ... finish calls": per-variant effect of finishing on the position
    from .c04 import rule_finish_arms, rule_on_finish_writers, rule_finish_api_map
    rule_finish_arms(ctx, crate)
    rule_finish_api_map(ctx, crate)         # ... and every public finish call reaches that effect on every path
    rule_on_finish_writers(ctx, crate)      # ... every time a bar is finished, also after a reset
    Lg.run_ledger(ctx, crate, "C07", "R-POS-LEDGER", ENTRIES, STOP, floor_edges=6)


def pos_atomic_calls(crate):
    out = []
    for b in K.lib_bodies(crate):
        for c in b.calls(r"portable_atomic::AtomicU64::\w+"):
            sl = b.slice_args(c, [0], through_calls=True)
            if sl.has_field("pos", AP):
                out.append(c)
    return out


def rule_pos_atomic_rmw(ctx, crate, rule="R-POS-ATOMIC-RMW"):
    cfg = crate.config
    cs = pos_atomic_calls(crate)
    ctx.floor(rule, len(cs), 6, cfg, "atomic operations on AtomicPosition::pos")
    allowed = {"fetch_add", "fetch_sub", "store", "swap", "load", "new"}   # each is one atomic operation
    for c in cs:
        m = K.meth(c.path)
        ctx.check(m in allowed, rule, "op:%s" % m, c.body.name, c.loc(), "position accessed with the single atomic operation %s" % m,
                  "position accessed with %s (not one of the single-operation accesses fetch_add/fetch_sub/store/swap/load)" % m, cfg)
        if m in ("store", "fetch_add", "fetch_sub", "swap", "compare_exchange", "compare_exchange_weak", "fetch_update"):
            sl = c.body.slice_args(c, [1])
            loads = [x for x in sl.calls if x.matches(r"portable_atomic::AtomicU64::(load|fetch_\w+|swap)") and c.body.slice_args(x, [0]).has_field("pos", AP)]
            ctx.check(not loads, rule, "no-split-rmw:%s" % m, c.body.name, c.loc(),
                      "the written value does not depend on a separate read of the position (no split read-modify-write)",
                      "the value written by %s depends on an earlier load of the position: a concurrent update between the two is lost" % m, cfg)
    # inc/dec use fetch_add/fetch_sub with their parameter
    for fn, want in (("state::AtomicPosition::inc", "fetch_add"), ("state::AtomicPosition::dec", "fetch_sub"), ("state::AtomicPosition::set", "store")):
        b = K.find_one(ctx, crate, rule, re.escape(fn))
        if not b:
            continue
        ops = [c for c in cs if c.body.name == b.name]
        ok = len(ops) == 1 and (K.meth(ops[0].path) == want or (want == "store" and K.meth(ops[0].path) == "swap")) and b.slice_args(ops[0], [1]).params() == {2} and not b.slice_args(ops[0], [1]).calls \
            and b.must_pass([0], [ops[0].bb])
        ctx.check(ok, rule, "%s=%s(param)" % (K.meth(fn), want), b.name, K.fn_loc(b), "%s is exactly pos.%s(delta)" % (K.meth(fn), want),
                  "%s is not a single %s of its argument" % (K.meth(fn), want), cfg)
    # the three handles of ProgressBar are Arcs and Clone is derived (all clones share the atomic)
    pb = crate.adts.get("progress_bar::ProgressBar")
    if pb:
        fs = pb["variants"][0]["fields"]
        ok = all(f["ty"].startswith("std::sync::Arc<") for f in fs) and any("state::AtomicPosition" in f["ty"] for f in fs)
        ctx.check(ok, rule, "handles-share-arc", "progress_bar::ProgressBar", "%s:%d" % (pb["file"], pb["line"]),
                  "every ProgressBar field is an Arc (clones share the same atomic position)", "a ProgressBar field is not an Arc: clones no longer share the position", cfg)
        cl = crate.body("<progress_bar::ProgressBar as std::clone::Clone>::clone")
        if cl:
            n = len(cl.calls(r"std::clone::Clone::clone", r"<std::sync::Arc<T, A> as std::clone::Clone>::clone"))
            ctx.check(n == len(fs) and not cl.calls(r"std::sync::Arc::<T>::new", r"state::AtomicPosition::new"), rule, "clone-shares", cl.name, K.fn_loc(cl),
                      "Clone clones the %d Arcs (no fresh state)" % len(fs), "ProgressBar::clone creates fresh state instead of sharing", cfg)
    # BarState and ProgressBar share the same AtomicPosition: with_draw_target passes pos.clone() into BarState::new
    wd = K.find_one(ctx, crate, rule, r"progress_bar::ProgressBar::with_draw_target")
    if wd:
        news = wd.calls(r"state::AtomicPosition::new")
        ctx.check(len(news) == 1, rule, "one-position-per-bar", wd.name, K.fn_loc(wd), "exactly one AtomicPosition is created per bar",
                  "with_draw_target creates %d AtomicPositions (handle and state would count separately)" % len(news), cfg)
        for c in wd.calls(r"state::BarState::new"):
            sl = wd.slice_args(c, [2])
            ctx.check(any(x.bb == n.bb for x in sl.calls for n in news), rule, "state-shares-position", wd.name, c.loc(),
                      "BarState receives a clone of the same Arc<AtomicPosition>", "BarState gets a different AtomicPosition than the handle", cfg)


def rule_len_saturating(ctx, crate, rule="R-LEN-SATURATING"):
    cfg = crate.config
    table = {"state::BarState::inc_length": "saturating_add", "state::BarState::dec_length": "saturating_sub"}
    for fn, want in sorted(table.items()):
        b = K.find_one(ctx, crate, rule, re.escape(fn))
        if not b:
            continue
        stores = [(i, s) for i, j, s in b.assigns() if [f[2] for f in place_fields(s["lhs"])][-1:] == ["len"]]
        ctx.check(bool(stores), rule, "%s:stores" % K.meth(fn), b.name, K.fn_loc(b), "the length is updated", "%s no longer updates the length" % K.meth(fn), cfg)
        for i, s in stores:
            sl = b.slice_rv(i, s)
            arith = [(b, c) for c in sl.calls if c.matches(r"core::num::<impl u64>::\w+")]
            plain = bool(sl.atoms & {("binop", x) for x in ("Add", "Sub", "AddWithOverflow", "SubWithOverflow", "Mul")})
            # closures applied to the old length (`len.map(|l| l.saturating_add(delta))`)
            via_closure = False
            for a in sl.atoms:
                if a[0] == "closure" and a[1] in crate.bodies:
                    cb = crate.bodies[a[1]]
                    arith += [(cb, c) for c in cb.calls(r"core::num::<impl u64>::\w+")]
                    plain = plain or any(x["rv"]["k"] == "bin" and x["rv"]["op"] in ("Add", "Sub", "AddWithOverflow", "SubWithOverflow", "Mul") for _, _, x in cb.assigns())
                    via_closure = True
            ok = len(arith) == 1 and K.meth(arith[0][1].path) == want and not plain
            ctx.check(ok, rule, "%s:%s" % (K.meth(fn), want), b.name, "%s:%d" % (b.file, s.get("line", 0)),
                      "new length = old.%s(delta)" % want, "length arithmetic is not a single %s (found %s)" % (want, [K.meth(c.path) for _, c in arith] or "plain operators"), cfg)
            # "length() follows ... inc_length/dec_length": an unknown length stays unknown. The store happens only where the old
            # length is Some (an `if let Some(len)` / `match`, or `Option::map`); a default for the unknown case (`unwrap_or_default()`)
            # invents a length - fraction() jumps to 1.0 for a bar that never had one, finish() moves the position to it (seed C07n)
            defaulted = sl.calls_matching(r"std::option::Option::<T>::(unwrap_or|unwrap_or_default|unwrap_or_else)")
            in_some = any(vs == {"Some"} and i in reg and [f for f in place_fields(pl) if f[2] == "len"]
                          for vs, reg, sb_, pl in K.variant_regions(b, crate, "std::option::Option"))
            via_map = sl.has_call(r"std::option::Option::<T>::(map|and_then)") or via_closure
            if not in_some and not via_map:
                # `self.state.len = self.state.len.map(|l| ..)` after closure inlining: the stored value is built as Some only in the
                # Some region of the old length, and is None otherwise
                somes = [d for d in sl.defs if d["kind"] == "assign" and d["rv"]["k"] == "agg" and d["rv"].get("adt") == "std::option::Option" and d["rv"].get("variant") == "Some"]
                def _is_len(pl_):
                    if [f for f in place_fields(pl_) if f[2] == "len"]:
                        return True
                    return any(d_["kind"] == "assign" and d_["rv"]["k"] == "use" and isinstance(d_["rv"]["op"], dict) and d_["rv"]["op"].get("k") in ("copy", "move")
                               and [f for f in place_fields(d_["rv"]["op"]["place"]) if f[2] == "len"] for d_ in b.defs().get(pl_["l"], ()) if not pl_["p"])
                regs = [reg for vs, reg, sb_, pl in K.variant_regions(b, crate, "std::option::Option") if vs == {"Some"} and _is_len(pl)]
                in_some = bool(somes) and all(any(d["bb"] in reg for reg in regs) for d in somes)
            ctx.check(not defaulted and (in_some or via_map), rule, "%s:unknown-stays-unknown" % K.meth(fn), b.name, "%s:%d" % (b.file, s.get("line", 0)),
                      "the length is changed only when it is known",
                      "%s stores a length also when the old length is unknown (a default stands in for it): length() turns from None into Some(..), fraction() "
                      "and finish() follow the invented length" % K.meth(fn), cfg)
            if arith:
                ab, ac = arith[0]
                a0 = ab.slice_args(ac, [0])
                a1 = ab.slice_args(ac, [1])
                if ab is b:
                    ok2 = a0.has_field("len", "state::ProgressState") and a1.params() == {3} and not a1.calls
                else:
                    # inside the closure: operands are the closure's argument (the old length) and the captured delta
                    ok2 = a0.params() == {2} and any(x[0] == "upvar" for x in a1.atoms) and sl.has_field("len", "state::ProgressState") and 3 in sl.params()
                ctx.check(ok2, rule, "%s:operands" % K.meth(fn), b.name, ac.loc(),
                          "operands are the old length and the delta parameter", "operands are not (old length, delta)", cfg)
    for fn, kind in (("state::BarState::set_length", "some-param"), ("state::BarState::unset_length", "none")):
        b = K.find_one(ctx, crate, rule, re.escape(fn))
        if not b:
            continue
        stores = [(i, s) for i, j, s in b.assigns() if [f[2] for f in place_fields(s["lhs"])][-1:] == ["len"]]
        for i, s in stores:
            sl = b.slice_rv(i, s)
            if kind == "some-param":
                ok = ("agg", "std::option::Option", "Some") in sl.atoms and sl.params() == {3} and not sl.calls
            else:
                ok = ("agg", "std::option::Option", "None") in sl.atoms and not sl.params()
            ctx.check(ok and b.must_pass([0], [i]), rule, "%s:value" % K.meth(fn), b.name, "%s:%d" % (b.file, s.get("line", 0)),
                      "%s stores %s" % (K.meth(fn), "Some(len)" if kind == "some-param" else "None"), "%s stores something else" % K.meth(fn), cfg)
        ctx.check(bool(stores), rule, "%s:stores" % K.meth(fn), b.name, K.fn_loc(b), "length stored", "%s no longer stores the length" % K.meth(fn), cfg)
    # the public API forwards the user's argument
    for fn, callee in (("inc_length", "inc_length"), ("dec_length", "dec_length"), ("set_length", "set_length")):
        b = crate.body("progress_bar::ProgressBar::" + fn)
        if not b:
            ctx.lost(rule, cfg, "ProgressBar::%s missing" % fn)
            continue
        cs = b.calls(r"state::BarState::" + callee)
        ok = len(cs) == 1 and b.slice_args(cs[0], [2]).params() == {2} and not [x for x in b.slice_args(cs[0], [2]).calls]
        ctx.check(ok, rule, "api:%s" % fn, b.name, K.fn_loc(b), "ProgressBar::%s forwards its argument unchanged" % fn, "ProgressBar::%s does not forward its argument unchanged" % fn, cfg)


def rule_fraction_clamp(ctx, crate, rule="R-FRACTION-CLAMP"):
    cfg = crate.config
    b = K.find_one(ctx, crate, rule, r"state::ProgressState::fraction")
    if not b:
        return
    clamps = b.calls(r"core::f32::<impl f32>::clamp", r"std::f32::<impl f32>::clamp")
    ok = bool(clamps) and all(c.dest["l"] == 0 and not c.dest["p"] for c in clamps) and b.must_pass([0], [c.bb for c in clamps])
    ctx.check(ok, rule, "returns-clamp", b.name, K.fn_loc(b), "every return value is the result of f32::clamp", "fraction() can return an unclamped value", cfg)
    for c in clamps:
        lo, hi = const_val(c.args[1]), const_val(c.args[2])
        ctx.check(lo in ("0.0", "0") and hi in ("1.0", "1"), rule, "clamp-bounds", b.name, c.loc(), "clamp bounds are the constants 0.0 and 1.0",
                  "clamp bounds are %s..%s" % (lo, hi), cfg)
        ctx.check(not [x for x in b.calls() if x.bb in b.reach_after(c.bb)], rule, "clamp-last", b.name, c.loc(), "nothing is computed after the clamp",
                  "the clamped value is modified afterwards", cfg)
    # unknown length -> 0.0, zero length -> 1.0: constant assignments under the matching edges
    vals = {}
    for i, j, s in b.assigns():
        if s["rv"]["k"] == "use" and s["rv"]["op"]["k"] == "const" and s["rv"]["op"].get("float"):
            vals.setdefault(s["rv"]["op"]["v"], []).append(i)
    # everything that can execute when the length is None: only 0.0 is produced there and nothing is divided
    is_len = lambda pl: b.slice({"k": "copy", "place": pl}, through_calls=False).has_field("len", "state::ProgressState")
    lensw = [x for x in K.discr_switches(b) if K.head_of_type(x[2].get("ty", "")) == "std::option::Option" and is_len(x[2])]
    none_ok = bool(lensw)
    if lensw:
        reg = K.variant_reach(b, crate, "std::option::Option", "None", is_len)
        stored = {v for v, bbs in vals.items() if set(bbs) & reg}
        divs = [1 for i, j, s in b.assigns() if i in reg and s["rv"]["k"] == "bin" and s["rv"]["op"] == "Div"]
        none_ok = stored == {"0.0"} and not divs
    ctx.check(none_ok, rule, "unknown-length-is-0", b.name, K.fn_loc(b), "unknown length yields the constant 0.0", "unknown length does not yield 0.0", cfg)
    zero_ok = False
    for sb, t in b.switches():
        pl = t["op"].get("place")
        if pl and any(isinstance(e, dict) and e.get("dc") == "Some" for e in pl["p"]) and b.slice(t["op"], at=sb).has_field("len", "state::ProgressState"):
            z = [tb for v, tb in t["targets"] if v == 0]
            if z:
                reg = b.edge_region((sb, z[0]))
                stored = {v for v, bbs in vals.items() if set(bbs) & reg}
                zero_ok = stored == {"1.0"}
    if not zero_ok:
        # the same through comparison facts (`if len == 0 { 1.0 } else if .. { } else { pos / len }`): the division runs only where
        # len != 0 is established, and a block that runs only under len == 0 produces the constant 1.0 (and no other constant)
        from . import c13
        divs0 = [(i, s) for i, j, s in b.assigns() if s["rv"]["k"] == "bin" and s["rv"]["op"] == "Div"]
        roots = set()
        for i, s_ in divs0:
            o = s_["rv"]["b"]
            for _ in range(4):
                l_ = operand_local(o)
                ds = [d for d in b.defs().get(l_, ()) if d["kind"] == "assign"] if l_ is not None else []
                if len(ds) == 1 and ds[0]["rv"]["k"] in ("cast", "use"):
                    o = ds[0]["rv"]["op"]
                else:
                    break
            r_ = c13.root(b, o)
            if r_:
                roots.add(r_)
        if len(roots) == 1:
            r_ = next(iter(roots))
            ne0 = {c13.norm_fact("Ne", r_, ("c", "0")), c13.norm_fact("Gt", r_, ("c", "0"))}
            eq0 = c13.norm_fact("Eq", r_, ("c", "0"))
            guarded = all(c13.edge_facts(b, i) & ne0 for i, s_ in divs0)
            ones = [bb for bb in vals.get("1.0", []) if eq0 in c13.edge_facts(b, bb)]
            others = [v for v, bbs in vals.items() if v != "1.0" and any(eq0 in c13.edge_facts(b, bb) for bb in bbs)]
            zero_ok = bool(divs0) and guarded and bool(ones) and not others
    ctx.check(zero_ok, rule, "zero-length-is-1", b.name, K.fn_loc(b), "zero length yields the constant 1.0", "zero length does not yield 1.0 (division by zero -> NaN/inf reaches the renderer)", cfg)
    # the division is pos / len of the live values
    divs = [(i, s) for i, j, s in b.assigns() if s["rv"]["k"] == "bin" and s["rv"]["op"] == "Div"]
    for i, s in divs:
        na = b.slice(s["rv"]["a"], at=i)
        de = b.slice(s["rv"]["b"], at=i)
        ok = na.has_call(r"portable_atomic::AtomicU64::load") and de.has_field("len", "state::ProgressState") and not de.has_call(r"portable_atomic::AtomicU64::load")
        ctx.check(ok, rule, "pos-over-len", b.name, "%s:%d" % (b.file, s.get("line", 0)), "fraction = position / length", "fraction is not position / length", cfg)
    ctx.floor(rule, len(divs), 1, cfg, "divisions in fraction()")


def rule_getters(ctx, crate, rule="R-POS-GETTERS"):
    cfg = crate.config
    b = K.find_one(ctx, crate, rule, r"state::ProgressState::pos")
    if b:
        sl = b.slice([0])
        ok = sl.has_call(r"portable_atomic::AtomicU64::load") and sl.has_field("pos", AP) and not (sl.atoms & {("binop", x) for x in ("Add", "Sub", "Mul", "Div")})
        ctx.check(ok, rule, "pos()", b.name, K.fn_loc(b), "pos() returns a load of the shared atomic", "pos() does not return the shared position", cfg)
    b = K.find_one(ctx, crate, rule, r"state::ProgressState::len")
    if b:
        sl = b.slice([0])
        ctx.check(sl.has_field("len", "state::ProgressState") and not sl.calls, rule, "len()", b.name, K.fn_loc(b), "len() returns the stored length", "len() does not return the stored length", cfg)
    for fn, inner in (("position", r"state::ProgressState::pos"), ("length", r"state::ProgressState::len")):
        b = K.find_one(ctx, crate, rule, r"progress_bar::ProgressBar::" + fn)
        if b:
            sl = b.slice([0], through_calls=False)
            ctx.check(sl.has_call(inner), rule, "api:%s" % fn, b.name, K.fn_loc(b), "%s() returns ProgressState::%s" % (fn, K.meth(inner)),
                      "%s() does not return the state's value" % fn, cfg)
    # reset(All) zeroes the position; reset_eta/elapsed do not touch it
    r = K.find_one(ctx, crate, rule, r"state::BarState::reset")
    if r:
        cs = r.calls(r"state::AtomicPosition::reset")
        ok = bool(cs)
        for c in cs:
            ok = ok and any(vs == {"All"} and c.bb in reg for vs, reg, sb, pl in K.variant_regions(r, crate, "state::Reset"))
        ctx.check(ok, rule, "reset-all-only", r.name, K.fn_loc(r), "the position is reset only for Reset::All", "the position is reset for reset_eta/reset_elapsed too (or never)", cfg)
    ar = K.find_one(ctx, crate, rule, r"state::AtomicPosition::reset")
    if ar:
        cs = ar.calls(r"state::AtomicPosition::set")
        # ... through the setter, or with a plain store of the constant 0 into the position atomic
        direct = [c for c in ar.calls(r"portable_atomic::AtomicU64::(store|swap)") if ar.slice_args(c, [0]).has_field("pos", AP)]
        ok = (bool(cs) and all(is_const(c.args[1], 0) for c in cs) and not direct) or (bool(direct) and not cs and all(is_const(c.args[1], 0) for c in direct))
        ctx.check(ok, rule, "reset-sets-zero", ar.name, K.fn_loc(ar), "reset stores position 0", "reset does not store 0", cfg)


POS_HISTORY_API = r"progress_bar::ProgressBar::(inc|dec|set_position|with_position|reset|finish\w*|abandon\w*|update|new\w*|no_length|reset_eta|reset_elapsed|with_draw_target|hidden|wrap_\w+|with_elapsed)"
NON_POS_API = r"progress_bar::ProgressBar::(set_length|inc_length|dec_length|unset_length|set_message|set_prefix|set_style|set_tab_width|set_draw_target|tick|" \
              r"enable_steady_tick|disable_steady_tick|println|suspend|with_message|with_prefix|with_style|with_tab_width|with_finish|" \
              r"position|length|eta|elapsed|duration|per_sec|message|prefix|is_finished|is_hidden|downgrade|style|force_draw)"


def rule_pos_setters_exact(ctx, crate, rule="R-POS-SETTERS-EXACT"):
    """"position() always equals the value defined by the history of .. set_position .. calls": a setter stores the value it was
    given. Every function with a `u64` argument that ends in a plain store into the position atomic (AtomicPosition::set and what
    forwards to it: ProgressState::set_pos, ProgressBar::set_position / with_position, ProgressBarIter::with_position) hands the
    argument on unmodified - no min/max/clamp against the length, no arithmetic (positions beyond the length are legal:
    `fraction()` clamps, the position does not)."""
    cfg = crate.config
    n = 0
    targets = (r"state::AtomicPosition::set", r"state::ProgressState::set_pos", r"progress_bar::ProgressBar::set_position", r"progress_bar::ProgressBar::with_position")
    for b in K.lib_bodies(crate):
        if b.kind == "Closure":
            continue
        u64_params = [i for i in range(1, b.arg_count + 1) if b.locals[i]["ty"] == "u64"]
        if not u64_params:
            continue
        sites = []
        for c in b.calls(*targets):
            if len(c.args) > 1:
                sites.append((c, c.args[1]))
        for c in b.calls(r"portable_atomic::AtomicU64::(store|swap)"):
            if len(c.args) > 1 and b.slice_args(c, [0]).has_field("pos", AP) and K.meth(b.name) in ("set",):
                sites.append((c, c.args[1]))
        for c, a in sites:
            sl = b.slice(a, at=c.bb)
            if not (sl.params() & set(u64_params)):
                continue            # not forwarding an argument (finish: the length; reset: zero)
            n += 1
            mods = sorted({K.meth(x.path) for x in sl.calls if not x.matches(r"std::convert::(From::from|Into::into)", r"std::clone::Clone::clone")} |
                          {"%s" % a_[1] for a_ in sl.atoms if a_[0] == "binop"})
            ctx.check(not mods, rule, "stores-argument:%s" % K.meth(b.name), b.name, c.loc(),
                      "%s hands the given position on unmodified" % K.meth(b.name),
                      "%s modifies the position it was given before storing it (%s): with_position()/set_pos() and set_position() of the same value end at different positions" % (K.meth(b.name), ", ".join(mods)), cfg)
    ctx.floor(rule, n, 4, cfg, "position setters forwarding an argument")


def rule_pos_writers(ctx, crate, rule="R-POS-WRITERS"):
    """"position() equals the value defined by the history of inc/dec/set_position/reset/finish calls": nothing else writes
    it. (reset_eta/reset_elapsed share BarState::reset with reset(): that only Reset::All touches the position is the
    per-variant clause `reset-all-only` of R-POS-GETTERS.) Who-may-write check over the call graph: from the public operations that are not position operations (the length
    family, messages, style, ticking, draw-target changes, getters) no function that stores into the shared position
    (AtomicPosition::set / inc / dec / reset, or a direct store / RMW on its atomic) is reachable. Closures handed in by the
    user (`update`) and Drop impls of the bar itself (which finish it) are position operations by definition."""
    cfg = crate.config
    writers = set()
    for c in pos_atomic_calls(crate):
        if K.meth(c.path) in ("store", "swap", "fetch_add", "fetch_sub", "fetch_update", "compare_exchange", "compare_exchange_weak", "fetch_max", "fetch_min"):
            writers.add(K.owner_fn(crate, c.body) if c.body.kind == "Closure" else c.body.name)
    ctx.floor(rule, len(writers), 2, cfg, "functions that store into the shared position")
    g = K.callgraph(crate)
    roots = [b for b in K.lib_bodies(crate) if b.api and re.fullmatch(NON_POS_API, b.name)]
    ctx.floor(rule, len(roots), 20, cfg, "public ProgressBar operations that are not position operations")
    # Drop of the bar state finishes the bar: not reachable from these roots as a call (drop glue is), so it is excluded by name
    stop = {n for n in g if re.fullmatch(r"<state::BarState as std::ops::Drop>::drop|<progress_bar::\w+ as std::ops::Drop>::drop", n)}
    for b in roots:
        reach = K.cg_reach(g, [b.name], avoid=stop)
        hit = sorted(reach & writers)
        path = ""
        if hit:
            # shortest call chain for the report
            prev = {b.name: None}
            work = [b.name]
            while work:
                n = work.pop(0)
                if n in writers:
                    chain = []
                    while n is not None:
                        chain.append(K.meth(n))
                        n = prev[n]
                    path = " <- ".join(chain)
                    break
                for m in g.get(n, ()):
                    if m not in prev and m not in stop:
                        prev[m] = n
                        work.append(m)
        ctx.check(not hit, rule, "no-position-write:%s" % K.meth(b.name), b.name, K.fn_loc(b),
                  "%s cannot reach a store into the position" % K.meth(b.name),
                  "%s is not a position operation but reaches a store into the shared position (%s): position() then no longer follows the inc/dec/set_position/reset/finish history, "
                  "and the plain store can swallow a concurrent inc" % (K.meth(b.name), path), cfg)
    # every public ProgressBar method is classified
    for b in K.lib_bodies(crate):
        if b.api and b.name.startswith("progress_bar::ProgressBar::") and b.kind != "Closure" and not re.fullmatch(NON_POS_API, b.name) and not re.fullmatch(POS_HISTORY_API, b.name):
            ctx.bad(rule, "unclassified-api:%s" % K.meth(b.name), b.name, K.fn_loc(b), "public method %s is in neither table of R-POS-WRITERS (position operation / not a position operation)" % b.name, cfg)
