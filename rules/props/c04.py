"""C04 — finishing or dropping a bar always paints its final state (structural core)."""
import re

from .. import common as K
from .. import draw_rules as D
from ..facts import operand_local, place_fields, is_const

EXPLANATION = ("Decides: every path through BarState::finish_using_style sets a Done status and then draws with force_draw = "
               "const true, all state writes precede the draw; each ProgressFinish arm has exactly the effects of the property's "
               "table (position := length / message / hidden); each public finish/abandon API builds the matching variant; the "
               "force flag reaches drawable() monotonically and bypasses every limiter consultation; Drop finishes only an "
               "unfinished bar, with the configured behaviour, and always notifies the MultiProgress; iterator/stream adaptors "
               "finish only on exhaustion and only an unfinished bar.")
UNDECIDED = "The painted pixels, and that finished bars *remain* on screen in a MultiProgress (row accounting; the pairing part is under C03)."

FINISH = r"state::BarState::finish_using_style"
BAR_DRAW = r"state::BarState::draw"

# variant -> (sets position to length, stores message, hides)
ARM_TABLE = {
    "AndLeave": (True, False, False),
    "WithMessage": (True, True, False),
    "AndClear": (True, False, True),
    "Abandon": (False, False, False),
    "AbandonWithMessage": (False, True, False),
}
API_TABLE = {
    "progress_bar::ProgressBar::finish": "AndLeave",
    "progress_bar::ProgressBar::finish_with_message": "WithMessage",
    "progress_bar::ProgressBar::finish_and_clear": "AndClear",
    "progress_bar::ProgressBar::abandon": "Abandon",
    "progress_bar::ProgressBar::abandon_with_message": "AbandonWithMessage",
}


def run(ctx, crate):
    K.rule_no_unsafe(ctx, crate)
    rule_finish_forced_draw(ctx, crate)
    rule_finish_arms(ctx, crate)
    rule_finish_api_map(ctx, crate)
    D.rule_force_bypass(ctx, crate)
    rule_drop_finish_once(ctx, crate)
    rule_iter_finish(ctx, crate)
    rule_is_finished(ctx, crate)
    rule_on_finish_writers(ctx, crate)
    rule_status_writers(ctx, crate)
    # "one last frame that reflects the final state ... the supplied message": every row of the rendered text is a Bar row. A row the
    # renderer hands over as Text/Empty counts as printed text: it is not in the erase count, and in a MultiProgress it is hoisted above
    # all bars and takes the println path that erases the kept finished bars (seed C04m: a blank line inside a finish message)
    D.rule_line_kinds(ctx, crate)
    D.rule_finished_draws_forced(ctx, crate)
    # "visibly finished bars keep their final rendering": the rows of a reaped finished bar are kept by their wrap-aware count
    D.rule_rows_newtype(ctx, crate)
    # "nothing at all for the clearing variant": the paint protocol, in particular an empty final frame clears the old rows
    D.rule_draw_order(ctx, crate)
    # "one last frame that reflects the final state", also where old rows are overwritten instead of cleared (move-cursor mode)
    D.rule_overwrite_covers_row(ctx, crate)
    # "visibly finished bars keep their final rendering ... in order": only zombies at the head of the *logical* order are
    # released from the managed region, and the frame is composed through that order
    from .c02 import rule_head_only_reap, rule_order_source
    rule_head_only_reap(ctx, crate)
    rule_order_source(ctx, crate)
    # a bar paints its final frame only while its slot is in the ordering: a slot that is handed out again must be a fresh one
    # (remove_idx resets the whole member; a stale `is_zombie` would have the new bar reaped before it finishes)
    from .c02 import rule_remove_idx, rule_insert_arms
    rule_remove_idx(ctx, crate)
    rule_insert_arms(ctx, crate)
    D.rule_render_unless_hidden(ctx, crate)


def status_stores(b):
    out = []
    for i, j, s in b.assigns():
        fs = [f[2] for f in place_fields(s["lhs"])]
        if fs[-1:] == ["status"]:
            sl = b.slice_rv(i, s)
            vs = {a[2] for a in sl.atoms if a[0] == "agg" and a[1] == "state::Status"}
            out.append((i, s, vs))
    return out


def message_stores(b):
    return [(i, s) for i, j, s in b.assigns() if [f[2] for f in place_fields(s["lhs"])][-1:] == ["message"]]


def rule_finish_forced_draw(ctx, crate, rule="R-FINISH-FORCED-DRAW"):
    cfg = crate.config
    b = K.find_one(ctx, crate, rule, FINISH)
    if not b:
        return
    draws = b.calls(BAR_DRAW)
    forced = [c for c in draws if is_const(c.args[1], True)]
    for c in draws:
        ctx.check(is_const(c.args[1], True), rule, "draw-forced", b.name, c.loc(), "final draw uses force_draw = const true",
                  "the final draw is not forced: an exhausted limiter drops the final frame", cfg)
    ok = bool(forced) and b.must_pass([0], [c.bb for c in forced])
    ctx.check(ok, rule, "every-path-draws", b.name, K.fn_loc(b), "every path to the return passes the forced draw",
              "some finish path returns without the forced final draw", cfg)
    if not forced:
        return
    dbbs = [c.bb for c in forced]
    after = set()
    for d in dbbs:
        after |= b.reach_after(d)
    # state first, then paint
    sts = status_stores(b)
    writes = [(i, "status", s.get("line", 0)) for i, s, vs in sts] + [(i, "message", s.get("line", 0)) for i, s in message_stores(b)] + \
        [(c.bb, "position", c.line) for c in b.calls() if c.matches(r"state::AtomicPosition::(set|inc|dec|reset)", r"state::ProgressState::set_pos")
         or any(t in position_setters(crate) for t in [c.path] + crate.resolve_targets(c))]
    ctx.floor(rule, len({k for _, k, _ in writes}), 3, cfg, "kinds of state written in finish_using_style (status, message, position)")
    for bb, what, line in writes:
        ctx.check(bb not in after, rule, "state-before-draw:%s" % what, b.name, "%s:%d" % (b.file, line),
                  "%s is written before the final draw" % what, "%s is written after the final draw (the last frame shows the old value)" % what, cfg)
    # a Done status dominates the draw on every path
    done_bbs = [i for i, s, vs in sts if vs and vs <= {"DoneVisible", "DoneHidden"}]
    ok = bool(done_bbs) and all(b.must_pass([0], done_bbs, to=[d]) for d in dbbs)
    ctx.check(ok, rule, "done-before-draw", b.name, K.fn_loc(b), "status is DoneVisible/DoneHidden on every path reaching the draw",
              "a path reaches the final draw with the status still InProgress (is_finished() stays false)", cfg)
    bad = [i for i, s, vs in sts if "InProgress" in vs]
    ctx.check(not bad, rule, "never-in-progress", b.name, K.fn_loc(b), "finish never stores Status::InProgress",
              "finish_using_style stores Status::InProgress", cfg)


def position_setters(crate):
    """Crate functions that store their k-th argument into the shared position: {name: k}."""
    out = {"state::AtomicPosition::set": 2}
    changed = True
    while changed:
        changed = False
        for b in K.lib_bodies(crate):
            if b.name in out or b.kind == "Closure":
                continue
            for c in b.calls():
                k = None
                for t in [c.path] + crate.resolve_targets(c):
                    if t in out:
                        k = out[t]
                if k is None or k - 1 >= len(c.args):
                    continue
                sl = b.slice_args(c, [k - 1])
                ps = sl.params()
                if len(ps) == 1 and not [x for x in sl.calls if not x.matches(*b.REF_FORWARD)] and b.must_pass([0], [c.bb]):
                    out[b.name] = next(iter(ps))
                    changed = True
    return out


def is_length_value(b, call, idx):
    sl = b.slice_args(call, [idx])
    return (sl.has_field("len", "state::ProgressState") or sl.has_call(r"state::ProgressState::len")) and not [c for c in sl.consts() if isinstance(c, int) and not isinstance(c, bool) and c > 1]


def rule_finish_arms(ctx, crate, rule="R-FINISH-ARMS"):
    cfg = crate.config
    b = K.find_one(ctx, crate, rule, FINISH)
    if not b:
        return
    names = K.variant_names(crate, "state::ProgressFinish") or []
    ctx.check(set(names) == set(ARM_TABLE), rule, "variants", "state::ProgressFinish", "src/state.rs",
              "ProgressFinish variants match the table", "ProgressFinish variants %s differ from the property's table" % names, cfg)
    fin_params = [i for i in range(1, b.arg_count + 1) if b.locals[i].get("head") == "state::ProgressFinish"]
    fin_locals = set(fin_params)
    for _ in range(4):          # plain copies / moves of the argument (also into an inlined helper's parameter)
        for l, ds in list(b.defs().items()):
            if any(d["kind"] == "assign" and d["rv"]["k"] == "use" and not d["lhs"]["p"] and d["rv"]["op"].get("k") in ("copy", "move")
                   and operand_local(d["rv"]["op"]) in fin_locals and not d["rv"]["op"]["place"]["p"] for d in ds):
                fin_locals.add(l)
    pred = lambda pl: pl["l"] in fin_locals and not pl["p"]
    sw = [x for x in K.discr_switches(b) if K.head_of_type(x[2].get("ty", "")) == "state::ProgressFinish" and pred(x[2])]
    if not sw:
        ctx.lost(rule, cfg, "finish_using_style no longer inspects its ProgressFinish argument")
        return
    seen = set()
    setters = position_setters(crate)
    sets = [c for c in b.calls() if any(t in setters for t in [c.path] + crate.resolve_targets(c))]
    msgs = message_stores(b)
    sts = status_stores(b)
    everywhere = b.reachable()
    for v in names:
        if v not in ARM_TABLE:
            continue
        # the part of the function that can execute when the argument is this variant
        reg = K.variant_reach(b, crate, "state::ProgressFinish", v, pred)
        if reg == everywhere:
            continue
        seen.add(v)
        want_set, want_msg, want_hide = ARM_TABLE[v]
        has_set = [c for c in sets if c.bb in reg]
        has_msg = [(i, s) for i, s in msgs if i in reg]
        with b.restricted(reg):        # values as they are when the argument is this variant
            sts_v = status_stores(b)
        has_hide = [i for i, s, st in sts_v if i in reg and "DoneHidden" in st]
        loc = "%s:%d" % (b.file, b.term(sw[0][0]).get("line", 0))
        if want_set and has_set:
            # ... unconditionally: every path of this variant that reaches the final draw with a known length passes the setter
            R_v, avoid_v = K.variant_reach(b, crate, "state::ProgressFinish", v, pred, want_avoid=True)
            none_edges = []
            for sb2, t2, pl2, d2 in K.discr_switches(b):
                is_len = bool(place_fields(pl2)) and place_fields(pl2)[-1][2] == "len"
                if not is_len and not place_fields(pl2) and K.head_of_type(pl2.get("ty", "")) == "std::option::Option":
                    # `if let Some(len) = self.state.len()`: the getter's result, possibly through a temporary
                    sl2 = b.slice({"k": "copy", "place": {"l": pl2["l"], "p": []}}, through_calls=False)
                    is_len = sl2.has_call(r"state::ProgressState::len", r"progress_bar::ProgressBar::length") and not [
                        k for k in sl2.calls if not k.matches(r"state::ProgressState::len", r"progress_bar::ProgressBar::length")]
                if is_len:
                    for tgt2, vs2 in K.edge_variants(crate, t2, "std::option::Option").items():
                        if vs2 == {"None"}:
                            none_edges.append((sb2, tgt2))
            draws_ = {c.bb for c in b.calls(BAR_DRAW)}
            esc = set(b.reach([0], avoid={c.bb for c in has_set}, avoid_edges=set(avoid_v) | set(none_edges))) & draws_
            ctx.check(not esc, rule, "%s:position-unconditional" % v, b.name, loc,
                      "%s sets the position to the length on every path with a known length" % v,
                      "%s can reach the final draw with a known length without setting the position to it (an extra condition guards the update, e.g. `pos < len`)" % v, cfg)
        ctx.check(bool(has_set) == want_set, rule, "%s:position" % v, b.name, loc,
                  "%s %s the position to the length" % (v, "sets" if want_set else "leaves"),
                  "%s arm %s set the position to the length" % (v, "does not" if want_set else "must not"), cfg)
        for c in has_set:
            kk = [setters[t] for t in [c.path] + crate.resolve_targets(c) if t in setters][0]
            ctx.check(is_length_value(b, c, kk - 1), rule, "%s:position-value" % v, b.name, c.loc(),
                      "position := state.len", "the finish position is not the bar's length", cfg)
        ctx.check(bool(has_msg) == want_msg, rule, "%s:message" % v, b.name, loc,
                  "%s %s the message" % (v, "stores" if want_msg else "keeps"),
                  "%s arm %s store the supplied message" % (v, "does not" if want_msg else "must not"), cfg)
        for i, s in has_msg:
            with b.restricted(reg):
                sl = b.slice_rv(i, s)
            ok = sl.has_call(r"state::TabExpandedString::new") and set(fin_params) & sl.params()
            ctx.check(bool(ok), rule, "%s:message-value" % v, b.name, "%s:%d" % (b.file, s.get("line", 0)),
                      "message := TabExpandedString::new(payload of the variant, ..)", "the stored message is not the variant's payload", cfg)
        ctx.check(bool(has_hide) == want_hide, rule, "%s:hidden" % v, b.name, loc,
                  "%s %s" % (v, "hides the bar (DoneHidden)" if want_hide else "stays visible"),
                  "%s arm %s store DoneHidden" % (v, "does not" if want_hide else "must not"), cfg)
    ctx.floor(rule, len(seen), 5, cfg, "ProgressFinish variants with a specialised path through finish_using_style")


def rule_finish_api_map(ctx, crate, rule="R-FINISH-API-MAP"):
    cfg = crate.config
    n = 0
    for fn, variant in sorted(API_TABLE.items()):
        b = K.find_one(ctx, crate, rule, re.escape(fn))
        if not b:
            continue
        cs = b.calls(FINISH)
        if not cs:
            ctx.bad(rule, "calls-finish", b.name, K.fn_loc(b), "%s does not reach BarState::finish_using_style" % fn, cfg)
            continue
        for c in cs:
            n += 1
            sl = b.slice_args(c, [2])
            vs = {a[2] for a in sl.atoms if a[0] == "agg" and a[1] == "state::ProgressFinish"}
            ok = vs == {variant} and b.must_pass([0], [c.bb])
            ctx.check(ok, rule, "variant", b.name, c.loc(), "%s passes ProgressFinish::%s on every path" % (K.meth(fn), variant),
                      "%s passes %s instead of ProgressFinish::%s" % (K.meth(fn), sorted(vs) or "a non-literal", variant), cfg)
            if variant in ("WithMessage", "AbandonWithMessage"):
                ctx.check(2 in sl.params(), rule, "message-forwarded", b.name, c.loc(), "the msg argument is the variant's payload",
                          "the supplied message does not reach the ProgressFinish payload", cfg)
    b = K.find_one(ctx, crate, rule, r"progress_bar::ProgressBar::finish_using_style")
    if b:
        for c in b.calls(FINISH):
            n += 1
            sl = b.slice_args(c, [2])
            ok = sl.has_field("on_finish", "state::BarState") and not {a for a in sl.atoms if a[0] == "agg" and a[1] == "state::ProgressFinish"}
            ctx.check(ok, rule, "on_finish", b.name, c.loc(), "finish_using_style passes a clone of BarState::on_finish",
                      "finish_using_style does not use the configured on_finish behaviour", cfg)
            n += 1
            ctx.check(b.must_pass([0], [c.bb]), rule, "on_finish-every-path", b.name, c.loc(),
                      "the public finish_using_style() finishes the bar on every path, whatever its state",
                      "ProgressBar::finish_using_style() can return without finishing (a state-dependent early return): on an already finished (abandoned, reset-then-finished) bar "
                      "the call no longer sets position := length / the message - `inc(3); abandon(); finish_using_style()` leaves the position at 3", cfg)
    # with_finish stores its argument
    b = K.find_one(ctx, crate, rule, r"progress_bar::ProgressBar::with_finish")
    if b:
        st = [(i, s) for i, j, s in b.assigns() if [f[2] for f in place_fields(s["lhs"])][-1:] == ["on_finish"]]
        ok = bool(st) and all(2 in b.slice_rv(i, s).params() for i, s in st)
        n += 1
        ctx.check(ok, rule, "with_finish-stores", b.name, K.fn_loc(b), "with_finish stores its argument into on_finish",
                  "with_finish does not store the requested finish behaviour", cfg)
    ctx.floor(rule, n, 7, cfg, "finish API obligations")


def rule_drop_finish_once(ctx, crate, rule="R-DROP-FINISH-ONCE"):
    cfg = crate.config
    b = K.find_one(ctx, crate, rule, r"<state::BarState as std::ops::Drop>::drop")
    if not b:
        return
    fins = b.calls(FINISH)
    ctx.check(bool(fins), rule, "drop-finishes", b.name, K.fn_loc(b), "Drop calls finish_using_style",
              "dropping an unfinished bar no longer finishes it", cfg)
    isf = b.calls(r"state::ProgressState::is_finished")
    guard_edges_false, guard_edges_true = [], []
    for sb, t in b.switches():
        sl = b.slice(t["op"], at=sb)
        if sl.has_call(r"state::ProgressState::is_finished") and not (sl.atoms & {("unop", "Not")}):
            zero = [tb for v, tb in t["targets"] if v == 0]
            if zero:
                guard_edges_false.append((sb, zero[0]))
                guard_edges_true.append((sb, t["otherwise"]))
    for c in fins:
        ok = any(b.edge_dominates(e, c.bb) for e in guard_edges_false)
        ctx.check(ok, rule, "only-if-unfinished", b.name, c.loc(), "finish_using_style runs only on the is_finished() == false edge",
                  "Drop re-finishes an already finished bar (its final frame is repainted/cleared)", cfg)
        sl = b.slice_args(c, [2])
        ctx.check(sl.has_field("on_finish", "state::BarState"), rule, "uses-on_finish", b.name, c.loc(),
                  "Drop applies the configured on_finish", "Drop does not apply the configured finish behaviour", cfg)
    # ... and on *every* path of an unfinished bar: nothing but is_finished() decides whether the final frame is painted
    # (a second condition - the configured finish behaviour, the target kind - would let some unfinished bars die unpainted)
    for e in guard_edges_false:
        ok = bool(fins) and b.must_pass([e[1]], [c.bb for c in fins])
        ctx.check(ok, rule, "every-unfinished-bar-finishes", b.name, "%s:%d" % (b.file, b.term(e[0]).get("line", 0)),
                  "an unfinished bar is finished by Drop on every path",
                  "Drop can skip the final frame of an unfinished bar (a condition besides is_finished() guards finish_using_style): its last throttled update is never painted "
                  "and it stays in progress", cfg)
    # finished path: no draw, no state store
    for e in guard_edges_true:
        reg = b.edge_region(e)
        bad = []
        for bb in reg:
            t = b.term(bb)
            if t and t["k"] == "call":
                cc = K.Call(b, bb, t)
                if cc.matches(FINISH, BAR_DRAW, r"state::AtomicPosition::.*"):
                    bad.append(cc.path)
            for s in b.stmts(bb):
                if s["k"] == "assign" and any(f[0] in ("state::ProgressState",) for f in place_fields(s["lhs"])):
                    bad.append("store")
        ctx.check(not bad, rule, "finished-path-inert", b.name, "%s:%d" % (b.file, b.term(e[0]).get("line", 0)),
                  "the already-finished path neither draws nor changes state", "dropping a finished bar still %s" % bad, cfg)
    # MultiProgress is always notified, after the finish
    mz = b.calls(r"draw_target::ProgressDrawTarget::mark_zombie")
    ok = bool(mz) and b.must_pass([0], [c.bb for c in mz])
    ctx.check(ok, rule, "always-mark-zombie", b.name, K.fn_loc(b), "every path through Drop notifies the draw target (mark_zombie)",
              "a dropped bar is not reported to its MultiProgress on some path", cfg)
    for c in fins:
        ok = all(c.bb not in b.reach_after(m.bb) for m in mz) and b.must_pass(b.succ(c.bb), [m.bb for m in mz])
        ctx.check(ok, rule, "zombie-after-finish", b.name, c.loc(), "mark_zombie follows the final draw",
                  "the bar is marked zombie before its final frame is drawn", cfg)


def rule_iter_finish(ctx, crate, rule="R-ITER-FINISH"):
    cfg = crate.config
    pats = (r"<iter::ProgressBarIter<T> as std::iter::Iterator>::next",
            r"<iter::ProgressBarIter<T> as std::iter::DoubleEndedIterator>::next_back",
            r"<iter::ProgressBarIter<S> as futures_core::Stream>::poll_next")
    n = 0
    for pat in pats:
        bs = crate.find(pat)
        if not bs:
            continue
        b = bs[0]
        fins = b.calls(r"progress_bar::ProgressBar::finish_using_style")
        n += 1
        ctx.check(bool(fins), rule, "finishes-on-exhaustion", b.name, K.fn_loc(b), "the adaptor finishes the bar",
                  "exhausting the iterator no longer finishes the bar", cfg)
        inner = [c for c in b.calls() if c.callee.get("trait") in ("std::iter::Iterator", "std::iter::DoubleEndedIterator", "futures_core::Stream")
                 and c.callee.get("rk") == "unresolved"]
        for c in fins:
            # guarded by !is_finished()
            g = False
            for sb, t in b.switches():
                sl = b.slice(t["op"], at=sb)
                if sl.has_call(r"progress_bar::ProgressBar::is_finished"):
                    zero = [tb for v, tb in t["targets"] if v == 0]
                    if zero and b.edge_dominates((sb, zero[0]), c.bb):
                        g = True
            ctx.check(g, rule, "only-if-unfinished", b.name, c.loc(), "finish_using_style is guarded by !is_finished()",
                      "an already finished bar is finished again when the exhausted iterator/stream is polled once more (its visible final frame is replaced)", cfg)
            # only in the exhausted region: not reachable on a path where the item is Some
            some_ok = exhausted_only(b, crate, c, inner)
            ctx.check(some_ok, rule, "only-when-exhausted", b.name, c.loc(), "finish happens only where the inner iterator returned None",
                      "the bar can be finished although the inner iterator produced an item", cfg)
    # any *other* method the adaptor overrides in these traits drives the wrapped iterator itself (fold, nth, try_fold, ..): it has to
    # be one of the analysed three, or a pure query - an override that exhausts the inner iterator without finishing the bar
    # (`fold` behind for_each/sum/count/last) skips the final frame whenever another handle keeps the bar alive
    QUERIES = ("size_hint", "len", "is_empty", "opt_len")
    for bb_ in K.lib_bodies(crate):
        im = bb_.impl or {}
        if bb_.kind == "Closure" or (im.get("self_head") or "") != "iter::ProgressBarIter":
            continue
        if im.get("trait") not in ("std::iter::Iterator", "std::iter::DoubleEndedIterator", "futures_core::Stream"):
            continue
        m = K.meth(bb_.name)
        if m in ("next", "next_back", "poll_next") or m in QUERIES:
            continue
        n += 1
        fins = bb_.calls(r"progress_bar::ProgressBar::finish_using_style")
        ctx.check(bool(fins), rule, "override-finishes:%s" % m, bb_.name, K.fn_loc(bb_),
                  "%s finishes the bar when it exhausts the wrapped iterator" % m,
                  "the adaptor overrides %s(), which drives the wrapped iterator itself, without finishing the bar: exhausting the iterator through it (for_each, sum, count, "
                  "last build on fold) paints no final frame while another handle of the bar is alive" % m, cfg)
    ctx.floor(rule, n, 2, cfg, "iterator adaptors")


def exhausted_only(b, crate, fin, inner):
    # region edges meaning "item present": is_some()==true, discriminant Some / Ready(Some)
    avoid = []
    for sb, t in b.switches():
        sl = b.slice(t["op"], at=sb)
        if not any(c.bb in {x.bb for x in inner} for c in sl.calls):
            continue
        if sl.has_call(r"std::option::Option::<T>::is_some"):
            avoid.append((sb, t["otherwise"]))
        elif sl.has_call(r"std::option::Option::<T>::is_none"):
            avoid += [(sb, tb) for v, tb in t["targets"] if v == 0]
    for sb, t, pl, d in K.discr_switches(b):
        head = K.head_of_type(pl.get("ty", ""))
        if head == "std::option::Option":
            for tgt, vs in K.edge_variants(crate, t, head).items():
                if vs == {"Some"}:
                    avoid.append((sb, tgt))
        if head == "std::task::Poll":
            for tgt, vs in K.edge_variants(crate, t, head).items():
                if vs == {"Pending"}:
                    avoid.append((sb, tgt))
    if not avoid:
        return False
    # fin must be unreachable if all "item present" edges ... i.e. every path to fin avoids them: fin not in regions of those edges
    for e in avoid:
        if fin.bb in b.reach([e[1]]) and b.edge_dominates(e, fin.bb):
            return False
    # and fin must be control dependent on some exhausted edge: removing the complementary edges makes it unreachable
    comp = []
    for (sb, tgt) in avoid:
        comp += [(sb, x) for x in b.succ(sb) if x != tgt]
    return fin.bb not in b.reach([0], avoid_edges=comp)


def rule_is_finished(ctx, crate, rule="R-IS-FINISHED"):
    cfg = crate.config
    b = K.find_one(ctx, crate, rule, r"state::ProgressState::is_finished")
    if not b:
        return
    n = 0
    for v in K.variant_names(crate, "state::Status") or []:
        R = K.variant_reach(b, crate, "state::Status", v)
        if R == b.reachable():
            continue
        vals = set()
        for rb in b.return_blocks():
            if rb in R:
                vals |= K.bool_values_under(b, R, {"k": "copy", "place": {"l": 0, "p": []}}, rb)
        n += 1
        want = v != "InProgress"
        ctx.check(vals == {want}, rule, "status:%s" % v, b.name, K.fn_loc(b), "is_finished() == %s for Status::%s" % (want, v),
                  "is_finished() returns %s for Status::%s" % (sorted(map(str, vals)), v), cfg)
    ctx.floor(rule, n, 3, cfg, "Status arms in is_finished")


def rule_status_writers(ctx, crate, rule="R-STATUS-WRITERS"):
    """"afterwards is_finished() is true and dropping an already finished bar changes nothing on screen": the finished status is
    left only by a full `reset()`. Who-may-write check on `ProgressState::status`: a Done status is stored only by
    finish_using_style, `InProgress` only by BarState::reset and there only in the region of `Reset::All` - reset_eta() and
    reset_elapsed() share that function and must leave the status alone (a finished bar that is un-finished by reset_elapsed()
    is finished a second time, with its configured finish behaviour, when its last handle is dropped: seed C04k)."""
    cfg = crate.config
    n = 0
    for b in K.lib_bodies(crate):
        owner = K.owner_fn(crate, b)
        refs = b.ref_origins()
        for i, s, vs in status_stores(b):
            fs = place_fields(s["lhs"])
            if not fs or fs[-1][0] != "state::ProgressState":
                continue
            n += 1
            loc = "%s:%d" % (b.file, s.get("line", 0))
            if vs and vs <= {"DoneVisible", "DoneHidden"}:
                ctx.check(owner == "state::BarState::finish_using_style", rule, "done-store:%s" % K.meth(owner), b.name, loc,
                          "a Done status is stored by finish_using_style", "%s marks the bar finished without going through finish_using_style (no final frame)" % owner, cfg)
            else:
                ok = owner == "state::BarState::reset" and any(
                    vs_ == {"All"} and i in reg for vs_, reg, sb, pl in K.variant_regions(b, crate, "state::Reset"))
                ctx.check(ok, rule, "in-progress-store:%s" % K.meth(owner), b.name, loc,
                          "the status goes back to InProgress only in reset(), for Reset::All",
                          "%s stores %s into the status outside the Reset::All region of BarState::reset: reset_eta()/reset_elapsed() (or another call) un-finish a "
                          "finished bar, and dropping its last handle then finishes it a second time (AndClear wipes the visibly finished bar; an abandoned bar "
                          "jumps to its length)" % (owner, sorted(vs) or "a computed value"), cfg)
        for c in b.calls():
            if c.matches(*b.REF_FORWARD):
                continue
            for a in c.args:
                l = operand_local(a)
                if l is None or "&mut" not in b.locals[l]["ty"] or "state::Status" not in b.locals[l]["ty"]:
                    continue
                if any("status" in tp for tl, tp in refs.get(l, ())):
                    n += 1
                    ctx.check(owner in ("state::BarState::finish_using_style",), rule, "mut-borrow:%s" % K.meth(c.path), b.name, c.loc(),
                              "the status is mutably borrowed only where a Done status is stored",
                              "%s takes `&mut status` in %s: the status is rewritten outside finish_using_style / reset(All)" % (c.path, owner), cfg)
    ctx.floor(rule, n, 2, cfg, "stores into ProgressState::status")


def rule_on_finish_writers(ctx, crate, rule="R-ON-FINISH-WRITERS"):
    """The configured finish behaviour is configuration: it is written only by with_finish (and the constructor).
    Finishing, dropping or resetting a bar must not consume or change it (a bar can be reset and finished again)."""
    cfg = crate.config
    allowed = {"progress_bar::ProgressBar::with_finish", "state::BarState::new"}
    n = 0
    for b in K.lib_bodies(crate):
        refs = b.ref_origins()
        for i, j, s in b.assigns():
            fs = place_fields(s["lhs"])
            if fs and fs[-1][0] == "state::BarState" and fs[-1][2] == "on_finish":
                n += 1
                ctx.check(K.owner_fn(crate, b) in allowed, rule, "store", b.name, "%s:%d" % (b.file, s.get("line", 0)),
                          "on_finish stored by with_finish", "on_finish is overwritten outside with_finish (the configured finish behaviour is lost)", cfg)
        for c in b.calls():
            if c.matches(*b.REF_FORWARD):
                continue
            for a in c.args:
                l = operand_local(a)
                if l is None or "&mut" not in b.locals[l]["ty"]:
                    continue
                if any("on_finish" in tp for tl, tp in refs.get(l, ())):
                    n += 1
                    ctx.check(K.owner_fn(crate, b) in allowed, rule, "mut-borrow:%s" % K.meth(c.path), b.name, c.loc(),
                              "on_finish mutably borrowed by with_finish only",
                              "%s takes `&mut on_finish` (e.g. mem::take/replace): finishing consumes the configured behaviour, a reset bar then finishes with the default" % c.path, cfg)
    for (b, i, j, s) in K.constructions(crate, "state::BarState"):
        n += 1
    ctx.floor(rule, n, 2, cfg, "writes of BarState::on_finish")
