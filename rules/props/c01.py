"""C01 — single-bar redraw integrity (emit protocol only)."""
from .. import common as K
from .. import draw_rules as D
from .c18 import rule_commit_on_success
from .c03 import rule_suspend_protocol

EXPLANATION = ("Decides the emit protocol of the one paint routine: TermLike effects only in the emitter (reachable only "
               "through Drawable::draw); every successful return repositions over the previous frame (move_cursor_up by the "
               "previous row count; clear_line in a loop bounded by it), paints, flushes, then commits the new row count; the "
               "commit is dominated by the success edge of flush()? and is the last fallible step; the committed value derives "
               "from the wrap-aware height of the lines painted; last_line_count is written only by the emitter and the "
               "MultiState-only adjust functions; suspend clears the frame before the closure (whenever there is a drawable) and force-redraws after.")
UNDECIDED = ("The row arithmetic itself (saturating_sub(1), filler width, wrapped heights, empty-first-line miscount) and the "
             "screen contents for every history/text/width are value-level and not decided.")


def run(ctx, crate):
    K.rule_no_unsafe(ctx, crate)
    K.rule_emit_single(ctx, crate)
    K.rule_emitter_callers(ctx, crate)
    D.rule_draw_order(ctx, crate)
    D.rule_erase_arith(ctx, crate)
    rule_commit_on_success(ctx, crate)
    D.rule_llc_writers(ctx, crate)
    rule_suspend_protocol(ctx, crate)
    D.rule_rows_newtype(ctx, crate)
    D.rule_width_source(ctx, crate)
    D.rule_line_kinds(ctx, crate)
    D.rule_every_line_painted(ctx, crate)
    D.rule_overwrite_covers_row(ctx, crate)
    D.rule_shift_full_frame(ctx, crate)
    # "followed by the bar's current rendering": a frame that needs exactly as many rows as the terminal has is painted whole
    # (the height test is strict, seed C01k), and rows are counted only for painted lines
    D.rule_height_guard(ctx, crate)
    # "shows exactly the lines printed so far": println through the bar is never rate limited away
    from .c03 import rule_println_forced
    rule_println_forced(ctx, crate)
    D.rule_bar_rows_split(ctx, crate)
    # "a bar ... that is finished-and-cleared leaves no residue", whatever was done to it before: every finish-type call (also on
    # an already finished bar) reaches the forced final draw; only Drop skips a bar that is finished already
    from .c04 import rule_finish_forced_draw, rule_drop_finish_once
    rule_finish_forced_draw(ctx, crate)
    rule_drop_finish_once(ctx, crate)
    # "followed by the bar's current rendering": every draw - also the one a println makes - renders the bar unless it is
    # finished *and cleared* (a println through a visibly finished bar must not replace its frame by the text alone: seed C01l)
    D.rule_render_unless_hidden(ctx, crate)
    # "with no remnant of any earlier frame": the rows erased next time are those of the text that was written
    D.rule_painted_is_measured(ctx, crate)
    # .. and is as wide as it is measured: no raw TAB reaches a bar line (a tab measures 0 columns and paints up to 8). The one
    # writer that user-supplied output goes through rewrites tabs on every entry point (seed C01n: a `write_char` override that
    # forwards the character)
    from .c16 import rule_tabrewriter
    rule_tabrewriter(ctx, crate)
