"""C03 — printed log lines are never erased, duplicated or reordered (structural mechanism)."""
import re

from .. import common as K
from .. import draw_rules as D
from ..facts import operand_local, place_str, place_fields, is_const

EXPLANATION = ("Decides the code's whole mechanism for keeping printed lines: text rows never enter the erase count "
               "(accumulation only under LineType::Bar); every println path forces its draw; orphan lines are moved, never "
               "copied, into a frame and split from bar lines by variant; rows change owner between last_line_count and "
               "zombie_lines_count in pairs on all exits (add <-> Keep, Clear -> zero); suspend clears before and force-redraws "
               "after the closure; nothing but the emitter and the MultiState-only adjust functions can change the erase count.")
UNDECIDED = "That the screen shows the lines (value-level), output written by the suspend closure itself, errors in visual_line_count values."

ZLC = "zombie_lines_count"


def run(ctx, crate):
    K.rule_no_unsafe(ctx, crate)
    K.rule_emit_single(ctx, crate)
    D.rule_llc_writers(ctx, crate)
    D.rule_text_not_counted(ctx, crate)
    rule_println_forced(ctx, crate)
    rule_orphan_moved(ctx, crate)
    rule_orphan_split(ctx, crate)
    rule_row_transfer_pairing(ctx, crate)
    rule_suspend_protocol(ctx, crate)
    D.rule_rows_newtype(ctx, crate)
    D.rule_width_source(ctx, crate)
    D.rule_line_kinds(ctx, crate)
    D.rule_shift_full_frame(ctx, crate)
    D.rule_counted_rows_adjacent(ctx, crate)
    # the rows committed to the erase count are exactly the rows painted: a bar line that did not fit (and was not painted)
    # must not be counted, or the next erase reaches into the text above the region
    D.rule_height_guard(ctx, crate)
    D.rule_cr_needs_rows(ctx, crate)
    # "every line emitted ... stays on the terminal": printed text is painted whatever its height
    D.rule_every_line_painted(ctx, crate)
    D.rule_painted_line_terminated(ctx, crate, kinds=("text",))       # (the bar-line half of the obligation is C19's)
    # a finished bar updated under an exhausted limiter stores rows that were never painted; dropping it then makes the
    # next println erase that many log lines (seed C03c)
    D.rule_finished_draws_forced(ctx, crate)
    D.rule_counted_newline_row_followed(ctx, crate)
    # "every line written to the terminal by the closure passed to suspend stays": suspend's clear is an empty frame; if the paint
    # routine can take a reposition-only path for it (move-cursor mode), the closure writes over bar rows that were never erased
    # and its line keeps the tail of that bar (seed C03k)
    D.rule_draw_order(ctx, crate)
    rule_println_lines(ctx, crate)


def rule_println_lines(ctx, crate, rule="R-PRINTLN-LINES"):
    """"every line emitted with println ... stays on the terminal": a printed line reaches the paint routine without the line
    terminator - all of it. The text is cut with `str::lines()` (which takes `\n` *and* `\r\n` as terminators), or with a
    splitter on '\n' whose pieces are then relieved of a trailing '\r'. A piece that keeps its carriage return sends the cursor back
    to column 0 when it is painted, and whatever is written after it on that row (the end-of-frame filler, the blanking of
    move-cursor mode) overwrites the printed text (seed C03l: `split_terminator('\n')` for CRLF input)."""
    cfg = crate.config
    n = 0
    LINES = r"core::str::<impl str>::lines"
    SPLITS = r"core::str::<impl str>::(split|split_terminator|split_inclusive|rsplit|splitn|rsplit_terminator)"
    STRIPS = r"core::str::<impl str>::(strip_suffix|trim_end_matches|trim_end|trim_matches|trim_right_matches)"
    for (b, i, j, st) in K.constructions(crate, D.LINETYPE, "Text"):
        if b.file in K.TEST_DOUBLE_FILES:
            continue
        sls = [b.slice_rv(i, st)]
        consumer_seen = b.kind != "Closure"
        if b.kind == "Closure":
            # the closure is applied to the pieces of an iterator built where the closure is: in the function it is written in, or
            # wherever that function was inlined
            for parent in K.lib_bodies(crate):
                for cb, c, k in K.closures_consumed(crate, parent):
                    if cb.name == b.name:
                        sls.append(parent.slice_args(c, [0]))
                        consumer_seen = True
        if not consumer_seen:
            ctx.lost(rule, cfg, "the closure %s that builds LineType::Text is not handed to any call" % b.name)
            continue
        if not any(sl.params() or sl.calls for sl in sls):
            continue            # a constant line
        n += 1
        lines = any(sl.has_call(LINES) for sl in sls)
        split_strip = any(sl.has_call(SPLITS) for sl in sls) and any(sl.has_call(STRIPS) for sl in sls)
        whole = not any(sl.has_call(LINES) or sl.has_call(SPLITS) for sl in sls)
        ctx.check(lines or split_strip or whole, rule, "text-line:%s" % K.meth(K.owner_fn(crate, b)), b.name, "%s:%d" % (b.file, st.get("line", 0)),
                  "printed text is cut into lines by str::lines() (or a '\\n' splitter followed by a strip of the trailing '\\r')",
                  "printed text is cut at '\\n' by a splitter that leaves the '\\r' of a CRLF line ending in the piece: painted, the carriage return moves the cursor to "
                  "column 0 and the filler / blanking written after the line erases the printed text", cfg)
    ctx.floor(rule, n, 2, cfg, "constructions of LineType::Text from printed text")


def rule_println_forced(ctx, crate, rule="R-PRINTLN-FORCED"):
    cfg = crate.config
    n = 0
    table = [
        (r"multi::MultiState::println", r"multi::MultiState::draw", 1),
        (r"state::BarState::println", K.PDT_DRAWABLE, 1),
    ]
    for fn, callee, idx in table:
        b = K.find_one(ctx, crate, rule, fn)
        if not b:
            continue
        cs = b.calls(callee)
        if not cs:
            ctx.lost(rule, cfg, "%s does not call %s" % (fn, callee))
        for c in cs:
            n += 1
            ctx.check(is_const(c.args[idx], True), rule, "forced:%s" % K.meth(callee), b.name, c.loc(),
                      "println draws with force_draw = const true",
                      "println's draw is not forced: a rate-limited println silently drops its lines", cfg)
    # MultiState::println hands the lines to draw as Some(lines)
    b = crate.body("multi::MultiState::println")
    if b:
        for c in b.calls(r"multi::MultiState::draw"):
            sl = b.slice_args(c, [2])
            ok = ("agg", "std::option::Option", "Some") in sl.atoms
            n += 1
            ctx.check(ok, rule, "passes-lines", b.name, c.loc(), "the printed lines are passed to draw as Some(lines)",
                      "println does not hand its lines to MultiState::draw", cfg)
    # in MultiState::draw the flag passed to drawable() depends on the orphan-line count
    d = K.find_one(ctx, crate, rule, r"multi::MultiState::draw")
    if d:
        for c in d.calls(K.PDT_DRAWABLE):
            n += 1
            sl = d.slice_args(c, [1])
            isc, ze = D.cond_param(d, D.force_param(d))
            dep = sl.has_field("orphan_lines")
            if not dep:
                # control dependence instead of data dependence: `if orphan_count > 0 { force_draw = true; }`
                for l_ in sorted(sl.locals):
                    for df in d.defs().get(l_, ()):
                        if df["kind"] == "assign" and not df["lhs"]["p"] and df["rv"]["k"] == "use" and is_const(df["rv"]["op"], True):
                            for sb, t in d.switches():
                                if any(d.edge_dominates((sb, x), df["bb"]) for x in d.succ(sb)) and d.slice_switch(sb).has_field("orphan_lines"):
                                    dep = True
            ok = dep and D.implied_true(d, c.args[1], c.bb, isc, ze)
            ctx.check(ok, rule, "orphans-force", d.name, c.loc(),
                      "pending orphan lines (bar-level println) force the MultiProgress draw",
                      "a draw with pending orphan lines can be rate limited away", cfg)
    # ProgressBar::println / MultiProgress::println reach the state-level println unconditionally
    for fn, callee in ((r"progress_bar::ProgressBar::println", r"state::BarState::println"),
                       (r"multi::MultiProgress::println", r"multi::MultiState::println")):
        b = K.find_one(ctx, crate, rule, fn)
        if not b:
            continue
        cs = b.calls(callee)
        n += 1
        ok = bool(cs) and all(b.must_pass([0], [c.bb for c in cs]) for c in cs)
        ctx.check(ok, rule, "api-reaches:%s" % K.meth(fn), b.name, K.fn_loc(b),
                  "every path through the public println reaches the state-level println",
                  "public println can return without printing", cfg)
    # BarState::println hands its lines to the draw state and then *draws*: for a member of a MultiProgress the draw is what moves
    # the text on (or, for a hidden MultiProgress, drops it). A return between the two - "no width: nothing to repaint" - leaves
    # the text queued in the MultiProgress, to surface on whatever terminal it is given later
    bp = K.find_one(ctx, crate, rule, r"state::BarState::println")
    if bp:
        feeds_ = [c.bb for c in bp.calls(r"std::vec::Vec::<T, A>::(push|extend.*|append)", r"std::iter::Extend::extend") if bp.slice_args(c, [0], through_calls=False).has_field("lines")]
        draws_ = [c.bb for c in bp.calls(r"draw_target::Drawable::<'_>::draw")]
        n += 1
        ok = bool(feeds_) and bool(draws_) and all(bp.must_pass(bp.succ(f_), draws_) for f_ in feeds_)
        ctx.check(ok, rule, "println-then-draw", bp.name, K.fn_loc(bp),
                  "after the printed lines were handed to the draw state every path draws",
                  "BarState::println can return after queuing its lines without drawing (e.g. for a target without a width): on a hidden MultiProgress the text stays queued "
                  "and is painted later, on the terminal the MultiProgress is given next", cfg)
    ctx.floor(rule, n, 6, cfg, "println forcing obligations")


def uses_of_field_ref(b, field, adt=None, include_forward=False):
    """Calls that receive (a reborrow of) a reference to `field`: list of (call, arg index)."""
    refs = b.ref_origins()
    out = []
    for c in b.calls():
        if not include_forward and c.matches(*b.REF_FORWARD):
            continue
        for k, a in enumerate(c.args):
            l = operand_local(a)
            if l is None:
                continue
            for (tl, tp) in refs.get(l, ()):
                if field in tp:
                    out.append((c, k))
                    break
    return out


COPYING = (r"std::clone::Clone::clone", r".*::to_vec", r".*::to_owned", r"std::vec::Vec::<T, A>::extend_from_slice",
           r"std::iter::Iterator::cloned", r"std::iter::Iterator::copied", r"std::iter::Extend::extend", r".*::clone_from.*",
           r"std::vec::Vec::<T, A>::clone", r"<std::vec::Vec<T, A> as std::clone::Clone>::clone", r"core::slice::<impl \[T\]>::iter",
           r"std::iter::IntoIterator::into_iter")
MOVING = (r"std::vec::Vec::<T, A>::append", r"std::vec::Vec::<T, A>::drain", r"std::mem::take", r"std::mem::replace",
          r"std::mem::swap")


def rule_orphan_moved(ctx, crate, rule="R-ORPHAN-MOVED"):
    cfg = crate.config
    n_move = 0
    n_uses = 0
    for b in K.lib_bodies(crate):
        if not b.name.startswith("multi::"):
            continue
        for c, k in uses_of_field_ref(b, "orphan_lines"):
            n_uses += 1
            if c.matches(*MOVING):
                # orphan_lines must be the *source* of append (2nd arg) / the drained or taken vector
                if c.matches(r"std::vec::Vec::<T, A>::append") and k != 1:
                    continue
                n_move += 1
                ctx.ok(rule, "moved-by:%s" % K.meth(c.path), b.name, c.loc(), "orphan lines leave the queue by a moving operation", cfg)
            elif c.matches(*COPYING):
                if c.matches(r"std::vec::Vec::<T, A>::extend_from_slice", r"std::iter::Extend::extend") and k == 0:
                    continue  # orphan_lines is the destination
                ctx.bad(rule, "copied-by:%s" % K.meth(c.path), b.name, c.loc(),
                        "orphan lines are copied out of the queue (they stay queued and are painted again on every draw)", cfg)
    ctx.floor(rule, n_move, 1, cfg, "moving consumers of MultiState::orphan_lines")
    ctx.floor(rule, n_uses, 3, cfg, "uses of MultiState::orphan_lines")
    # text a member bar prints leaves the member's own draw state for the shared queue when the bar's wrapper is dropped: every
    # wrapper handed out over a *member's* draw state is the collecting kind (`for_multi` / `orphan_lines: Some(..)`), whatever
    # state the MultiProgress is in. A plain wrapper for, say, a hidden MultiProgress leaves the printed text inside the member's
    # lines, and it is painted as soon as the MultiProgress gets a visible target and another bar draws (seed C06m)
    n_w = 0
    wrapper_cons = K.constructions(crate, "draw_target::DrawStateWrapper")
    for b in K.lib_bodies(crate):
        for c in b.calls(r"draw_target::DrawStateWrapper::<'\w+>::(for_term|for_multi)"):
            sl = b.slice_args(c, [0])
            if not sl.has_field("draw_state", "multi::MultiStateMember"):
                continue
            n_w += 1
            ctx.check(K.meth(c.path) == "for_multi", rule, "member-wrapper-collects:%s" % K.meth(K.owner_fn(crate, b)), b.name, c.loc(),
                      "the wrapper over a member's draw state collects printed text into the shared queue",
                      "a member's draw state is wrapped without the orphan-line collector on some path: text the bar prints then stays in the member's own lines "
                      "(not in the queue that a hidden target drops) and is painted later by another bar's draw", cfg)
        for (cb, i, j, st) in wrapper_cons:
            if cb is not b or b.name.startswith("draw_target::DrawStateWrapper"):
                continue
            rv = st["rv"]
            if "state" in rv.get("fields", []) and b.slice(rv["ops"][rv["fields"].index("state")], at=i).has_field("draw_state", "multi::MultiStateMember"):
                n_w += 1
                osl = b.slice(rv["ops"][rv["fields"].index("orphan_lines")], at=i, through_calls=False) if "orphan_lines" in rv["fields"] else None
                ok = osl is not None and ("agg", "std::option::Option", "Some") in osl.atoms and ("agg", "std::option::Option", "None") not in osl.atoms
                ctx.check(ok, rule, "member-wrapper-collects:%s" % K.meth(K.owner_fn(crate, b)), b.name, "%s:%d" % (b.file, st.get("line", 0)),
                          "the wrapper over a member's draw state collects printed text into the shared queue",
                          "a member's draw state is wrapped without the orphan-line collector on some path", cfg)
    ctx.floor(rule, n_w, 1, cfg, "wrappers handed out over a member's draw state")
    # the moving consumer feeds the frame on the draw path
    d = crate.body("multi::MultiState::draw")
    if d:
        ap = [c for c, k in uses_of_field_ref(d, "orphan_lines") if c.matches(*MOVING)]
        ctx.check(bool(ap), rule, "draw-consumes-orphans", d.name, K.fn_loc(d),
                  "MultiState::draw moves the orphan lines into the frame", "MultiState::draw never consumes the orphan lines", cfg)
        # extra_lines (println text) are painted before orphan lines and before bars: ordering of the
        # three feeds into draw_state.lines
        feeds = []
        for c in d.calls(r"std::vec::Vec::<T, A>::extend_from_slice", r"std::vec::Vec::<T, A>::append", r"std::iter::Extend::extend", r"std::vec::Vec::<T, A>::push"):
            sl0 = d.slice_args(c, [0])
            if not sl0.has_call(r"draw_target::Drawable::<'_>::state"):
                continue
            sl1 = d.slice_args(c, [1])
            kind = "extra" if D.force_param(d) is not None and any(d.locals[p]["ty"].startswith("std::option::Option<std::vec::Vec<draw_target::LineType") for p in sl1.params()) else \
                ("orphans" if sl1.has_field("orphan_lines") else ("members" if sl1.has_field("members") else "?"))
            feeds.append((kind, c))
        kinds = [k for k, c in feeds]
        ok = {"extra", "orphans", "members"} <= set(kinds)
        if ok:
            fe = [c for k, c in feeds if k == "extra"][0]
            fo = [c for k, c in feeds if k == "orphans"][0]
            fm = [c for k, c in feeds if k == "members"][0]
            # order: extra cannot be reached after orphans; orphans cannot be reached after members
            ok = fe.bb not in d.reach_after(fo.bb) and fo.bb not in d.reach_after(fm.bb) and fe.bb not in d.reach_after(fm.bb) \
                and fo.bb in d.reach_after(fe.bb) | {fe.bb} or False
            ok = ok and d.must_pass([0], [fo.bb], to=[fm.bb])
        # lines queued for a target that cannot show them are dropped, not kept for later: every return of draw() - other than
        # the panicking() one - has emptied the queue (or was taken because the queue is empty). Text queued while the
        # MultiProgress was hidden would otherwise surface below newer lines once a visible target is installed.
        consumers = {c.bb for c, k in uses_of_field_ref(d, "orphan_lines") if c.matches(*MOVING) or c.matches(r"std::vec::Vec::<T, A>::(clear|truncate)")}
        exempt = set()
        for sb, t in d.switches():
            sl = d.slice(t["op"], at=sb)
            if sl.has_call(r"std::thread::panicking"):
                exempt.add((sb, t["otherwise"]))
        # (the refusal of the drawable is *not* exempt: pending text forces the draw, so a refusal with text pending means a target
        #  that shows nothing - a Term that is not a tty - and the text has to be dropped there as for a target without a width)
        err = set()
        for k_ in d.calls(K.TRY_BRANCH):
            te = K.try_edges(d, k_)
            if te:
                err.add((te[0], te[2]))
        # a return taken because the queue *is* empty leaves nothing queued: the true edge of a plain `orphan_lines.is_empty()` test
        for sb, t in d.switches():
            l_ = operand_local(t["op"])
            ds_ = [x for x in d.defs().get(l_, ())] if l_ is not None and not t["op"]["place"]["p"] else []
            if len(ds_) == 1 and ds_[0]["kind"] == "call" and ds_[0]["call"].matches(r"std::vec::Vec::<T, A>::is_empty") and \
                    d.slice_args(ds_[0]["call"], [0], through_calls=False).has_field("orphan_lines"):
                exempt.add((sb, t["otherwise"]))
        leak = d.reach([0], avoid=consumers, avoid_edges=exempt | err) & set(d.return_blocks())
        ctx.check(not leak, rule, "hidden-target-drops-orphans", d.name, K.fn_loc(d),
                  "every return of MultiState::draw (panicking excepted) has emptied the orphan queue",
                  "MultiState::draw can return with the orphan lines still queued (an early return for a target that shows nothing: no width = hidden, or a refused drawable = a Term that is not a tty): "
                  "text printed through a member while hidden is painted later, below newer lines, once a visible target is installed", cfg)
        ctx.check(ok, rule, "frame-feed-order", d.name, K.fn_loc(d),
                  "the frame is fed in the order println text, orphan lines, member bars (%s)" % kinds,
                  "frame composition order is not text -> orphan lines -> bars (found feeds %s)" % kinds, cfg)


def rule_orphan_split(ctx, crate, rule="R-ORPHAN-SPLIT"):
    """DrawStateWrapper::drop drains the member's lines and routes Text/Empty to the orphan queue, Bar back."""
    cfg = crate.config
    b = K.find_one(ctx, crate, rule, r"<draw_target::DrawStateWrapper<'_> as std::ops::Drop>::drop")
    if not b:
        return
    drains = [c for c in b.calls(r"std::vec::Vec::<T, A>::drain", r"std::mem::take", r"std::mem::replace") if b.slice_args(c, [0], through_calls=False).has_field("lines")]
    ctx.check(bool(drains), rule, "drains-lines", b.name, K.fn_loc(b), "member lines are drained (moved) before being split",
              "member lines are not drained: text lines stay in the member's draw state and repaint", cfg)
    pushes = b.calls(r"std::vec::Vec::<T, A>::push")
    n = 0
    for c in pushes:
        sl = b.slice_args(c, [0])
        to_orphans = sl.has_field("orphan_lines")
        n += 1
        if to_orphans:
            ok = K.in_variant_region(b, crate, c.bb, D.LINETYPE, {"Text", "Empty"}) or \
                c.bb not in K.variant_reach(b, crate, D.LINETYPE, "Bar")           # (the kind may be held in a flag: `let is_text = matches!(..)`)
            ctx.check(ok, rule, "text-to-orphans", b.name, c.loc(), "only Text/Empty lines are queued as orphan lines",
                      "a Bar line can be queued as an orphan (log) line", cfg)
        else:
            ok = K.in_variant_region(b, crate, c.bb, D.LINETYPE, {"Bar"}) or \
                (c.bb not in K.variant_reach(b, crate, D.LINETYPE, "Text") and c.bb not in K.variant_reach(b, crate, D.LINETYPE, "Empty"))
            ctx.check(ok, rule, "bar-kept", b.name, c.loc(), "only Bar lines stay in the member's draw state",
                      "a Text/Empty line can stay in the member's draw state (it would be repainted on every draw)", cfg)
    # text-like variants are classified alike: no LineType test in the split (or its closures) separates Text from Empty
    bodies = [b] + crate.closures_of(b.name)
    nsw = 0
    for x in bodies:
        for sb, t, pl, d in K.discr_switches(x):
            if K.head_of_type(pl.get("ty", "")) != D.LINETYPE:
                continue
            nsw += 1
            ev = K.edge_variants(crate, t, D.LINETYPE)
            sep = [vs for vs in ev.values() if len(vs & {"Text", "Empty"}) == 1]
            ctx.check(not sep, rule, "text-and-empty-alike", x.name, "%s:%d" % (x.file, t.get("line", 0)),
                      "the split treats LineType::Text and LineType::Empty alike (%s)" % sorted(map(sorted, ev.values())),
                      "the split separates LineType::Empty from LineType::Text (%s): an empty println line stays in the member's draw state and is repainted" % sorted(map(sorted, ev.values())), cfg)
    ctx.floor(rule, nsw, 1, cfg, "LineType tests in DrawStateWrapper::drop")
    moved = n or len([c for x in bodies for c in x.calls(r"std::vec::Vec::<T, A>::(push|append|extend.*)", r"std::iter::Extend::extend") if x.slice_args(c, [0]).has_field("orphan_lines")])
    ctx.check(moved > 0, rule, "moves-text-to-orphans", b.name, K.fn_loc(b), "text lines are moved into the orphan queue",
              "nothing is moved into the orphan queue", cfg)
    # all three LineType variants are known
    names = K.variant_names(crate, D.LINETYPE) or []
    ctx.check(set(names) == {"Text", "Bar", "Empty"}, rule, "linetype-variants", D.LINETYPE, "src/draw_target.rs",
              "LineType variants = %s" % names, "LineType has variants %s not covered by the split" % names, cfg)


def zlc_sites(crate, b):
    """Additive updates U, zero stores Z and Clear/Keep constructions of a body w.r.t. zombie_lines_count."""
    adds, zeros, clears, keeps = [], [], [], []
    refs = b.ref_origins()
    for i, j, s in b.assigns():
        fs = [f[2] for f in place_fields(s["lhs"])]
        if not fs and s["lhs"]["p"] == ["*"] and any(tp and tp[-1] == ZLC for tl, tp in refs.get(s["lhs"]["l"], ())):
            fs = [ZLC]          # a store through `&mut self.zombie_lines_count` (closure capture, helper argument)
        if fs and fs[-1] == ZLC:
            sl = b.slice_rv(i, s)
            if sl.has_call(r"std::default::Default::default") and not sl.has_field(ZLC) and not sl.has_call(*D.VL_ADDITIVE):
                zeros.append((i, s))
            else:
                adds.append((i, s.get("line", 0), sl, "store"))
        rv = s["rv"]
        if rv["k"] == "agg" and rv["ak"] == "adt" and rv["adt"] == "draw_target::LineAdjust":
            sl = b.slice_rv(i, s)
            (clears if rv["variant"] == "Clear" else keeps).append((i, s, sl))
    for c in b.calls(*D.VL_ADDITIVE):
        l = operand_local(c.args[0])
        if l is not None and any(ZLC in tp for tl, tp in refs.get(l, ())) and "&mut" in b.locals[l]["ty"]:
            adds.append((c.bb, c.line, b.slice_args(c, [1]), "add_assign"))
    # `mem::take(&mut self.zombie_lines_count)` (or mem::replace(.., default)) reads the count and zeroes it in one step
    for c in b.calls(r"std::mem::(take|replace)"):
        l = operand_local(c.args[0]) if c.args else None
        if l is not None and any(ZLC in tp for tl, tp in refs.get(l, ())):
            if K.meth(c.path) == "take" or (len(c.args) > 1 and b.slice_args(c, [1]).has_call(r"std::default::Default::default")):
                zeros.append((c.bb, {"line": c.line}))
    return adds, zeros, clears, keeps


def height_sources(crate, sl):
    """Identity of the row sources in a slice: height-function call sites and accumulator locals."""
    out = set()
    for c in sl.calls:
        if c.matches(*D.HEIGHT_FNS):
            out.add(("call", c.bb))
    for a in sl.atoms:
        if a[0] == "closure" and a[1] in crate.bodies and K._body_calls_deep(crate, crate.bodies[a[1]], D.HEIGHT_FNS, 2):
            out.add(("closure", a[1]))
    return out


def rule_row_transfer_pairing(ctx, crate, rule="R-ROW-TRANSFER-PAIRING"):
    cfg = crate.config
    n = 0
    for b in K.lib_bodies(crate):
        if not b.name.startswith("multi::MultiState::"):
            continue
        adds, zeros, clears, keeps = zlc_sites(crate, b)
        rets = b.return_blocks()
        # (a) every additive update U is paired with a Keep K of the same rows on all exits
        for (ubb, line, usl, how) in adds:
            n += 1
            usrc = height_sources(crate, usl)
            partners = []
            for (kbb, ks, ksl) in keeps:
                ksrc = height_sources(crate, ksl)
                shared = usrc & ksrc
                # or: the added value *is* the kept accumulator
                if shared or (usl.locals & ksl.locals & {l for l in range(len(b.locals)) if b.locals[l].get("head") == D.VL and l > b.arg_count}):
                    partners.append(kbb)
            if not partners:
                ctx.bad(rule, "add-without-keep", b.name, "%s:%d" % (b.file, line),
                        "rows are added to zombie_lines_count but never released from last_line_count with LineAdjust::Keep (they would be erased by the next draw although counted as zombie rows)", cfg)
                continue
            # U reached => K reached: K dominates U or every path U -> return passes K
            fwd = all(any(b.dominates(k, ubb) for k in partners) or b.must_pass(b.succ(ubb), partners) for _ in [0])
            # K reached => U reached (U before K on every path, or every path K -> return passes U)
            back = all(ubb not in () and (ubb not in b.reach([0], avoid=[]) or True) for _ in [0])
            back = all((k not in b.reach([0], avoid=[ubb])) or b.must_pass(b.succ(k), [ubb]) for k in partners)
            esc = []
            if not fwd:
                seen = b.reach(b.succ(ubb), avoid=partners)
                esc = sorted(r for r in rets if r in seen)
                # describe the escaping exits by the nearest switch conditions
                esc = describe_escapes(b, ubb, partners)
            ctx.check(fwd and back, rule, "add<->keep", b.name, "%s:%d" % (b.file, line),
                      "rows added to zombie_lines_count are released from last_line_count (Keep) on every exit, and vice versa",
                      "zombie rows are counted without the matching Keep on some exit: %s" % ("; ".join(esc) if esc else "Keep reachable without the add"),
                      cfg, witness=esc)
        # (c) conservation: LineAdjust::Keep saturates at the rows that are actually counted for the screen, so the zombie
        #     count may only grow by what Keep released (its result) — not by the requested number of rows. Otherwise,
        #     after a clear() (nothing on screen, members still hold their last lines), reaping a bar counts rows that do not
        #     exist, and the next println/clear erases that many rows of log output above the bars.
        for (ubb, line, usl, how) in adds:
            rel = [c for c in usl.calls if c.matches(r"draw_target::ProgressDrawTarget::adjust_last_line_count", r"draw_target::Drawable::<'_>::adjust_last_line_count")]
            ctx.check(bool(rel), rule, "add-is-what-keep-released", b.name, "%s:%d" % (b.file, line),
                      "zombie_lines_count grows by the number of rows LineAdjust::Keep actually released",
                      "zombie_lines_count grows by the requested row count although Keep saturates at the rows on screen: after clear() "
                      "a reaped bar counts rows that are not there, and the next println/clear erases that many log lines", cfg)
        # (d) text written into the frame through a bar's println (orphan lines) lands *below* the kept zombie rows, so the
        #     zombie rows stop being adjacent to the live region: that path too must hand the zombie rows over (Clear + zero) —
        #     otherwise a later println/clear applies Clear(zombie_lines_count) to the rows of that text
        feeds = [c for c in b.calls(r"std::vec::Vec::<T, A>::append", r"std::vec::Vec::<T, A>::extend.*") if b.slice_args(c).has_field("orphan_lines")]
        if feeds and b.name == "multi::MultiState::draw":
            ext = [i for i in range(1, b.arg_count + 1) if b.locals[i]["ty"].startswith("std::option::Option<") and "LineType" in b.locals[i]["ty"]]
            if ext:
                R_none = K.variant_reach(b, crate, "std::option::Option", "None", lambda pl: pl["l"] == ext[0] and not pl["p"])
                zsites = [cbb for (cbb, cs, csl) in clears if csl.has_field(ZLC) or any(c.matches(r"std::mem::(take|replace)") for c in csl.calls)]
                ok = any(z in R_none for z in zsites)
                n += 1
                ctx.check(ok, rule, "orphan-text-hands-over-zombies", b.name, feeds[0].loc(),
                          "when only orphan lines (a bar's println) are printed, the zombie rows are handed over to the erase count as for MultiProgress::println",
                          "a bar's println text is painted below kept zombie rows while they stay counted: the next println/clear applies Clear(zombie_lines_count) "
                          "to the rows of that text (pb.println(\"x\") after a reaped bar, then mp.println(\"y\") erases x)", cfg)
        # (d') "only orphan lines are printed" is asked while the queue still holds them: no test of the queue (is_empty / len / its
        #      row count) may be evaluated after the queue was drained into the frame in the same call - it would always read
        #      "nothing pending", and a bar's println would never hand the zombie rows over
        if b.name == "multi::MultiState::draw":
            drains = [c for c in b.calls(r"std::vec::Vec::<T, A>::(append|drain|clear|split_off|truncate)", r"std::mem::(take|replace|swap)", r"std::vec::Vec::<T, A>::extend.*")
                      if any(b.slice(a, at=c.bb, through_calls=False).has_field("orphan_lines") for a in c.args
                             if isinstance(a, dict) and a.get("k") in ("move", "copy") and (a["place"].get("ty") or "").startswith("&mut"))]
            reads = [c for c in b.calls(r"std::vec::Vec::<T, A>::(is_empty|len)", r"core::slice::<impl \[T\]>::(is_empty|len)", r"multi::visual_line_count")
                     if c.args and b.slice_args(c, [0], through_calls=False).has_field("orphan_lines")]
            if drains and reads:
                n += 1
                hand_over = {cbb for (cbb, cs_, csl_) in clears} | {zi for zi, zs in zeros}

                def decides_hand_over(r_):
                    for sb, t in b.switches():
                        if not any(b.edge_dominates((sb, x), h) for x in b.succ(sb) for h in hand_over):
                            continue
                        if any(any(k.bb == r_.bb for k in sl_.calls) for sl_ in K.cond_slices(b, sb)):
                            return True
                    return False
                stale = [r_ for r_ in reads if any(r_.bb in b.reach_after(d_.bb) for d_ in drains) and decides_hand_over(r_)]
                ctx.check(not stale, rule, "orphans-tested-before-drained", b.name, (stale or reads)[0].loc(),
                          "the orphan-line queue is tested before it is drained into the frame",
                          "the orphan-line queue is tested (line %s) after it was drained into the frame in the same call: the test always reads \"nothing pending\", so a draw "
                          "caused by a bar's println never hands the zombie rows over (the printed text is painted below them and erased by the next println/clear)"
                          % ", ".join(str(r_.line) for r_ in stale), cfg)
            elif not reads:
                ctx.lost(rule, cfg, "MultiState::draw no longer tests the orphan-line queue")
        # (f) reaped bars leave the ordering and their rows leave the erase count *together*: in the function that removes the
        #     reaped members, whether the Keep happens is decided only by the flag that also decides the Clear of the printing
        #     path (one of the two hand-overs always takes place). A Keep that additionally depends on something else - the result
        #     of the paint, say - can be skipped while the members are removed all the same: their rows stay in the erase count and
        #     the next successful draw wipes the final line of a visibly finished bar (seed C18l)
        if b.name == "multi::MultiState::draw" and keeps and b.calls(r"multi::MultiState::remove_idx"):
            def roots(sb_):
                out_, work_ = set(), [operand_local(b.term(sb_)["op"])]
                while work_:
                    x_ = work_.pop()
                    if x_ is None or x_ in out_:
                        continue
                    out_.add(x_)
                    for d_ in b.defs().get(x_, ()):
                        if d_["kind"] == "assign" and not d_["lhs"]["p"]:
                            rv_ = d_["rv"]
                            if rv_["k"] == "use" and rv_["op"].get("k") in ("copy", "move") and not rv_["op"]["place"]["p"]:
                                work_.append(operand_local(rv_["op"]))
                            elif rv_["k"] == "un" and rv_.get("op") == "Not":
                                work_.append(operand_local(rv_.get("a")))
                return out_

            def deciders(site):
                return [sb_ for sb_, t_ in b.switches() if any(b.edge_dominates((sb_, x_), site) for x_ in b.succ(sb_))
                        and not all(site in b.reach([y_]) for y_ in b.succ(sb_))]
            clear_roots = set()
            for (cbb, cs, csl) in clears:
                for sb_ in deciders(cbb):
                    clear_roots |= roots(sb_)
            n += 1
            extra = []
            rm_deciders = set()
            for rc in b.calls(r"multi::MultiState::remove_idx"):
                rm_deciders |= set(deciders(rc.bb))
            for (kbb, ks, ksl) in keeps:
                for sb_ in deciders(kbb):
                    if sb_ in rm_deciders:
                        continue        # (a refused draw leaves before both)
                    if not (roots(sb_) & clear_roots):
                        extra.append("%s:%d" % (b.file, b.term(sb_).get("line", 0)))
            ctx.check(not extra, rule, "reap<->keep", b.name, extra[0] if extra else K.fn_loc(b),
                      "the rows of reaped bars are released (Keep) whenever they are not handed over by the printing path (Clear): nothing else decides it",
                      "the Keep that releases the rows of reaped bars also depends on a test that does not decide the printing hand-over (e.g. the result of the paint): "
                      "the reaped members are removed from the ordering but their rows stay in the erase count - the next successful draw erases the final line of a "
                      "visibly finished bar", cfg)
        # (b) every Clear(zombie_lines_count) is followed on all paths by a zero store
        zero_bbs = [i for i, s in zeros]
        for (cbb, cs, csl) in clears:
            if not csl.has_field(ZLC) and not any(c.matches(r"std::mem::(take|replace)") and c.bb in zero_bbs for c in csl.calls):
                continue
            n += 1
            ok = b.must_pass(b.succ(cbb) if cbb not in zero_bbs else [], zero_bbs) if zero_bbs else False
            ok = ok or (cbb in zero_bbs)
            # the operand was obtained by mem::take of the counter: taken (and zeroed) before the Clear is built
            ok = ok or any(c.matches(r"std::mem::(take|replace)") and c.bb in zero_bbs for c in csl.calls)
            ctx.check(ok, rule, "clear->zero", b.name, "%s:%d" % (b.file, cs.get("line", 0)),
                      "after Clear(zombie_lines_count) the zombie count is reset on every path",
                      "zombie rows handed to the erase count stay counted as zombie rows (erased twice)", cfg)
            # the Clear operand must be exactly the rows owned by the zombie count: no height of rows that
            # are still part of the current frame may have been added before on this path
            for (ubb, line, usl, how) in adds:
                if cbb in b.reach_after(ubb) or cbb == ubb:
                    # rows added on this path: are they still owned by last_line_count? yes unless Keep-ed before the Clear
                    keep_before = [k for (k, ks, ksl) in keeps if cbb in b.reach_after(k)]
                    paired_before = keep_before and b.must_pass(b.succ(ubb), keep_before, to=[cbb])
                    ctx.check(bool(paired_before), rule, "clear-double-owned", b.name, "%s:%d" % (b.file, cs.get("line", 0)),
                              "rows cleared were released from last_line_count before",
                              "Clear(zombie_lines_count) includes rows added on this path that are still in last_line_count (owned twice: one row too many is erased above the frame)",
                              cfg)
    ctx.floor(rule, n, 4, cfg, "zombie-row transfer sites (adds + clears)")
    # (e) the zombie rows are rows of the *current* terminal: whoever replaces MultiState.draw_target starts from zero
    #     (otherwise the next println/clear erases that many rows of the new terminal that never belonged to the region)
    n_t = 0
    for b in K.lib_bodies(crate):
        if b.kind == "Closure" or K.meth(b.name) in ("new", "with_draw_target"):
            continue
        for i, j, s_ in b.assigns():
            fs = place_fields(s_["lhs"])
            if not fs or fs[-1][2] != "draw_target" or fs[-1][0] != "multi::MultiState":
                continue
            n_t += 1
            zs = [bb for bb in b.reachable() for st in b.stmts(bb) if st.get("k") == "assign" and place_fields(st["lhs"]) and place_fields(st["lhs"])[-1][2] == ZLC] + \
                 [c.bb for c in b.calls(r"std::mem::(take|replace)") if b.slice_args(c, [0], through_calls=False).has_field(ZLC)]
            ok = bool(zs) and (any(b.dominates(z, i) for z in zs) or b.must_pass(b.succ(i) or [i], zs))
            ctx.check(ok, rule, "target-replaced-resets-zombies:%s" % K.meth(b.name), b.name, "%s:%d" % (b.file, s_.get("line", 0)),
                      "replacing the MultiProgress draw target resets the zombie row count",
                      "%s replaces MultiState.draw_target but keeps zombie_lines_count: the rows counted there are on the old terminal; the next println/clear erases "
                      "that many rows of the new one" % K.meth(b.name), cfg)
    ctx.floor(rule, n_t, 1, cfg, "functions that replace MultiState.draw_target")


def describe_escapes(b, ubb, partners):
    """Human-readable description of the exits reachable from ubb without passing a partner block."""
    out = []
    seen = b.reach(b.succ(ubb), avoid=partners)
    for r in sorted(seen):
        t = b.term(r)
        if t and t["k"] == "return":
            # find last switch on the way that decides avoidance
            pass
    for sb, t in b.switches():
        if sb not in seen and sb != ubb:
            continue
        for x in b.succ(sb):
            # an edge after which no partner is reachable at all
            if x in seen and not (b.reach([x]) & set(partners)):
                sl = b.slice(t["op"], at=sb)
                names = sorted({K.meth(c.path) for c in sl.calls})[:3]
                out.append("exit after %s (line %d)" % ("/".join(names) or "switch", t.get("line", 0)))
    return sorted(set(out))


def rule_suspend_protocol(ctx, crate, rule="R-SUSPEND-PROTOCOL"):
    cfg = crate.config
    n = 0
    for fn in (r"multi::MultiState::suspend", r"state::BarState::suspend"):
        b = K.find_one(ctx, crate, rule, fn)
        if not b:
            continue
        user = [c for c in b.calls(r"std::ops::FnOnce::call_once") if c.callee.get("self_head", "").startswith("param:")]
        if not user:
            ctx.lost(rule, cfg, "%s does not call its closure" % fn)
            continue
        clears = b.calls(r"multi::MultiState::clear", r"draw_target::Drawable::<'_>::clear")
        draws = [c for c in b.calls(r"multi::MultiState::draw", r"state::BarState::draw") if is_const(c.args[1], True)]
        for u in user:
            n += 1
            after = b.must_pass(b.succ(u.bb), [c.bb for c in draws]) if draws else False
            ctx.check(after, rule, "forced-redraw-after", b.name, u.loc(),
                      "after the closure every path redraws with force_draw = const true",
                      "the bars are not (forcibly) redrawn after the suspend closure", cfg)
            # before: clear precedes the closure, except on the edge where there is no drawable
            none_edges = []
            for sb, t, pl, d in K.discr_switches(b):
                sl = b.slice(pl, at=sb)
                if sl.has_call(K.PDT_DRAWABLE):
                    for tgt, vs in K.edge_variants(crate, t, "std::option::Option").items():
                        if vs == {"None"}:
                            none_edges.append((sb, tgt))
            reach_wo = b.reach([0], avoid=[c.bb for c in clears], avoid_edges=none_edges)
            ctx.check(bool(clears) and u.bb not in reach_wo, rule, "clear-before", b.name, u.loc(),
                      "the closure runs only after the bars were cleared (or there is nothing drawable)",
                      "the suspend closure can run while the bars are still on screen (its output is later erased)", cfg)
            # forced clear
            for c in b.calls(K.PDT_DRAWABLE):
                ctx.check(is_const(c.args[1], True), rule, "clear-forced", b.name, c.loc(),
                          "the clearing drawable is forced", "the clear before the closure can be rate limited away", cfg)
    # the closure runs only while the (bar or multi) state is exclusively held: it is invoked only by the two state-level
    # functions above (their `&mut self` exists only under the lock); the handle-level suspend() functions forward it
    # there and never call it themselves — otherwise another thread can redraw the bars while the closure prints
    for b in K.lib_bodies(crate):
        if K.meth(K.owner_fn(crate, b)) != "suspend":
            continue
        for u in [c for c in b.calls(r"std::ops::FnOnce::call_once", r"std::ops::FnMut::call_mut", r"std::ops::Fn::call") if c.callee.get("self_head", "").startswith("param:")]:
            n += 1
            recv = b.locals[1]["ty"] if b.arg_count >= 1 else ""
            ok = b.name in ("multi::MultiState::suspend", "state::BarState::suspend") and recv.startswith("&mut")
            ctx.check(ok, rule, "closure-under-state-lock", b.name, u.loc(),
                      "the user closure is invoked by the state-level suspend (exclusive `&mut` state, i.e. under the lock)",
                      "the suspend closure is invoked in %s, without the bar/multi state being held: a concurrent draw repaints the bars and the closure's output is erased by the redraw" % b.name, cfg)
    for fn, down in ((r"multi::MultiProgress::suspend", r"multi::MultiState::suspend"), (r"progress_bar::ProgressBar::suspend", r"state::BarState::suspend")):
        b = K.find_one(ctx, crate, rule, fn)
        if not b:
            continue
        cs = b.calls(down)
        okd = len(cs) == 1 and b.must_pass([0], [cs[0].bb]) and bool(b.slice_args(cs[0]).params() - {1})
        ctx.check(okd, rule, "delegates:%s" % K.meth(fn), b.name, K.fn_loc(b), "%s forwards its closure to %s on every path" % (fn, down),
                  "%s does not hand its closure to %s (clear / run / redraw are no longer one critical section)" % (fn, down), cfg)
    # the MultiProgress region is wiped only through MultiState::clear, which hands the zombie rows to the erase count and
    # zeroes the counter; a bare Drawable::clear() in another MultiState method leaves the counter set, and the next
    # println/clear erases that many rows of whatever was written in between (seed C03e)
    for b in K.lib_bodies(crate):
        own = K.owner_fn(crate, b)
        if not own.startswith("multi::MultiState::") or own == "multi::MultiState::clear":
            continue
        for c in b.calls(r"draw_target::Drawable::<'_>::clear"):
            n += 1
            ctx.bad(rule, "multi-clears-via-clear:%s" % K.meth(own), b.name, c.loc(),
                    "%s wipes the region with Drawable::clear() directly instead of MultiState::clear(): the zombie rows stay counted" % own, cfg)
    ctx.floor(rule, n, 4, cfg, "suspend closures")
