"""C02 — MultiProgress shows every member once, in logical order, below the log (structural part)."""
import re

from .. import common as K
from .. import draw_rules as D
from ..facts import operand_local, place_fields, is_const
from .c03 import uses_of_field_ref

EXPLANATION = ("Decides: exclusive-access composition (MultiState is Freeze, the crate has no unsafe, Drawable::Multi owns the "
               "RwLock write guard from drawable() to draw(), so every frame is composed and painted in one critical section "
               "from the latest committed member states); the frame and the reap loop index members only through the logical "
               "`ordering`, in iteration order; every InsertLocation arm inserts the new slot exactly once at the documented "
               "position; remove_idx frees the slot, clears the member and drops it from ordering; the slot a bar draws into is "
               "the one allocated for it; only head zombies are reaped; ordering/free_set/members are written only by the "
               "MultiState functions that own them.")
UNDECIDED = ("Zombie/alignment row arithmetic, 'exactly once directly below everything printed' as screen content, and "
             "linearizability beyond the lock argument are not decided.")

MS = "multi::MultiState"
OWNERS = {"multi::MultiState::new", "multi::MultiState::insert", "multi::MultiState::remove_idx",
          "multi::MultiState::draw_state", "multi::MultiState::mark_zombie"}


def run(ctx, crate):
    K.rule_no_unsafe(ctx, crate)
    K.rule_emit_single(ctx, crate)
    rule_multi_exclusive(ctx, crate)
    rule_order_source(ctx, crate)
    rule_insert_arms(ctx, crate)
    rule_remove_idx(ctx, crate)
    rule_struct_writers(ctx, crate)
    rule_slot_identity(ctx, crate)
    rule_head_only_reap(ctx, crate)
    rule_removal_keeps_screen_current(ctx, crate)
    rule_readd_noop(ctx, crate)
    rule_unlink_frees_slot(ctx, crate)
    rule_multi_draw_total(ctx, crate)
    _shared_c02(ctx, crate)
    # "removing, clearing or dropping a bar makes its lines disappear": an empty frame still erases the old rows (no reposition-only path)
    D.rule_draw_order(ctx, crate)
    D.rule_render_unless_hidden(ctx, crate)
    D.rule_finished_draws_forced(ctx, crate)
    D.rule_rows_newtype(ctx, crate)
    D.rule_width_source(ctx, crate)
    from .c03 import rule_row_transfer_pairing
    rule_row_transfer_pairing(ctx, crate)
    rule_multi_arm_unconditional(ctx, crate)
    # "directly below everything printed so far": a member's println lines (Text and Empty alike) move to the orphan queue
    from .c03 import rule_orphan_split, rule_orphan_moved
    rule_orphan_moved(ctx, crate)
    rule_orphan_split(ctx, crate)
    # "for every interleaving": the suspend window (clear, closure, redraw) is one critical section of the MultiState lock
    from .c03 import rule_suspend_protocol
    rule_suspend_protocol(ctx, crate)


def _shared_c02(ctx, crate):
    # "directly below everything printed so far", also bottom-aligned: the shift that keeps a shrinking region at the bottom is
    # computed from the whole frame, printed text included (seed C02n: counted from the first bar line only, the text is erased next)
    D.rule_shift_full_frame(ctx, crate)


def rule_multi_exclusive(ctx, crate, rule="R-MULTI-EXCLUSIVE"):
    cfg = crate.config
    a = crate.adts.get(MS)
    if not a:
        ctx.lost(rule, cfg, "MultiState not found")
        return
    ctx.check(a["freeze"], rule, "freeze", MS, "%s:%d" % (a["file"], a["line"]),
              "MultiState is Freeze: no interior mutability, every mutation needs &mut MultiState (i.e. the write guard)",
              "MultiState has interior mutability: it can be mutated through a shared reference, outside the write lock", cfg)
    for f in a["variants"][0]["fields"]:
        ctx.check(f["freeze"], rule, "field-freeze:%s" % f["name"], MS, "%s:%d" % (a["file"], a["line"]),
                  "field %s: %s is Freeze" % (f["name"], f["ty"]), "field %s has interior mutability" % f["name"], cfg)
    mp = crate.adts.get("multi::MultiProgress")
    if mp:
        tys = [f["ty"] for f in mp["variants"][0]["fields"]]
        ctx.check(any("std::sync::RwLock<multi::MultiState>" in t and t.startswith("std::sync::Arc<") for t in tys), rule, "shared-by-rwlock",
                  "multi::MultiProgress", "%s:%d" % (mp["file"], mp["line"]), "MultiProgress shares one Arc<RwLock<MultiState>>",
                  "MultiProgress no longer shares its state through one RwLock", cfg)
    d = crate.adts.get(K.DRAWABLE)
    if d:
        mv = [v for v in d["variants"] if v["name"] == "Multi"]
        ok = bool(mv) and any(f["name"] == "state" and f["ty"].startswith("std::sync::RwLockWriteGuard<") and "multi::MultiState" in f["ty"] for f in mv[0]["fields"])
        ctx.check(ok, rule, "drawable-owns-guard", K.DRAWABLE, "%s:%d" % (d["file"], d["line"]),
                  "Drawable::Multi owns the RwLockWriteGuard<MultiState> (replace member state + compose frame in one critical section)",
                  "Drawable::Multi does not own the write guard: member update and frame composition can interleave with other threads", cfg)
    # every `RwLock<MultiState>` acquisition used for a mutation is a write()
    n = 0
    for b in K.lib_bodies(crate):
        for c in b.calls(r"std::sync::RwLock::<T>::(read|write|try_read|try_write)"):
            ta = c.callee.get("targs", [])
            if not ta or ta[0] != MS:
                continue
            n += 1
    ctx.floor(rule, n, 8, cfg, "RwLock<MultiState> acquisitions")


def members_index_sites(b):
    out = []
    for c in b.calls(r"std::ops::Index::index", r"std::ops::IndexMut::index_mut", r"core::slice::<impl \[T\]>::get(_mut)?",
                     r"core::slice::<impl \[T\]>::get_unchecked.*"):
        sl0 = b.slice_args(c, [0], through_calls=True)
        if sl0.has_field("members", MS) and "RangeFull" not in b.locals[operand_local(c.args[1]) or 0]["ty"]:
            # only direct indexing of the members vector (not of a member's own lines)
            if not sl0.has_field("lines") and not sl0.has_field("draw_state"):
                out.append(c)
    return out


def rule_order_source(ctx, crate, rule="R-MULTI-ORDER-SOURCE"):
    cfg = crate.config
    b = K.find_one(ctx, crate, rule, r"multi::MultiState::draw")
    if not b:
        return
    sites = members_index_sites(b)
    # (index sites inside closures of draw — `take_while(|&i| self.members[i].is_zombie)` — count as sites; their index is the
    # closure's item, whose source R-MULTI-HEAD-REAP checks)
    in_closures = sum(len([c for c in cb.calls(r"std::ops::Index::index", r"std::ops::IndexMut::index_mut") if cb.slice_args(c, [0]).has_field("members", MS) or
                           any(a[0] == "field" and a[1] == "closure" for a in cb.slice_args(c, [0]).atoms)]) for cb in crate.closures_of(b.name))
    ctx.floor(rule, len(sites) + in_closures, 2, cfg, "members[..] index sites in MultiState::draw")
    ctx.floor(rule, len(sites), 1, cfg, "members[..] index sites in the body of MultiState::draw (frame composition)")
    for k, c in enumerate(sites):
        sl = b.slice_args(c, [1])
        from_ordering = sl.has_field("ordering", MS)
        reordered = sl.calls_matching(r"std::iter::Iterator::rev", r".*::sort.*", r".*::reverse", r"std::iter::Iterator::enumerate",
                                      r"std::iter::Iterator::skip", r"std::iter::Iterator::step_by")
        ranges = any(a[0] == "agg" and a[1].startswith("std::ops::Range") for a in sl.atoms)
        ctx.check(from_ordering and not reordered and not ranges, rule, "index-from-ordering#%d" % k, b.name, c.loc(),
                  "the member index comes from iterating `ordering` in order",
                  "members are visited by slot index / a transformed order instead of the logical `ordering` (%s)" %
                  ("no ordering in the index slice" if not from_ordering else "reordered by %s" % [x.path for x in reordered] if reordered else "a range"), cfg)
    # no iteration over members itself feeds the frame
    for c in b.calls(r"core::slice::<impl \[T\]>::iter(_mut)?", r"std::iter::IntoIterator::into_iter"):
        sl = b.slice_args(c, [0])
        if sl.has_field("members", MS) and not sl.has_field("ordering", MS):
            ctx.bad(rule, "iterates-members", b.name, c.loc(),
                    "MultiState::draw iterates the slot vector `members` directly: slot order differs from the logical order once a slot is recycled", cfg)
    # the frame's bar lines come from the indexed member's draw_state.lines
    feeds = [c for c in b.calls(r"std::vec::Vec::<T, A>::extend_from_slice", r"std::iter::Extend::extend", r"std::vec::Vec::<T, A>::append")
             if b.slice_args(c, [1]).has_field("members", MS)]
    ctx.check(bool(feeds) and all(b.in_loop(c.bb) for c in feeds), rule, "compose-loop", b.name, K.fn_loc(b),
              "member lines are appended to the frame inside the loop over `ordering`",
              "the frame is not composed from the members in a loop over `ordering`", cfg)


# arm -> (call name on ordering, required callee patterns in the position slice, forbidden, needs +1)
LEN_OF_SEQ = r"std::vec::Vec::<T, A>::len|core::slice::<impl \[T\]>::len"
ARMS = {
    "End": ("push", [], False),
    "Index": ("insert", [r"std::cmp::Ord::min|std::cmp::min|core::num::<impl usize>::min", LEN_OF_SEQ], False),
    "IndexFromBack": ("insert", [r"core::num::<impl usize>::saturating_sub", LEN_OF_SEQ], False),
    "After": ("insert", [r"std::iter::Iterator::position"], True),
    "Before": ("insert", [r"std::iter::Iterator::position"], False),
}


def rule_insert_arms(ctx, crate, rule="R-MULTI-INSERT-ARMS"):
    cfg = crate.config
    b = K.find_one(ctx, crate, rule, r"multi::MultiState::insert")
    if not b:
        return
    names = K.variant_names(crate, "multi::InsertLocation") or []
    ctx.check(set(names) == set(ARMS), rule, "variants", "multi::InsertLocation", K.fn_loc(b), "InsertLocation variants match the table",
              "InsertLocation variants %s differ from the rule table" % names, cfg)
    seen = 0
    ord_calls = [(c, k) for c, k in uses_of_field_ref(b, "ordering") if k == 0 and c.matches(r"std::vec::Vec::<T, A>::(push|insert|extend.*|append|splice|swap.*|remove|retain|truncate|clear|drain)")]
    everywhere = b.reachable()
    for v in names:
        if v not in ARMS:
            continue
        # what executes when the location is this variant (the arms may share one insert after the match)
        R = K.variant_reach(b, crate, "multi::InsertLocation", v)
        if R == everywhere:
            continue
        seen += 1
        want, pats, plus1 = ARMS[v]
        here = [c for c, k in ord_calls if c.bb in R]
        loc = "%s:%d" % (b.file, here[0].line if here else K.fn_loc(b).rsplit(":", 1)[-1] and b.line)
        with b.restricted(R):
            ok = len(here) == 1 and (K.meth(here[0].path) == want or
                                     (want == "push" and K.meth(here[0].path) == "insert" and b.slice_args(here[0], [1]).has_call(LEN_OF_SEQ)
                                      and not [a for a in b.slice_args(here[0], [1]).atoms if a[0] == "binop"]))
            ctx.check(ok, rule, "%s:once" % v, b.name, loc, "%s performs exactly one ordering.%s" % (v, want),
                      "%s arm performs %s on `ordering` (expected exactly one %s)" % (v, [K.meth(c.path) for c in here], want), cfg)
            if not ok:
                continue
            c = here[0]
            # inserted value is the freshly allocated slot
            vsl = b.slice_args(c, [len(c.args) - 1])
            ctx.check(vsl.has_call(r"std::vec::Vec::<T, A>::pop") and vsl.has_call(r"std::vec::Vec::<T, A>::len"), rule, "%s:value" % v, b.name, c.loc(),
                      "the inserted value is the allocated slot (free_set.pop() or members.len()-1)", "the value inserted into `ordering` is not the allocated slot", cfg)
            if want == "insert":
                psl = b.slice_args(c, [1])
                miss = [p for p in pats if not psl.has_call(p)]
                has_plus = ("binop", "AddWithOverflow") in psl.atoms or ("binop", "Add") in psl.atoms
                payload = any(f[0] == "multi::InsertLocation" for f in psl.fields()) or psl.has_param(2)
                ctx.check(not miss and has_plus == plus1 and payload, rule, "%s:position" % v, b.name, c.loc(),
                          "position computed as documented for %s" % v,
                          "%s arm computes its position differently (%s%s%s)" % (v, "missing %s; " % miss if miss else "",
                                                                                "unexpected +1; " if has_plus and not plus1 else ("missing +1; " if plus1 and not has_plus else ""),
                                                                                "" if payload else "payload unused"), cfg)
    ctx.floor(rule, seen, 5, cfg, "InsertLocation arms")
    # slot allocation: reused slot is reset, fresh slot is pushed
    pops = [c for c, k in uses_of_field_ref(b, "free_set") if c.matches(r"std::vec::Vec::<T, A>::pop")]
    ctx.check(len(pops) == 1, rule, "alloc:reuses-free-slot", b.name, K.fn_loc(b), "a free slot is reused if available",
              "slot allocation does not consult free_set exactly once", cfg)
    for vs, reg, sb, pl in K.variant_regions(b, crate, "std::option::Option"):
        sl = b.slice(pl, at=sb)
        if not sl.has_call(r"std::vec::Vec::<T, A>::pop"):
            continue
        mem_calls = [c for c, k in uses_of_field_ref(b, "members", include_forward=True) if c.bb in reg and k == 0]
        if vs == {"Some"}:
            ok = insert_resets_reused(crate)
            if not ok:
                # ... or every slot was already reset, as a whole, when it entered the free set (the reset here is then redundant)
                ok = freed_slots_are_reset(crate)
            ctx.check(ok, rule, "alloc:reset-reused", b.name, K.fn_loc(b), "a reused slot is a default MultiStateMember (reset here, or when it was freed)",
                      "a recycled slot keeps the previous bar's draw state / zombie flag: neither insert() nor the function that frees a slot resets the whole member", cfg)
        elif vs == {"None"}:
            ok = any(c.matches(r"std::vec::Vec::<T, A>::push") for c in mem_calls)
            ctx.check(ok, rule, "alloc:push-fresh", b.name, K.fn_loc(b), "a fresh slot is pushed when no free slot exists",
                      "no fresh slot is pushed when the free set is empty", cfg)


def insert_resets_reused(crate):
    """`MultiState::insert` stores a default member into the slot it takes from `free_set` (on the Some edge of the pop)."""
    b = crate.body("multi::MultiState::insert")
    if not b:
        return False
    for vs, reg, sb, pl in K.variant_regions(b, crate, "std::option::Option"):
        if vs != {"Some"} or not b.slice(pl, at=sb).has_call(r"std::vec::Vec::<T, A>::pop"):
            continue
        mem_calls = [c for c, k in uses_of_field_ref(b, "members", include_forward=True) if c.bb in reg and k == 0]
        if any(c.matches(r"std::ops::IndexMut::index_mut") for c in mem_calls) and \
                any(i in reg and s["lhs"]["p"] == ["*"] and b.slice_rv(i, s).has_call(r"std::default::Default::default") for i, j, s in b.assigns()):
            return True
    return False


def freed_slots_are_reset(crate):
    """Every function that pushes onto `free_set` stores a whole default member into `members[..]` on every path to the push."""
    pushers = 0
    for b in K.lib_bodies(crate):
        push = [c for c, k in uses_of_field_ref(b, "free_set") if c.matches(r"std::vec::Vec::<T, A>::push") and k == 0]
        if not push:
            continue
        pushers += 1
        reset = [i for i, j, s in b.assigns() if s["lhs"]["p"] == ["*"] and b.locals[s["lhs"]["l"]].get("head") == "multi::MultiStateMember"
                 and b.slice_rv(i, s).has_call(r"std::default::Default::default")]
        for c in push:
            if not reset or c.bb in b.reach([0], avoid=reset):
                return False
    return pushers > 0


def rule_remove_idx(ctx, crate, rule="R-MULTI-REMOVE"):
    cfg = crate.config
    b = K.find_one(ctx, crate, rule, r"multi::MultiState::remove_idx")
    if not b:
        return
    guard_true = []
    effect_bbs = {c.bb for c in b.calls(r"std::vec::Vec::<T, A>::(push|retain|insert|remove)", r"std::ops::IndexMut::index_mut")}
    for sb, t in b.switches():
        # (the test may be a flag computed by a search loop: `let mut already_free = false; for &f in &self.free_set { if f == idx {..} }`)
        sls = K.cond_slices(b, sb)
        if not any(sl.has_field("free_set", MS) for sl in sls):
            continue
        uses_idx = any(2 in sl.params() or any(a[0] == "closure" for a in sl.atoms) for sl in sls)
        if any(sb in b.reach_after(e) or sb == e for e in effect_bbs):
            continue  # only an entry guard (evaluated before any effect) can make the call a no-op
        for x in b.succ(sb):
            # the "already free" edge: reaches the return without any effect
            if uses_idx and not (b.reach([x]) & effect_bbs):
                guard_true.append((sb, x))
    ctx.check(bool(guard_true), rule, "double-remove-guard", b.name, K.fn_loc(b), "removal of an already free slot is a no-op (test on free_set and idx)",
              "remove_idx no longer guards against freeing a slot twice", cfg)
    push = [c for c, k in uses_of_field_ref(b, "free_set") if c.matches(r"std::vec::Vec::<T, A>::push") and k == 0]
    ret = [c for c, k in uses_of_field_ref(b, "ordering") if c.matches(r"std::vec::Vec::<T, A>::retain") and k == 0]
    reset = [(i, s) for i, j, s in b.assigns() if s["lhs"]["p"] == ["*"] and b.locals[s["lhs"]["l"]].get("head") == "multi::MultiStateMember"
             and b.slice_rv(i, s).has_call(r"std::default::Default::default")]
    avoid = guard_true
    for what, sites in (("free_set.push(idx)", [c.bb for c in push]), ("ordering.retain(!= idx)", [c.bb for c in ret]), ("members[idx] = default", [i for i, s in reset])):
        ok = bool(sites) and not (b.reach([0], avoid=sites, avoid_edges=avoid) & set(b.return_blocks()))
        if not ok and what.startswith("members"):
            ok = insert_resets_reused(crate)       # the member is reset when its slot is handed out again instead: equivalent, a freed slot is in no ordering
        ctx.check(ok, rule, "effect:%s" % what.split("(")[0].split(" ")[0], b.name, K.fn_loc(b), "every non-early path performs %s" % what,
                  "remove_idx can return without %s" % what, cfg)
    for c in push:
        ctx.check(b.slice_args(c, [1]).params() == {2}, rule, "push-value", b.name, c.loc(), "the freed slot is the removed index",
                  "the slot pushed to free_set is not the removed index", cfg)


def rule_struct_writers(ctx, crate, rule="R-MULTI-STRUCT-WRITERS"):
    cfg = crate.config
    n = 0
    MUT = r"std::vec::Vec::<T, A>::(push|insert|extend.*|append|splice|swap.*|remove|retain.*|truncate|clear|drain|pop|sort.*|dedup.*|reverse|resize.*|set_len)|std::ops::IndexMut::index_mut|core::slice::<impl \[T\]>::(get_mut|iter_mut|swap|sort.*|reverse|last_mut|first_mut)|std::ops::DerefMut::deref_mut|std::mem::(take|swap|replace)"
    for b in K.lib_bodies(crate):
        for field in ("ordering", "free_set", "members"):
            for c, k in uses_of_field_ref(b, field, include_forward=True):
                if not c.matches(MUT) or k != 0:
                    continue
                l = operand_local(c.args[0])
                if l is None or "&mut" not in b.locals[l]["ty"]:
                    continue
                sl = b.slice_args(c, [0], through_calls=False)
                if not sl.has_field(field, MS):
                    continue
                n += 1
                owner = K.owner_fn(crate, b)
                ctx.check(owner in OWNERS, rule, "mutates:%s" % field, b.name, c.loc(), "`%s` is mutated by an owning MultiState function" % field,
                          "`%s` is mutated in %s (outside insert/remove_idx/draw_state/mark_zombie)" % (field, owner), cfg)
            for i, j, s in b.assigns():
                fs = place_fields(s["lhs"])
                if fs and fs[-1][0] == MS and fs[-1][2] == field:
                    n += 1
                    ctx.check(K.owner_fn(crate, b) in OWNERS, rule, "stores:%s" % field, b.name, "%s:%d" % (b.file, s.get("line", 0)),
                              "`%s` assigned by an owning function" % field, "`%s` is replaced outside its owning functions" % field, cfg)
    ctx.floor(rule, n, 8, cfg, "mutations of ordering/free_set/members")


def rule_slot_identity(ctx, crate, rule="R-MULTI-SLOT-IDENTITY"):
    cfg = crate.config
    b = K.find_one(ctx, crate, rule, r"multi::MultiProgress::internalize")
    if b:
        for c in b.calls(r"draw_target::ProgressDrawTarget::new_remote"):
            sl = b.slice_args(c, [1], through_calls=False)
            ctx.check(sl.has_call(r"multi::MultiState::insert"), rule, "remote-idx-is-allocated-slot", b.name, c.loc(),
                      "the bar's remote target carries the slot returned by MultiState::insert", "the bar's remote index is not the slot allocated for it", cfg)
            sl0 = b.slice_args(c, [0])
            ctx.check(sl0.has_field("state", "multi::MultiProgress"), rule, "remote-state-is-self", b.name, c.loc(),
                      "the remote target points to this MultiProgress' state", "the remote target points to another state", cfg)
        sd = b.calls(r"progress_bar::ProgressBar::set_draw_target")
        # ... except on the edge of the membership test that finds the bar already installed (its target is a remote of this state)
        skip = [e for e in member_test_edges(crate, b) if not any(c.bb in b.reach([e[1]]) for c in sd + b.calls(r"multi::MultiState::insert"))]
        through = {c.bb for c in sd}
        seen_ = b.reach([0], avoid=through, avoid_edges=skip)
        ctx.check(bool(sd) and not (seen_ & set(b.return_blocks())), rule, "installs-remote", b.name, K.fn_loc(b),
                  "the remote target is installed into the bar on every path", "the bar is returned without its remote draw target", cfg)
    d = K.find_one(ctx, crate, rule, r"draw_target::Drawable::<'_>::state")
    if d:
        for c in d.calls(r"multi::MultiState::draw_state"):
            sl = d.slice_args(c, [1])
            ctx.check(sl.has_field("idx", K.DRAWABLE), rule, "draws-into-own-slot", d.name, c.loc(),
                      "a member's draw state is looked up by the Drawable's own idx", "a bar draws into a slot that is not its own", cfg)
    dr = D.drawable_fn(ctx, crate, rule)
    if dr:
        for (cb, i, j, s) in K.constructions(crate, K.DRAWABLE, "Multi"):
            if cb.name != dr.name:
                continue
            rv = s["rv"]
            op = rv["ops"][rv["fields"].index("idx")]
            sl = cb.slice(op, at=i)
            ctx.check(sl.has_field("idx", D.TARGETKIND), rule, "drawable-carries-idx", cb.name, "%s:%d" % (cb.file, s.get("line", 0)),
                      "Drawable::Multi.idx is the target's own idx", "Drawable::Multi.idx is not the target's idx", cfg)
    ds = K.find_one(ctx, crate, rule, r"multi::MultiState::draw_state")
    if ds:
        gm = [c for c in members_index_sites(ds)]
        ok = bool(gm) and all(ds.slice_args(c, [1]).params() == {2} for c in gm)
        ctx.check(ok, rule, "draw_state-indexes-idx", ds.name, K.fn_loc(ds), "draw_state(idx) hands out members[idx]",
                  "draw_state(idx) hands out another member's draw state", cfg)


def rule_head_only_reap(ctx, crate, rule="R-MULTI-HEAD-REAP"):
    cfg = crate.config
    b = K.find_one(ctx, crate, rule, r"multi::MultiState::draw")
    if not b:
        return
    pushes = [c for c in b.calls(r"std::vec::Vec::<T, A>::push") if b.in_loop(c.bb) and not b.slice_args(c, [0]).has_field("lines")]
    zsw = []
    for sb, t in b.switches():
        sl = b.slice(t["op"], at=sb)
        if sl.has_field("is_zombie", "multi::MultiStateMember"):
            zero = [tb for v, tb in t["targets"] if v == 0]
            if zero:
                zsw.append((sb, zero[0], t["otherwise"]))
    # iterator form: `ordering.iter().take_while(|&&i| self.members[i].is_zombie)` — the predicate closure returns the flag
    tw_next = set()
    tw_collect = []
    for tw in b.calls(r"std::iter::Iterator::take_while"):
        cl = None
        for a in tw.args[1:]:
            l = operand_local(a)
            for d in b.defs().get(l, ()) if l is not None else ():
                if d["kind"] == "assign" and d["rv"]["k"] == "agg" and d["rv"].get("ak") == "closure":
                    cl = crate.bodies.get(d["rv"]["def"])
            if cl is None and isinstance(a, dict) and a.get("k") == "const" and a.get("closure"):
                cl = crate.bodies.get(a["closure"])
        if cl is None or not b.slice_args(tw, [0]).has_field("ordering", MS):
            continue
        rets = [d for d in cl.defs().get(0, ()) if d["kind"] in ("assign", "call")]
        good = bool(rets)
        for d in rets:
            sl = cl.slice_rv(d["bb"], {"lhs": d["lhs"], "rv": d["rv"]}) if d["kind"] == "assign" else cl.slice_args(d["call"])
            if not sl.has_field("is_zombie", "multi::MultiStateMember") or [a for a in sl.atoms if a[0] in ("unop", "binop")]:
                good = False
        if good:
            for nx in b.calls(r"std::iter::Iterator::next"):
                if "TakeWhile" in (nx.callee.get("self_ty") or "") + " ".join(nx.callee.get("targs") or []):
                    tw_next.add(nx.bb)
            # ... or collected as it is: `ordering.iter().copied().take_while(is_zombie).collect()`
            for col in b.calls(r"std::iter::Iterator::collect"):
                csl = b.slice_args(col, [0])
                if any(k.bb == tw.bb for k in csl.calls) and not csl.calls_matching(r"std::iter::Iterator::(rev|skip|skip_while|step_by|filter|filter_map|chain|map|flat_map|enumerate|zip)"):
                    tw_collect.append(col)
    ctx.check((bool(zsw) or bool(tw_next)) and bool(pushes) or bool(tw_collect), rule, "reap-loop", b.name, K.fn_loc(b), "the reap loop tests is_zombie and records indices",
              "no reap loop testing is_zombie was found", cfg)
    for col in tw_collect:
        ctx.ok(rule, "reap-only-zombies", b.name, col.loc(), "the reap list is take_while(is_zombie) over the ordering, collected unchanged", cfg)
        ctx.ok(rule, "stop-at-first-live", b.name, col.loc(), "take_while stops at the first non-zombie", cfg)
    for c in pushes:
        if tw_next and any(c.bb in b.reach_after(nb) and nb in b.reach_after(c.bb) for nb in tw_next):
            ctx.ok(rule, "reap-only-zombies", b.name, c.loc(), "indices come from take_while(is_zombie) over the ordering", cfg)
            ctx.ok(rule, "stop-at-first-live", b.name, c.loc(), "take_while stops at the first non-zombie", cfg)
            continue
        ok = any(b.edge_dominates((sb, nz), c.bb) for sb, z, nz in zsw)
        ok2 = all(c.bb not in b.reach([z]) for sb, z, nz in zsw)
        if not (ok and ok2) and zsw:
            # the answer of the test may travel as a locally built verdict (`match Self::head_member(..) { Zombie(n) => n, Alive => break }`):
            # on the paths through the "not a zombie" edge the verdict folds
            folded = [K.reach_through_edge(b, (sb, z), crate, want_avoid=True) for sb, z, nz in zsw]
            ok = all(c.bb not in R_ for R_, A_ in folded)
            ok2 = all(sb not in b.reach([z], avoid_edges=A_) for (sb, z, nz), (R_, A_) in zip(zsw, folded))
        ctx.check(ok, rule, "reap-only-zombies", b.name, c.loc(), "only zombie members are recorded for reaping",
                  "a live member can be recorded for reaping", cfg)
        ctx.check(ok2, rule, "stop-at-first-live", b.name, c.loc(), "the reap loop stops at the first non-zombie (only head zombies leave the frame)",
                  "the reap loop continues past a live member: a zombie in the middle is released from the erase count while rows above it are still redrawn", cfg)
    # mark_zombie reaps immediately only if the bar is first in `ordering`
    m = K.find_one(ctx, crate, rule, r"multi::MultiState::mark_zombie")
    if m:
        rm = m.calls(r"multi::MultiState::remove_idx")
        g = False
        for c in rm:
            for sb, t in m.switches():
                sl = m.slice(t["op"], at=sb)
                if sl.has_call(r"core::slice::<impl \[T\]>::first") and sl.has_field("ordering", MS) and 2 in sl.params():
                    if any(m.edge_dominates((sb, x), c.bb) for x in m.succ(sb)):
                        g = True
        ctx.check(bool(rm) and g, rule, "mark_zombie-head-test", m.name, K.fn_loc(m),
                  "immediate reaping in mark_zombie is conditional on the bar being ordering.first()",
                  "mark_zombie reaps a bar that is not at the head of the ordering", cfg)
        zs = [(i, s) for i, j, s in m.assigns() if [f[2] for f in place_fields(s["lhs"])][-1:] == ["is_zombie"]]
        ctx.check(bool(zs) and all(is_const(s["rv"].get("op"), True) for i, s in zs), rule, "mark_zombie-sets-flag", m.name, K.fn_loc(m),
                  "a non-head dropped bar is flagged is_zombie = true", "a non-head dropped bar is not flagged as zombie (it is never reaped)", cfg)


def rule_removal_keeps_screen_current(ctx, crate, rule="R-REMOVAL-REPAINTS"):
    """The in-place reap of a dropped head bar (mark_zombie: `Keep(rows of that bar)` without a draw) presumes that the rows
    on the terminal are those of the *current* ordering. So whoever takes a bar out of the ordering must leave the screen and
    its row accounting consistent with the new ordering before returning: every caller of the removal primitive either
    (a) repaints (calls MultiState::draw after it, on every path), (b) is MultiState::draw itself removing reaped bars after
    the frame was painted, or (c) releases exactly that bar's rows from the count first (the Keep of the in-place reap).
    A `remove()` that only edits the ordering leaves a stale frame: dropping the new head bar then keeps the wrong row."""
    cfg = crate.config
    prim = crate.find(r"multi::MultiState::remove_idx")
    if not prim:
        ctx.lost(rule, cfg, "removal primitive MultiState::remove_idx not found")
        return
    n = 0
    for b in K.lib_bodies(crate):
        for c in b.calls(r"multi::MultiState::remove_idx"):
            n += 1
            draws = {x.bb for x in b.calls(r"multi::MultiState::draw")}
            paints = {x.bb for x in b.calls(K.DRAWABLE_DRAW.replace("<", "<").replace("'", "'"))} | {x.bb for x in b.calls(r"draw_target::Drawable::<'_>::draw")}
            keeps = [x for x in b.calls(r"draw_target::ProgressDrawTarget::adjust_last_line_count") if b.dominates(x.bb, c.bb)]
            if b.name == "multi::MultiState::draw":
                ok = any(b.dominates(p_, c.bb) for p_ in paints)
                how = "(b) reaped after the frame was painted"
            elif keeps:
                ok, how = True, "(c) the bar's rows are released from the count before it leaves the ordering"
            else:
                ok = bool(draws) and b.must_pass([c.target] if c.target is not None else [], draws)
                how = "(a) the region is repainted before returning"
                # .. and that repaint is not left to the rate limiter: a refused frame is the stale frame again (seed C02k)
                forced = {x.bb for x in b.calls(r"multi::MultiState::draw") if len(x.args) > 1 and
                          D.implied_true(b, x.args[1], x.bb, lambda l_, d_: False, set())}
                okf = bool(forced) and b.must_pass([c.target] if c.target is not None else [], forced)
                ctx.check(okf or not ok, rule, "removal-repaint-forced:%s" % K.meth(b.name), b.name, c.loc(),
                          "the repaint that takes the removed bar's lines off the screen is forced (force_draw = true)",
                          "%s repaints through the rate limiter after taking a bar out of the ordering: with the limiter exhausted the frame is refused, the removed "
                          "bar's lines stay on the screen and the row accounting no longer matches the ordering (the next in-place reap keeps the wrong row)" % K.meth(b.name), cfg)
            ctx.check(ok, rule, "removal-site:%s" % K.meth(b.name), b.name, c.loc(), "a bar leaves the ordering only when the screen is brought in line: %s" % how,
                      "%s takes a bar out of the ordering without repainting the region or adjusting the row count: the terminal still shows the old frame, and when the "
                      "new head bar is dropped the in-place reap keeps the removed bar's row instead of its own (A,B,C; B.finish; remove(A); drop(B); tick(C) shows A, C)" % K.meth(b.name), cfg)
    ctx.floor(rule, n, 3, cfg, "call sites of MultiState::remove_idx")


def rule_multi_arm_unconditional(ctx, crate, rule="R-MULTI-MEMBER-REFRESH"):
    """A member bar's stored rendering is refreshed on every draw request, before the MultiProgress limiter decides:
    drawable()'s Multi arm builds Drawable::Multi on every path and consults no limiter. Otherwise a rate-limited
    update of bar A is lost and the next frame (requested by bar B) shows A's stale rendering."""
    cfg = crate.config
    b = D.drawable_fn(ctx, crate, rule)
    if not b:
        return
    cons = {i for (cb, i, j, s) in K.constructions(crate, K.DRAWABLE, "Multi") if cb.name == b.name}
    n = 0
    for vs, reg, sb, pl in K.variant_regions(b, crate, D.TARGETKIND):
        if vs != {"Multi"}:
            continue
        n += 1
        t = b.term(sb)
        tgt = [tb for tb, vv in K.edge_variants(crate, t, D.TARGETKIND).items() if vv == {"Multi"}][0]
        ok = bool(cons) and b.must_pass([tgt], cons)
        gate = [c for bb in reg for c in [b.term(bb)] if c and c["k"] == "call" and K.Call(b, bb, c).matches(D.ALLOW, K.PDT_DRAWABLE, r"multi::MultiState::draw")]
        calls_in = [K.Call(b, bb, b.term(bb)) for bb in reg if b.term(bb) and b.term(bb)["k"] == "call"]
        limiter = [c.path for c in calls_in if c.callee.get("local") and (D.ALLOW.replace("\\", "") in c.path or "allow" in K.meth(c.path) or K.deep_has_call(crate, crate.bodies[c.path].slice([0]) if c.path in crate.bodies else b.slice([0]), D.ALLOW, K.PDT_DRAWABLE))]
        ctx.check(ok and not limiter, rule, "multi-arm-always-builds", b.name, "%s:%d" % (b.file, t.get("line", 0)),
                  "the Multi arm of drawable() always yields Drawable::Multi and consults no limiter (the member rendering is refreshed before the MultiProgress decides)",
                  "the Multi arm of drawable() can return None / consults a limiter (%s): a skipped update of one bar is lost for frames requested by other bars" % (limiter or "early None"), cfg)
    ctx.floor(rule, n, 1, cfg, "TargetKind::Multi arms in drawable()")


def member_test_edges(crate, b):
    """Edges of tests that ask whether a bar already draws through this MultiState (`remote()` of its target + `Arc::ptr_eq`)."""
    out = []
    for sb, t in b.switches():
        sls = K.cond_slices(b, sb)
        if any(K.deep_has_call(crate, sl, r"std::sync::Arc::<T, A>::ptr_eq", r"std::sync::Arc::<T>::ptr_eq") for sl in sls) and \
                any(K.deep_has_call(crate, sl, r"draw_target::ProgressDrawTarget::remote") for sl in sls):
            out.extend((sb, x) for x in b.succ(sb))
    return out


def rule_readd_noop(ctx, crate, rule="R-MULTI-READD-NOOP"):
    """"in the order defined by add/insert/..", and every one of those documents: "adding a progress bar that is already a member
    of the MultiProgress will have no effect". Every function that allocates a slot for a bar handed in by the caller
    (`MultiState::insert` followed by `set_draw_target(new_remote(..))`) asks first whether that bar already draws through
    this very MultiState (its target is a remote of the same `Arc`, `Arc::ptr_eq`), and on the yes-edge neither allocates nor
    re-targets. Without the test a second `add` moves the bar to the end of the order and leaves its old slot behind as a
    phantom member."""
    cfg = crate.config
    n = 0
    for b in K.lib_bodies(crate):
        if b.kind == "Closure":
            continue
        ins = b.calls(r"multi::MultiState::insert")
        sets = b.calls(r"progress_bar::ProgressBar::set_draw_target")
        if not ins or not sets:
            continue
        n += 1
        ok = False
        for sb, x in member_test_edges(crate, b):
            if not any(c.bb in b.reach([x]) for c in ins + sets):
                ok = True
        ctx.check(ok, rule, "member-test:%s" % K.meth(b.name), b.name, ins[0].loc(),
                  "a bar that already draws through this MultiState is returned as it is: no slot is allocated, its target is not replaced",
                  "%s allocates a new slot and re-targets the bar without asking whether it is already a member: `mp.add(a); mp.add(b); mp.add(a.clone())` moves "
                  "a below b and leaves a's old slot in the ordering as a phantom member (documented: \"will have no effect\")" % K.meth(b.name), cfg)
    ctx.floor(rule, n, 1, cfg, "functions that allocate a slot for a caller's bar")


def rule_unlink_frees_slot(ctx, crate, rule="R-UNLINK-FREES-SLOT"):
    """"in the order defined by add/insert/../remove": positions count *members*. A bar stops being a member when it is removed,
    dropped - or given another draw target (`ProgressBar::set_draw_target`, documented as "will unlink this progress bar"; also
    what `add` does to a bar that belonged to another MultiProgress). Whoever replaces the target of a bar must give the
    slot of a remote target back (`MultiState::remove_idx`), otherwise the emptied slot stays in the ordering as a phantom
    member: `insert(index, ..)` counts it, and at the head it blocks the reaping of finished bars behind it.
      (a) `ProgressDrawTarget::disconnect`: with the target being `Multi`, every path to the return passes `remove_idx`;
      (b) every store that replaces `BarState::draw_target` is preceded on every path by `disconnect` (or followed by
          `remove_idx` in the same function: MultiProgress::remove)."""
    cfg = crate.config
    TK = "draw_target::TargetKind"
    d = K.find_one(ctx, crate, rule, r"draw_target::ProgressDrawTarget::disconnect")
    n = 0
    if d:
        R, avoid = K.variant_reach(d, crate, TK, "Multi", None, want_avoid=True)
        rm = [c.bb for c in d.calls(r"multi::MultiState::remove_idx")]
        ok = bool(rm) and not (d.reach([0], avoid=rm, avoid_edges=avoid) & set(d.return_blocks()))
        n += 1
        ctx.check(ok, rule, "disconnect-frees-slot", d.name, K.fn_loc(d),
                  "disconnecting a bar from its MultiProgress frees its slot on every path",
                  "a bar that is given another draw target keeps its (emptied) slot in the MultiProgress: the phantom member still counts in insert(index, ..) - "
                  "add a, add b, a.set_draw_target(hidden), insert(1, c) shows c above b", cfg)
    for b in K.lib_bodies(crate):
        if b.kind == "Closure" or K.meth(b.name) in ("new", "with_draw_target", "new_with_draw_target"):
            continue
        for i, j, s in b.assigns():
            fs = place_fields(s["lhs"])
            if not fs or fs[-1][0] != "state::BarState" or fs[-1][2] != "draw_target" or len([f for f in fs if f[0] == "state::BarState"]) != 1:
                continue
            if s["rv"]["k"] == "agg":
                continue
            n += 1
            dis = [c.bb for c in b.calls(r"draw_target::ProgressDrawTarget::disconnect")]
            rms = [c.bb for c in b.calls(r"multi::MultiState::remove_idx")]
            before = bool(dis) and i not in b.reach([0], avoid=dis)
            after = bool(rms) and b.must_pass(b.succ(i) or [i], rms)
            ctx.check(before or after, rule, "replace-unlinks:%s" % K.meth(b.name), b.name, "%s:%d" % (b.file, s.get("line", 0)),
                      "the old target is disconnected (its slot freed) before the bar's draw target is replaced",
                      "%s replaces the bar's draw target without disconnecting the old one: a member's slot stays behind" % K.meth(b.name), cfg)
    ctx.floor(rule, n, 3, cfg, "disconnect + stores that replace BarState::draw_target")


def rule_multi_draw_total(ctx, crate, rule="R-MULTI-DRAW-TOTAL"):
    """"Removing, clearing or dropping a bar makes its lines disappear": `MultiProgress::remove`, `ProgressDrawTarget::disconnect`
    (set_draw_target, add to another MultiProgress) and the reaping of zombies all change the member list and then rely on
    `MultiState::draw(true, ..)` to repaint the region - also when the list has become *empty* (the frame to paint is then the empty
    frame that erases the last bar). So `MultiState::draw` must reach `Drawable::draw` on every path; the only exits that paint
    nothing are the documented ones: `panicking()`, a target without a width (hidden) and a refused drawable (hidden / rate limited).
    An early return for a "degenerate" state (no members, nothing to print) leaves the departed bar's lines on the terminal."""
    cfg = crate.config
    d = K.find_one(ctx, crate, rule, r"multi::MultiState::draw")
    if not d:
        return
    paints = [c.bb for c in d.calls(r"draw_target::Drawable::<'_>::draw")]
    if not paints:
        ctx.lost(rule, cfg, "MultiState::draw no longer calls Drawable::draw")
        return
    exempt, why = set(), {}
    for sb, t in d.switches():
        if any(sl.has_call(r"std::thread::panicking") for sl in K.cond_slices(d, sb)):
            zero = [tb for v, tb in t["targets"] if v == 0]
            exempt.add((sb, t["otherwise"]))
            why[(sb, t["otherwise"])] = "panicking"
    for sb, t, pl, dd in K.discr_switches(d):
        if K.head_of_type(pl.get("ty", "")) != "std::option::Option":
            continue
        sl = d.slice({"k": "copy", "place": {"l": pl["l"], "p": []}}, through_calls=False)
        if sl.has_call(K.PDT_DRAWABLE) or sl.has_call(r"multi::MultiState::width", r"draw_target::ProgressDrawTarget::width"):
            for tgt, vs in K.edge_variants(crate, t, "std::option::Option").items():
                if vs == {"None"}:
                    exempt.add((sb, tgt))
    err = set()
    for k_ in d.calls(K.TRY_BRANCH):
        te = K.try_edges(d, k_)
        if te:
            err.add((te[0], te[2]))
    leak = d.reach([0], avoid=paints, avoid_edges=exempt | err) & set(d.return_blocks())
    wit = []
    if leak:
        # name the tests whose edges lead to a return without painting
        R0 = d.reach([0], avoid=paints, avoid_edges=exempt | err)
        for sb, t in d.switches():
            if sb in R0:
                for x in d.succ(sb):
                    if (sb, x) not in exempt and (d.reach([x], avoid=paints, avoid_edges=exempt | err) & set(d.return_blocks())) and \
                            not (set(d.reach([y for y in d.succ(sb) if y != x], avoid=paints, avoid_edges=exempt | err)) & set(d.return_blocks())):
                        wit.append("test at line %d" % t.get("line", 0))
    ctx.check(not leak, rule, "paints-unless-hidden", d.name, K.fn_loc(d),
              "MultiState::draw reaches Drawable::draw on every path except panicking() / no width / refused drawable (%d exempt edges)" % len(exempt),
              "MultiState::draw can return without painting for a reason other than panicking / a hidden target / a refused drawable (%s): remove() and "
              "set_draw_target() rely on this draw to erase the departed bar - with an early return for \"no members, nothing to print\" the last member's lines "
              "stay on the terminal" % (", ".join(sorted(set(wit))) or "early return"), cfg, witness=wit)
