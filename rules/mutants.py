"""Checker-sensitivity corpus: small edits of the real source that break a property while compiling
and keeping the baseline tests green. Each is applied to a scratch copy of the *current* tree; the
named rule must fire. A mutant whose anchor text no longer exists is skipped (never fails a check)."""
import glob
import json
import os
import shutil
import subprocess
import sys
import time
import tempfile

from . import extract

VERIF = os.path.dirname(os.path.dirname(os.path.abspath(__file__)))


def make_scratch(root):
    d = tempfile.mkdtemp(prefix="ivmut-")
    for name in ("Cargo.toml", "Cargo.lock"):
        shutil.copy(os.path.join(root, name), os.path.join(d, name))
    shutil.copytree(os.path.join(root, "src"), os.path.join(d, "src"))
    # examples/tests/benches are referenced by Cargo auto-discovery only if present: not needed for --lib
    return d


def apply_edits(scratch, edits):
    """edits: list of {file, old, new, [count]}. Returns None if OK, else reason for skipping."""
    for e in edits:
        p = os.path.join(scratch, e["file"])
        if not os.path.isfile(p):
            return "file %s missing" % e["file"]
        s = open(p).read()
        if e["old"] not in s:
            return "anchor text not found in %s" % e["file"]
        if s.count(e["old"]) > 1 and not e.get("all"):
            # replace the n-th occurrence (default first)
            idx = -1
            for _ in range(e.get("nth", 1)):
                idx = s.find(e["old"], idx + 1)
                if idx < 0:
                    return "occurrence %d of anchor not found" % e.get("nth", 1)
            s = s[:idx] + e["new"] + s[idx + len(e["old"]):]
        else:
            s = s.replace(e["old"], e["new"])
        open(p, "w").write(s)
    return None


def run_check_on(scratch, prop, tier="quick"):
    env = dict(os.environ, VERIF_REPO=scratch, VERIF_TIER=tier, VERIF_NO_EVIDENCE="1")
    for attempt in (0, 1, 2):
        r = subprocess.run([sys.executable, os.path.join(VERIF, "check"), prop, "--tier", tier],
                           env=env, capture_output=True, text=True, cwd=VERIF)
        verdict = any(l.startswith(("FAIL rule=", "ANCHOR-LOST", "PASS property=", "FAIL property=")) for l in r.stdout.splitlines()) or "BUILD-FAILED" in r.stderr
        if r.returncode == 0 or verdict:
            break
        # the check process died without a verdict (an environmental hiccup: a cache entry vanished, out of memory, ..): once more
        time.sleep(1 + attempt)
    return r.returncode, r.stdout, r.stderr


def load_corpus(prop):
    out = []
    for p in sorted(glob.glob(os.path.join(VERIF, "mutants", prop, "*.json"))):
        with open(p) as fh:
            m = json.load(fh)
        m["_path"] = p
        m["_name"] = os.path.splitext(os.path.basename(p))[0]
        out.append(m)
    return out


def run_mutant(root, m, prop):
    scratch = make_scratch(root)
    try:
        why = apply_edits(scratch, m["edits"])
        if why:
            return {"mutant": m["_name"], "status": "skipped", "reason": why}
        code, out, err = run_check_on(scratch, prop)
        fails = [l for l in out.splitlines() if l.startswith("FAIL rule=") or l.startswith("ANCHOR-LOST")]
        if "BUILD-FAILED" in err or "BUILD-FAILED" in out:
            return {"mutant": m["_name"], "status": "skipped", "reason": "mutant does not compile on this tree"}
        want = m.get("expect_rule")
        hit = [l for l in fails if (want is None or ("rule=%s " % want) in l)]
        want_fn = m.get("expect_function")
        if want_fn:
            hit = [l for l in hit if ("function=%s " % want_fn) in l]
        return {"mutant": m["_name"], "status": "killed" if (code != 0 and hit) else "MISSED",
                "expect_rule": want, "reports": fails[:6], "exit": code}
    finally:
        shutil.rmtree(scratch, ignore_errors=True)


def run_corpus(ctx, prop):
    """Thorough tier: apply every mutant of the property; record sensitivity in the evidence.
    A missed mutant is an ANCHOR-LOST-class failure of the checker itself."""
    from concurrent.futures import ThreadPoolExecutor
    root = extract.repo_root()
    corpus = load_corpus(prop)
    if os.environ.get("VERIF_NO_EVIDENCE"):
        return
    with ThreadPoolExecutor(max_workers=6) as ex:
        res = list(ex.map(lambda m: run_mutant(root, m, prop), corpus))
    killed = sum(1 for r in res if r["status"] == "killed")
    skipped = sum(1 for r in res if r["status"] == "skipped")
    missed = [r for r in res if r["status"] == "MISSED"]
    ctx.extra["checker_sensitivity"] = {"mutants": len(corpus), "killed": killed, "skipped": skipped,
                                        "missed": [r["mutant"] for r in missed], "results": res}
    print("mutants property=%s applied=%d killed=%d skipped=%d missed=%d" % (prop, len(corpus) - skipped, killed, skipped, len(missed)))
    for r in missed:
        ctx.lost("MUTANT-SENSITIVITY", "scratch", "mutant %s (expects %s) was not reported: the rule has lost its teeth" % (r["mutant"], r.get("expect_rule")))
