"""Flow-sensitive symbolic values for loop-free bodies: a forward evaluation of the MIR in statement order that maps
every local to an expression tree over the function's inputs. Unlike the slices (flow-insensitive, may-reach) this
tracks *which* assignment of a reassigned local (`t /= 60; .. t % 60 ..`) a use sees.

Expressions (tuples):
  ("param", i)                       the i-th argument
  ("const", value, operand)          a constant (operand = the fact record, for `hex`/`ref_hex` of aggregate constants)
  ("bin", op, a, b) ("un", op, a) ("cast", a, to_ty)
  ("call", path, (args..), bb)       an opaque call result (pure calls with equal arguments compare equal apart from bb)
  ("agg", kind, (items..))           tuple / array / adt aggregate
  ("ref", local, proj)               a reference to a place of this body
  ("field", base, name) ("deref", base)
  ("?", why)                         unknown
"""
import json


def _freeze(p):
    return json.dumps(p, sort_keys=True)


class SymExec:
    def __init__(self, body):
        self.b = body
        self.ok = True
        self.env_at = {}          # bb -> env at the terminator of bb (after its statements)
        self.env_in = {}
        self._run()

    # -- evaluation ------------------------------------------------------------------------------------------
    def place(self, env, pl):
        l = pl["l"]
        if l in env:
            cur = env[l]
        elif 1 <= l <= self.b.arg_count:
            cur = ("param", l)
        else:
            cur = ("?", "uninit _%d" % l)
        for e in pl["p"]:
            if e == "*":
                if cur[0] == "ref":
                    cur = self.place(env, {"l": cur[1], "p": json.loads(cur[2])})
                else:
                    cur = ("deref", cur)
            elif isinstance(e, dict) and "f" in e:
                if cur[0] == "agg" and isinstance(e["f"], int) and e["f"] < len(cur[2]) and "dc" not in e:
                    cur = cur[2][e["f"]]
                else:
                    cur = ("field", cur, str(e.get("n", e["f"])))
            elif isinstance(e, dict) and "dc" in e:
                cur = ("as", cur, str(e["dc"]))
            else:
                cur = ("?", "projection")
        return cur

    def op(self, env, o):
        if not isinstance(o, dict):
            return ("?", "operand")
        if o.get("k") == "const":
            return ("const", o.get("v"), _freeze({k: o[k] for k in ("hex", "ref_hex", "cdef", "ty") if k in o}))
        return self.place(env, o["place"])

    def rvalue(self, env, rv):
        k = rv["k"]
        if k == "use":
            return self.op(env, rv["op"])
        if k == "cast":
            return ("cast", self.op(env, rv["op"]), rv.get("ty") or rv.get("to") or "?")
        if k == "bin":
            return ("bin", rv["op"], self.op(env, rv["a"]), self.op(env, rv["b"]))
        if k == "un":
            return ("un", rv.get("op"), self.op(env, rv.get("a")))
        if k in ("ref", "copyderef"):
            pl = rv["place"]
            if pl["p"] and pl["p"][0] == "*" and len(pl["p"]) == 1:
                base = self.place(env, {"l": pl["l"], "p": []})
                if base[0] == "ref":
                    return base if k == "ref" else self.place(env, {"l": base[1], "p": json.loads(base[2])})
                if base[0] == "const" and k == "ref":
                    return base          # `&*PROMOTED`: the reference constant itself
            if k == "copyderef":
                return self.place(env, pl)
            return ("ref", pl["l"], _freeze(pl["p"]))
        if k == "agg":
            return ("agg", rv.get("adt") or rv.get("ak"), tuple(self.op(env, o) for o in rv["ops"]))
        if k == "discr":
            return ("discr", self.place(env, rv["place"]))
        return ("?", k)

    def _run(self):
        b = self.b
        R = b.reachable()
        # topological order; a cycle makes the body unsuitable
        indeg = {x: 0 for x in R}
        for x in R:
            for s in b.succ(x):
                if s in R:
                    indeg[s] += 1
        order, ready = [], [x for x in R if indeg[x] == 0]
        while ready:
            x = ready.pop()
            order.append(x)
            for s in b.succ(x):
                if s in R:
                    indeg[s] -= 1
                    if indeg[s] == 0:
                        ready.append(s)
        if len(order) != len(R):
            self.ok = False
            return
        preds = {x: [] for x in R}
        for x in R:
            for s in b.succ(x):
                if s in R:
                    preds[s].append(x)
        out = {}
        for x in order:
            ins = [out[p] for p in preds[x] if p in out]
            if not ins:
                env = {}
            else:
                env = dict(ins[0])
                for other in ins[1:]:
                    for l in set(env) | set(other):
                        if env.get(l) != other.get(l):
                            env[l] = ("?", "join")
            self.env_in[x] = dict(env)
            for s in b.stmts(x):
                if s.get("k") != "assign":
                    continue
                v = self.rvalue(env, s["rv"])
                if s["lhs"]["p"]:
                    env[s["lhs"]["l"]] = ("?", "partial store")
                else:
                    env[s["lhs"]["l"]] = v
            self.env_at[x] = dict(env)
            t = b.term(x)
            env2 = dict(env)
            if t and t["k"] == "call":
                args = tuple(self.op(env, a) for a in t["args"])
                d = t["dest"]
                val = ("call", t["callee"]["path"], args, x)
                if d["p"]:
                    env2[d["l"]] = ("?", "partial store")
                else:
                    env2[d["l"]] = val
                # a `&mut local` argument may be written by the callee
                for a in args:
                    if a[0] == "ref":
                        pass
            out[x] = env2


def same(a, b):
    """Structural equality that ignores the block of a call (pure getters with equal arguments)."""
    if a == b:
        return True
    if not isinstance(a, tuple) or not isinstance(b, tuple) or len(a) != len(b) or a[0] != b[0]:
        return False
    if a[0] == "call":
        return a[1] == b[1] and len(a[2]) == len(b[2]) and all(same(x, y) for x, y in zip(a[2], b[2]))
    return all(same(x, y) if isinstance(x, tuple) else x == y for x, y in zip(a, b))
