"""Rule-run context: obligations, violations, floors, known findings, evidence, replay files."""
import json
import os
import sys
import time
import tomllib

VERIF = os.path.dirname(os.path.dirname(os.path.abspath(__file__)))

ASSUMPTIONS = [
    "rustc nightly MIR construction, borrowck/drop elaboration and callee resolution are correct",
    "the fact extractor (/verif/driver) and the rule engine (/verif/rules) are correct",
    "std, console, portable-atomic, number_prefix, tokio, futures-core, rayon, vt100 behave as documented (not analysed)",
    "user-supplied code (TermLike, ProgressTracker, closures, wrapped iterators/readers) does not panic, block or re-enter the library",
    "the crate contains no unsafe code (checked on every run by rule NO-UNSAFE)",
    "lock classes abstract lock instances; audited panic-ledger reasons are human-verified",
]


class Ctx:
    def __init__(self, prop, tier, crates):
        self.prop = prop
        self.tier = tier
        self.crates = crates  # config -> Crate
        self.obligations = []  # dicts
        self.violations = []
        self.anchor_lost = []
        self.notes = []
        self.functions = set()
        self.call_sites = 0
        self.floors = []
        self.extra = {}
        self.t0 = time.time()

    # -- recording --------------------------------------------------------------------------------
    def ok(self, rule, key, fn, loc, how, config, nontrivial=True):
        self.obligations.append({"rule": rule, "key": key, "fn": fn, "loc": loc, "how": how,
                                 "config": config, "ok": True, "nontrivial": nontrivial})
        self.functions.add(fn)

    def bad(self, rule, key, fn, loc, msg, config, witness=None):
        o = {"rule": rule, "key": key, "fn": fn, "loc": loc, "how": msg, "config": config, "ok": False,
             "nontrivial": True, "witness": witness}
        self.obligations.append(o)
        self.violations.append(o)
        self.functions.add(fn)

    def check(self, cond, rule, key, fn, loc, how_ok, how_bad, config, witness=None):
        if cond:
            self.ok(rule, key, fn, loc, how_ok, config)
        else:
            self.bad(rule, key, fn, loc, how_bad, config, witness)
        return cond

    def floor(self, rule, found, expected, config, what):
        self.floors.append({"rule": rule, "found": found, "expected": expected, "config": config, "what": what})
        if found < expected:
            self.anchor_lost.append({"rule": rule, "config": config,
                                     "msg": "%s: found %d instance(s) of %s, expected at least %d" % (rule, found, what, expected)})
            return False
        return True

    def lost(self, rule, config, msg):
        self.anchor_lost.append({"rule": rule, "config": config, "msg": msg})

    def note(self, s):
        self.notes.append(s)


def vkey(prop, v):
    return (prop, v["rule"], v["fn"], v["key"])


def load_known():
    p = os.path.join(VERIF, "known_findings.toml")
    if not os.path.isfile(p):
        return [], []
    with open(p, "rb") as fh:
        d = tomllib.load(fh)
    return d.get("finding", []), d.get("fixed", [])


def finish(ctx, explanation, undecided, seed=0):
    """Print the report, write evidence + replay files, return the exit code."""
    prop = ctx.prop
    known, fixed = load_known()
    known_keys = {(k["property"], k["rule"], k["function"], k["instance"]): k for k in known}
    # de-duplicate violations across configurations by key
    by_key = {}
    for v in ctx.violations:
        by_key.setdefault(vkey(prop, v), []).append(v)
    new = []
    printed_known = set()
    for k, vs in sorted(by_key.items()):
        if k in known_keys:
            if k not in printed_known:
                printed_known.add(k)
                print("KNOWN-FINDING: property=%s rule=%s function=%s instance=%s :: %s [%s]" % (
                    prop, k[1], k[2], k[3], known_keys[k].get("what", vs[0]["how"]), vs[0]["loc"]))
        else:
            new.append((k, vs))
    n_ob = len(ctx.obligations)
    n_ok = sum(1 for o in ctx.obligations if o["ok"])
    for o in ctx.obligations:
        if o["ok"] and os.environ.get("VERIF_VERBOSE"):
            print("ok   %-28s %-40s %s [%s] %s" % (o["rule"], o["key"][:40], o["fn"], o["config"], o["loc"]))
    rules = sorted({o["rule"] for o in ctx.obligations})
    for r in rules:
        os_ = [o for o in ctx.obligations if o["rule"] == r]
        print("rule %-28s instances=%d discharged=%d" % (r, len(os_), sum(1 for o in os_ if o["ok"])))
    for f in ctx.floors:
        print("floor %-27s %s: found=%d expected>=%d [%s]" % (f["rule"], f["what"], f["found"], f["expected"], f["config"]))
    code = 0
    REPLAY = os.path.join(VERIF, "replay" if not os.environ.get("VERIF_NO_EVIDENCE") else ".cache/replay-scratch")
    os.makedirs(REPLAY, exist_ok=True)
    for a in ctx.anchor_lost:
        print("ANCHOR-LOST property=%s rule=%s config=%s :: %s" % (prop, a["rule"], a["config"], a["msg"]))
    if ctx.anchor_lost:
        rp = os.path.join(REPLAY, "%s-anchor.json" % prop)
        with open(rp, "w") as fh:
            json.dump({"property": prop, "anchor_lost": ctx.anchor_lost}, fh, indent=1)
        print("VIOLATION property=%s replay=%s" % (prop, rp))
        code = 1
    for i, (k, vs) in enumerate(new):
        v = vs[0]
        rp = os.path.join(REPLAY, "%s-%d.json" % (prop, i))
        with open(rp, "w") as fh:
            json.dump({"property": prop, "rule": k[1], "function": k[2], "instance": k[3],
                       "configs": sorted({x["config"] for x in vs}),
                       "loc": v["loc"], "message": v["how"], "witness": v.get("witness")}, fh, indent=1)
        print("FAIL rule=%s function=%s instance=%s loc=%s :: %s" % (k[1], k[2], k[3], v["loc"], v["how"]))
        if v.get("witness"):
            w = v["witness"]
            for line in (w if isinstance(w, list) else [w]):
                print("      " + str(line))
        print("VIOLATION property=%s replay=%s" % (prop, rp))
        code = 1
    # evidence
    distinct = {(o["rule"], o["fn"], o["key"]) for o in ctx.obligations if o.get("nontrivial", True)}
    samples = []
    seen_rules = set()
    for o in ctx.obligations:
        if o["rule"] not in seen_rules or len(samples) < 12:
            if sum(1 for s in samples if s["rule"] == o["rule"]) < 3:
                samples.append({"rule": o["rule"], "instance": o["key"], "function": o["fn"], "loc": o["loc"],
                                "config": o["config"], "result": "discharged" if o["ok"] else "VIOLATED",
                                "how": o["how"]})
                seen_rules.add(o["rule"])
    ev = {
        "property_id": prop,
        "tier": ctx.tier,
        "seed": seed,
        "level": "other",
        "coverage": {
            "explanation": explanation,
            "undecided_remainder": undecided,
            "obligations": n_ob,
            "discharged": n_ok,
            "evaluations": max(n_ob, 1),
            "distinct_nontrivial": len(distinct),
            "rule": "one obligation per (rule, function, instance key, configuration); distinct = distinct (rule,function,key) whose anchor region is non-empty",
            "samples": samples,
            "rules": {r: {"instances": sum(1 for o in ctx.obligations if o["rule"] == r),
                          "discharged": sum(1 for o in ctx.obligations if o["rule"] == r and o["ok"])} for r in rules},
            "configurations": sorted(ctx.crates.keys()),
            "functions_analysed": len(ctx.functions),
            "functions": sorted(ctx.functions)[:80],
            "bodies_loaded": {c: len(cr.bodies) for c, cr in ctx.crates.items()},
            "floors": ctx.floors,
            "known_findings_matched": [list(k) for k in sorted(printed_known)],
            "new_violations": [list(k) for k, _ in new],
            "anchor_lost": ctx.anchor_lost,
            "notes": ctx.notes,
            "trusted_base": ["rustc nightly (MIR, resolution)", "/verif/driver", "/verif/rules"],
            "checker_cmd": "./check %s --tier %s" % (prop, ctx.tier),
        },
        "assumptions": ASSUMPTIONS,
        "wall_s": round(time.time() - ctx.t0, 3),
        "violations": len(new) + (1 if ctx.anchor_lost else 0),
    }
    ev["coverage"].update(ctx.extra)
    if not os.environ.get("VERIF_NO_EVIDENCE"):
        os.makedirs(os.path.join(VERIF, "evidence"), exist_ok=True)
        with open(os.path.join(VERIF, "evidence", "%s.json" % prop), "w") as fh:
            json.dump(ev, fh, indent=1, default=str)
    print("%s property=%s tier=%s obligations=%d discharged=%d known=%d new=%d anchor_lost=%d wall=%.1fs" % (
        "PASS" if code == 0 else "FAIL", prop, ctx.tier, n_ob, n_ok, len(printed_known), len(new),
        len(ctx.anchor_lost), time.time() - ctx.t0))
    return code
