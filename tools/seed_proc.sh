#!/bin/bash
# seed_proc.sh <seed id> <worktree> <demo basename> [features]  -- evaluate a sub-agent seed and print a short summary
cd /verif
python3 tools/seed_eval.py "$1" "$2/patch.diff" "$2/tests/$3.rs" $4 2>&1 | python3 -c "
import json,sys
s=sys.stdin.read(); d=json.loads(s[s.index('{'):])
print(d['id'], 'applies', d['patch_applies'])
print(' baseline', [x[:40] for x in d['baseline_default']], [x[:40] for x in d['baseline_allfeatures']])
print(' demo with   :', d['demo_with_change'][-2:])
print(' demo without:', d['demo_without_change'][-1:])
for k,v in d['detected_by'].items(): print('  ',k,[l[:260] for l in v[:4]])
if not d['detected_by']: print('   NOT DETECTED')
"
