#!/usr/bin/env python3
"""Generate docs/TABLES.md: rule inventory (from evidence files) and mutant/seeded kill matrix."""
import glob
import json
import os

V = os.path.dirname(os.path.dirname(os.path.abspath(__file__)))
out = ["# Generated tables (tools/gen_tables.py)\n"]
out.append("## Rule inventory (from the last quick run's evidence)\n")
out.append("| property | rule | instances | discharged |\n|---|---|---|---|")
for p in sorted(glob.glob(os.path.join(V, "evidence", "C*.json"))):
    e = json.load(open(p))
    for r, v in sorted(e["coverage"].get("rules", {}).items()):
        out.append("| %s | %s | %d | %d |" % (e["property_id"], r, v["instances"], v["discharged"]))
out.append("\n## Checker-sensitivity corpus (mutants/)\n")
out.append("Each mutant is a small edit of the real source that compiles and keeps the baseline tests green (`verified` column: result of tools/verify_mutants.py) and breaks the property; the thorough tier applies each to a scratch copy of the current tree and requires the named rule to fire.\n")
out.append("| property | mutant | rule that must fire | verified compiles+tests | description |\n|---|---|---|---|---|")
for p in sorted(glob.glob(os.path.join(V, "mutants", "*", "*.json"))):
    m = json.load(open(p))
    out.append("| %s | %s | %s | %s | %s |" % (m["property"], os.path.splitext(os.path.basename(p))[0], m.get("expect_rule"), m.get("compiles_and_tests_pass"), (m.get("description") or "").replace("|", "/")))
out.append("\n## Seeded changes (seeded/)\n")
out.append("| id | property | detected by | needs to manifest |\n|---|---|---|---|")
for p in sorted(glob.glob(os.path.join(V, "seeded", "*", "meta.json"))):
    m = json.load(open(p))
    out.append("| %s | %s | %s | %s |" % (os.path.basename(os.path.dirname(p)), m.get("property"), m.get("detected_by"), (m.get("needs") or "").replace("|", "/")))
os.makedirs(os.path.join(V, "docs"), exist_ok=True)
open(os.path.join(V, "docs", "TABLES.md"), "w").write("\n".join(out) + "\n")
print("ok")
