#!/usr/bin/env python3
"""Try an edit against one or more checks on a scratch copy of /repo.
usage: mut.py <ID[,ID..]> file:::old:::new [file:::old:::new ...]   (or: mut.py <ID> --json mutant.json)"""
import json
import os
import shutil
import sys

sys.path.insert(0, os.path.dirname(os.path.dirname(os.path.abspath(__file__))))
from rules import mutants, extract  # noqa

ids = sys.argv[1].split(",")
save = rule = desc = None
while sys.argv[2] in ("--save", "--rule", "--desc"):
    if sys.argv[2] == "--save":
        save = sys.argv[3]
    elif sys.argv[2] == "--rule":
        rule = sys.argv[3]
    else:
        desc = sys.argv[3]
    del sys.argv[2:4]
if sys.argv[2] == "--json":
    edits = json.load(open(sys.argv[3]))["edits"]
else:
    edits = []
    for a in sys.argv[2:]:
        f, old, new = a.split(":::")
        edits.append({"file": f, "old": old, "new": new})
scratch = mutants.make_scratch(extract.repo_root())
try:
    why = mutants.apply_edits(scratch, edits)
    if why:
        print("SKIP:", why)
        sys.exit(3)
    for i in ids:
        code, out, err = mutants.run_check_on(scratch, i)
        print("== %s exit=%d" % (i, code))
        for l in out.splitlines():
            if l.startswith(("FAIL", "ANCHOR", "VIOLATION", "KNOWN", "PASS", "      ")):
                print(l)
        if "BUILD-FAILED" in err:
            print(err[-3000:])
    if save:
        d = os.path.join(os.path.dirname(os.path.dirname(os.path.abspath(__file__))), "mutants", ids[0])
        os.makedirs(d, exist_ok=True)
        with open(os.path.join(d, save + ".json"), "w") as fh:
            json.dump({"property": ids[0], "expect_rule": rule, "description": desc or "", "edits": edits,
                       "compiles_and_tests_pass": "unverified"}, fh, indent=1)
        print("saved", os.path.join(d, save + ".json"))
finally:
    shutil.rmtree(scratch, ignore_errors=True)
