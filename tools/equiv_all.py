#!/usr/bin/env python3
"""Apply each behaviour-preserving refactor and run every claimed check: all must stay silent."""
import json, os, sys, shutil
V = os.path.dirname(os.path.dirname(os.path.abspath(__file__)))
sys.path.insert(0, V)
from rules import equiv, mutants, extract
from concurrent.futures import ThreadPoolExecutor
man = json.load(open(os.path.join(V, "MANIFEST.json")))
props = [c["property_id"] for c in man["checks"]] + [x for x in os.environ.get("EXTRA_PROPS","").split(",") if x]
if os.environ.get("ONLY_PROPS"):
    props = [x for x in os.environ["ONLY_PROPS"].split(",") if x]  # after a rule change of a few properties
only = sys.argv[1:]
def one(m):
    if only and m["_name"] not in only:
        return None
    scratch = mutants.make_scratch(extract.repo_root())
    try:
        why = mutants.apply_edits(scratch, m["edits"])
        if why:
            return (m["_name"], "SKIP " + why, [])
        bad = []
        for p in props:
            code, out, err = mutants.run_check_on(scratch, p)
            if "BUILD-FAILED" in err:
                return (m["_name"], "DOES NOT COMPILE", [err[-800:]])
            if code != 0:
                lines = [p + ": " + l[:260] for l in out.splitlines() if l.startswith("FAIL rule=") or l.startswith("ANCHOR-LOST")]
                bad += lines or [p + ": CHECK CRASHED / exit %d without a report: %s" % (code, err.strip().splitlines()[-1][:200] if err.strip() else "")]
        return (m["_name"], "silent" if not bad else "FALSE-ALARM", bad)
    finally:
        shutil.rmtree(scratch, ignore_errors=True)
with ThreadPoolExecutor(max_workers=int(os.environ.get("WORKERS", "5"))) as ex:
    for r in ex.map(one, equiv.load()):
        if r:
            print(r[0], "->", r[1])
            for b in r[2][:8]:
                print("     ", b)
