#!/usr/bin/env python3
"""For every mutant in /verif/mutants: apply it to a scratch copy of the repository, build it and run the
baseline tests (lib unit tests + tests/*.rs). Records the outcome in the mutant file
(compiles_and_tests_pass: true | false + reason). Run once when mutants are added; not part of any check."""
import glob
import json
import os
import shutil
import subprocess
import sys
import tempfile
from concurrent.futures import ThreadPoolExecutor

sys.path.insert(0, os.path.dirname(os.path.dirname(os.path.abspath(__file__))))
from rules import mutants  # noqa

REPO = os.environ.get("VERIF_REPO", "/repo")
WORKERS = int(os.environ.get("WORKERS", "6"))
only = sys.argv[1:] 


def verify(args):
    path, slot = args
    m = json.load(open(path))
    if m.get("compiles_and_tests_pass") in (True, False) and not os.environ.get("FORCE"):
        return path, m["compiles_and_tests_pass"], "cached"
    d = tempfile.mkdtemp(prefix="ivverify-")
    try:
        for name in ("Cargo.toml", "Cargo.lock"):
            shutil.copy(os.path.join(REPO, name), d)
        for sub in ("src", "tests", "examples", "benches"):
            if os.path.isdir(os.path.join(REPO, sub)):
                shutil.copytree(os.path.join(REPO, sub), os.path.join(d, sub))
        why = mutants.apply_edits(d, m["edits"])
        if why:
            m["compiles_and_tests_pass"] = None
            m["verify_note"] = "skipped: " + why
        else:
            env = dict(os.environ, CARGO_TARGET_DIR="/tmp/ivverify-target-%d" % slot, CARGO_NET_OFFLINE="true")
            r = subprocess.run(["cargo", "test", "--offline", "--lib", "--tests", "--manifest-path", os.path.join(d, "Cargo.toml")],
                               env=env, capture_output=True, text=True, timeout=900)
            ok = r.returncode == 0
            m["compiles_and_tests_pass"] = ok
            if not ok:
                tail = [l for l in (r.stdout + r.stderr).splitlines() if "error" in l or "FAILED" in l or "panicked" in l][:6]
                m["verify_note"] = " | ".join(tail)[:600]
            else:
                m["verify_note"] = "cargo test --offline --lib --tests: ok"
        json.dump(m, open(path, "w"), indent=1)
        return path, m["compiles_and_tests_pass"], m.get("verify_note", "")
    finally:
        shutil.rmtree(d, ignore_errors=True)


paths = sorted(glob.glob(os.path.join(os.path.dirname(os.path.dirname(os.path.abspath(__file__))), "mutants", "*", "*.json")))
if only:
    paths = [p for p in paths if any(o in p for o in only)]
jobs = [(p, i % WORKERS) for i, p in enumerate(paths)]
# one slot = one target dir: run slots in parallel, jobs of a slot sequentially
def run_slot(s):
    out = []
    for j in jobs:
        if j[1] == s:
            out.append(verify(j))
            print(out[-1], flush=True)
    return out
with ThreadPoolExecutor(max_workers=WORKERS) as ex:
    res = [x for xs in ex.map(run_slot, range(WORKERS)) for x in xs]
bad = [r for r in res if r[1] is not True]
print("verified %d mutants, %d not passing" % (len(res), len(bad)))
for b in bad:
    print("NOT-OK", b)
for s in range(WORKERS):
    shutil.rmtree("/tmp/ivverify-target-%d" % s, ignore_errors=True)
