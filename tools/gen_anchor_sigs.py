#!/usr/bin/env python3
"""Record the signature shape of every function of the pinned tree (rules/anchor_sigs.json). Used by facts.Crate to
recognise a *renamed* function (same owner, same parameter and return types, old name gone, new name unknown) and to
canonicalise its name, so that a pure rename does not raise ANCHOR-LOST."""
import json, os, sys
V = os.path.dirname(os.path.dirname(os.path.abspath(__file__)))
sys.path.insert(0, V)
from rules import cli
out = {}
for cfg in ("default", "all"):
    crates, _ = cli.load_crates([cfg])
    c = crates[cfg]
    for n, f in c.fns.items():
        if not f.get("has_body"):
            continue
        owner = f.get("impl_self_head") or n.rsplit("::", 1)[0]
        out[n] = {"owner": owner, "trait": f.get("impl_trait"), "inputs": [i["ty"] for i in f["inputs"]], "ret": f["ret"]["ty"]}
json.dump(out, open(os.path.join(V, "rules", "anchor_sigs.json"), "w"), indent=0, sort_keys=True)
print(len(out))
